#!/usr/bin/env python3
"""tools/navigation.py — prints the DESIGN.md §9 navigation table from the sources: for every property the Model/, Lemmas/ and
Props/ modules its audit file imports (transitively), the drivers its harness runs, and its tier-A groups."""
import importlib
import os
import re
import sys

root = os.path.dirname(os.path.dirname(os.path.abspath(__file__)))
lean = os.path.join(root, "lean")


def imports(mod, seen):
    path = os.path.join(lean, mod.replace(".", "/") + ".lean")
    if mod in seen or not os.path.exists(path):
        return
    seen.add(mod)
    for m in re.findall(r"^import (IbicusModel\.\S+)", open(path).read(), re.M):
        imports(m, seen)


def drivers_of(pyfile, seen_files=None):
    seen_files = seen_files or set()
    if pyfile in seen_files or not os.path.exists(pyfile):
        return set()
    seen_files.add(pyfile)
    src = open(pyfile).read()
    out = set(re.findall(r'"(Drv[A-Z]\w+)"', src))
    for helper in re.findall(r"^from harness import (\w+)|^import harness\.(\w+)", src, re.M):
        h = helper[0] or helper[1]
        if h != "common":
            out |= drivers_of(os.path.join(root, "harness", h + ".py"), seen_files)
    for h in re.findall(r"^from harness import ([\w, ]+)", src, re.M):
        for name in h.split(","):
            name = name.strip().split(" as ")[0]
            if name and name != "common":
                out |= drivers_of(os.path.join(root, "harness", name + ".py"), seen_files)
    return out


sys.path.insert(0, root)
print("| property | obligations | model | lemmas | theorems | drivers | harness (+ helpers) | tier-A groups |")
print("|---|---|---|---|---|---|---|---|")
for i in range(1, 21):
    p = f"C{i:02d}"
    seen = set()
    imports(f"IbicusModel.Audit.{p}", seen)
    short = lambda pre: ", ".join(sorted(m.split(".")[-1] for m in seen if m.startswith("IbicusModel." + pre + ".")))
    nobl = len(re.findall(r"^#print axioms", open(os.path.join(lean, "IbicusModel", "Audit", p + ".lean")).read(), re.M))
    hp = os.path.join(root, "harness", p.lower() + ".py")
    src = open(hp).read()
    # tier-A groups = every Gen module the audit imports transitively (what lean_phase regenerates), own groups of the harness first
    own = re.findall(r'"(\w+)"', " ".join(re.findall(r"^GEN\s*\+?=\s*(\[.*?\])", src, re.M | re.S)))
    allg = sorted(m.split(".")[-1] for m in seen if m.startswith("IbicusModel.Gen."))
    gen_txt = ", ".join(own + [g + "*" for g in allg if g not in own]) or "—"
    helpers = sorted(set(n.strip().split(" as ")[0] for h in re.findall(r"^from harness import ([\w, ]+)", src, re.M) for n in h.split(",")) - {"common", "C"})
    print(f"| {p} | {nobl} | `{short('Model')}` | `{short('Lemmas')}` | `{short('Props')}` | `{', '.join(sorted(drivers_of(hp)))}` | "
          f"`{p.lower()}.py`{(' + ' + ', '.join(helpers)) if helpers else ''} | {gen_txt} |")
