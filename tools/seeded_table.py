#!/usr/bin/env python3
"""tools/seeded_table.py [round]  — prints the markdown table of DESIGN.md §10 from seeded/*/meta.json
(round 1: ids Cxx-1..3, round 2: ids Cxx-4..6; without argument both)."""
import glob
import json
import os
import sys

root = os.path.dirname(os.path.dirname(os.path.abspath(__file__)))
want = int(sys.argv[1]) if len(sys.argv) > 1 else None


def clip(s, n):
    s = " ".join(str(s).split()).replace("|", "/")
    return s if len(s) <= n else s[: n - 1] + "…"


rows = []
for f in sorted(glob.glob(os.path.join(root, "seeded", "*", "meta.json"))):
    m = json.load(open(f))
    sid = m["id"]
    k = int(sid.split("-")[1])
    rnd = (k + 2) // 3 if k <= 12 else (5 if k <= 14 else (6 if k <= 16 else 7))
    if want and rnd != want:
        continue
    c = m["confirmed_by_coordinator"]
    det = "; ".join(f"{a}: {b}" for a, b in c["detected_by"].items())
    first = m.get("first_trial", "")
    note = (first + " — " if first else "") + c.get("note", "")
    rows.append(f"| {sid} | {clip(m['summary'], 170)} | {clip(m['needs'], 150)} | {det} | {clip(note, 200)} |")
print("| id | change (independent sub-agent, saw only the property text) | needs | detected by | note |")
print("|---|---|---|---|---|")
print("\n".join(rows))
