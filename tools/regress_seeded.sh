#!/bin/bash
# tools/regress_seeded.sh C07 C08 ... : re-trial every seeded/<Cxx>-k against its own check (5 in parallel; logs in /tmp/trial_logs/reg_<id>.log)
mkdir -p /tmp/trial_logs
cd /verif
for p in "$@"; do for d in seeded/$p-*; do k=$(basename $d); ( tools/try_mutant.sh $d/patch.diff $d/demo.py $p > /tmp/trial_logs/reg_$k.log 2>&1 ) & while [ $(jobs -r | wc -l) -ge 5 ]; do sleep 2; done; done; done; wait
for p in "$@"; do for d in seeded/$p-*; do k=$(basename $d); f=/tmp/trial_logs/reg_$k.log; echo "$k: $(grep 'check exit' $f | tr '\n' ' ') $(grep -c 'no-failing-input-found' $f)nfi"; done; done
