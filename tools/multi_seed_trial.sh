#!/bin/bash
# tools/multi_seed_trial.sh <patch.diff> <Cxx> seed...  : detection of one change under several VERIF_SEED values (scratch worktree + copy of /verif)
patch=$(readlink -f $1); chk=$2; shift 2
wt=/tmp/ms_repo_$$; vc=/tmp/ms_verif_$$
git -C /repo worktree add --detach $wt HEAD -q; git -C $wt apply $patch || exit 2
mkdir -p $vc && rsync -a --exclude .git --exclude replays /verif/ $vc/
for s in "$@"; do (cd $vc && VERIF_SEED=$s IBICUS_REPO=$wt ./check $chk --tier quick > out.txt 2>&1; rc=$?; echo "$(basename $(dirname $patch)) $chk seed $s: exit $rc $(grep -c no-failing-input out.txt)nfi | $(grep -A1 '^VIOLATION' out.txt | sed -n 2p | cut -c1-160)"); done
git -C /repo worktree remove --force $wt; rm -rf $vc
