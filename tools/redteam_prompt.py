#!/usr/bin/env python3
"""prints the prompt given to an independent mutation sub-agent for one property (property text + worktree only)"""
import json
import sys

pid = sys.argv[1]
rnd = sys.argv[2] if len(sys.argv) > 2 else ""
wt = f"/tmp/rt{rnd}_{pid}"
avoid = ""
if rnd:
    import glob
    import os
    items = []
    for d in sorted(glob.glob(os.path.join(os.path.dirname(os.path.dirname(os.path.abspath(__file__))), "seeded", pid + "-*", "meta.json"))):
        m = json.load(open(d))
        items.append("  - " + m["summary"][:260])
    if items:
        avoid = ("\n\nChanges of the following kinds have ALREADY been produced by someone else for this property; do not repeat them or close variants "
                 "(different file, different mechanism, different trigger wanted):\n" + "\n".join(items))
for l in open("/verif/properties.jsonl"):
    p = json.loads(l)
    if p["id"] == pid:
        break
print(f"""You are a software engineer asked to construct realistic, subtle regressions in a Python library, to test someone else's verification machinery (which you cannot see). Work ONLY inside your own scratch git worktree {wt} (a checkout of the library ecmwf-projects/ibicus: bias correction of climate model output; package directory {wt}/ibicus, tests in {wt}/tests). Never read or write anything under /verif or /repo, and do not touch other /tmp/rt_* or /tmp/mut_* directories. No network.

How to run code against YOUR worktree: `cd {wt} && PYTHONPATH={wt} /venv/bin/python your_script.py` (the PYTHONPATH makes `import ibicus` resolve to your worktree; verify once with `python -c "import ibicus; print(ibicus.__file__)"`). The existing test suite: `cd {wt} && PYTHONPATH={wt} /venv/bin/python -m pytest -q -p no:cacheprovider tests` — on the untouched worktree 53 tests pass and exactly 2 fail (tests/test_running_window_mode.py::…::test_use, twice; they fail because the tests themselves call np.in1d, which the installed numpy no longer has). "Passing the existing tests" below means: the same 53 pass and nothing else fails.

THE PROPERTY the library is supposed to satisfy:
  id: {p['id']}
  title: {p['title']}
  statement: {p['statement']}
  quantified over: {p['quantifier']['text']}

YOUR TASK: produce THREE different changes to the library source (each independent, each starting from the untouched worktree state) that BREAK this property while the code still imports and the existing test suite still passes (same 53 pass). Make them the kind of change a real refactoring or "optimisation" or off-by-one slip would introduce — not sabotage that ordinary use would expose at once. Each change must need something specific to manifest: an unusual but legitimate input (e.g. a particular calendar span, an even/odd parameter, ties, a boundary value, a particular configuration or option, a particular grid shape), a multi-step sequence of calls, or two cooperating edits that each look fine alone. Vary the mechanism and the file touched across the three changes where the property allows it. Keep each patch small (a few lines).{avoid}

For EACH change k = 1, 2, 3 deliver in {wt}/out/change_k/ :
  * patch.diff  — `git diff` of the library source against the untouched worktree (only files under ibicus/; apply-able with `git apply` from the repository root);
  * demo.py — a small self-contained program (uses only numpy/scipy/ibicus) that demonstrates the violation of the property: it must exit with status 1 and print what is wrong WITH the change applied, and exit with status 0 WITHOUT it (run it both ways and confirm); it must be deterministic (seed any randomness);
  * meta.json — {{"property": "{p['id']}", "summary": "<one line: what was changed>", "needs": "<what specific input / configuration / sequence is needed for the violation to show>", "files": [...], "tests_pass_with_change": true, "demo_exit_with_change": 1, "demo_exit_without_change": 0}}.
Procedure per change: start clean (`git -C {wt} checkout -- . && git -C {wt} status --short` shows only out/), edit, run the test suite (must be 53 passed / 2 failed as before), run demo.py (exit 1), `git -C {wt} diff -- ibicus > out/change_k/patch.diff`, then `git -C {wt} checkout -- ibicus` and run demo.py again (exit 0). Leave the worktree clean (only out/ untracked) at the end. If for this property you genuinely cannot find three, deliver as many as you can and say why. Final answer: a short table of the three changes (summary, needs, files) and confirmation of the test/demo results.""")
