#!/bin/bash
# tools/trial_round.sh <round> [Cxx ...] : trial every /tmp/rt<round>_Cxx/out/change_k against Cxx's check
# (4 in parallel, committed /verif only; logs in /tmp/trial_logs/rt<round>_Cxx-k.log); prints one line per change
rnd=$1; shift
mkdir -p /tmp/trial_logs
cd /verif
props=${@:-$(seq -f 'C%02g' 1 20)}
for p in $props; do for d in /tmp/rt${rnd}_$p/out/change_*; do [ -f $d/patch.diff ] || continue; k=$(basename $d | sed 's/change_//')
  ( TRIAL_FROM_HEAD=1 tools/try_mutant.sh $d/patch.diff $d/demo.py $p > /tmp/trial_logs/rt${rnd}_$p-$k.log 2>&1 ) &
  while [ $(jobs -r | wc -l) -ge 4 ]; do sleep 2; done; done; done; wait
for p in $props; do for d in /tmp/rt${rnd}_$p/out/change_*; do [ -f $d/patch.diff ] || continue; k=$(basename $d | sed 's/change_//'); f=/tmp/trial_logs/rt${rnd}_$p-$k.log
  echo "$p-$k: $(grep -h 'tests with change\|demo w' $f | tr '\n' ' ') $(grep 'check exit' $f | tr '\n' ' ') $(grep -c "^VIOLATION" $f)viol $(grep -c "^VIOLATION.*no-failing-input-found" $f)nfi"; done; done
