#!/usr/bin/env python3
"""tools/fill_meta_r56.py — writes first_trial / detected_by into seeded/Cxx-13..16/meta.json from tools/first_trial_r56.json and the
final-regression logs /tmp/trial_logs/fin_<id>.log (tools/regress_r56.sh)."""
import glob, json, os, re
root = os.path.dirname(os.path.dirname(os.path.abspath(__file__)))
ft = json.load(open(os.path.join(root, "tools", "first_trial_r56.json")))
first = {}
for rnd in "567":
    for k, ids in ft[rnd].items():
        for i in ids:
            first[i] = {"fi": "detected with a failing input by the property's own check (first trial)",
                        "nfi": "first trial: reported without a concrete input (a tie broke); the generator / oracle was widened afterwards",
                        "missed": "first trial: MISSED (exit 0); the generator / oracle was widened afterwards"}[k]
n = 0
for f in sorted(glob.glob(os.path.join(root, "seeded", "C??-1[3-8]", "meta.json"))):
    m = json.load(open(f)); sid = m["id"]; p = sid.split("-")[0]
    log = f"/tmp/trial_logs/fin_{sid}.log"
    if not os.path.exists(log):
        continue
    t = open(log).read()
    rc = re.search(r"check exit (\d+)", t); viol = len(re.findall(r"^VIOLATION", t, re.M)); nfi = len(re.findall(r"^VIOLATION.*no-failing-input-found", t, re.M))
    verdict = "MISSED" if not rc or rc.group(1) == "0" else ("failing-input" if viol > nfi else "no-failing-input-found")
    m["first_trial"] = first.get(sid, "")
    m["confirmed_by_coordinator"]["detected_by"] = {p: verdict}
    m["confirmed_by_coordinator"]["note"] = "round %s; final re-trial against the committed checks (tools/regress_r56.sh)" % ("5" if int(sid.split("-")[1]) <= 14 else ("6" if int(sid.split("-")[1]) <= 16 else "7"))
    json.dump(m, open(f, "w"), indent=1); n += 1
print("updated", n)
