#!/bin/bash
# tools/regress_r56.sh Cxx ... : re-trial seeded/Cxx-13..16 against the COMMITTED checks (4 in parallel); logs /tmp/trial_logs/fin_<id>.log;
# prints "<id> exit=<rc> viol=<n> nfi=<n>"
mkdir -p /tmp/trial_logs; cd /verif
for p in "$@"; do for k in ${KS:-13 14 15 16 17 18}; do d=seeded/$p-$k; [ -f $d/patch.diff ] || continue
  ( TRIAL_FROM_HEAD=1 tools/try_mutant.sh $d/patch.diff - $p > /tmp/trial_logs/fin_$p-$k.log 2>&1 ) &
  while [ $(jobs -r | wc -l) -ge 4 ]; do sleep 2; done; done; done; wait
for p in "$@"; do for k in ${KS:-13 14 15 16 17 18}; do f=/tmp/trial_logs/fin_$p-$k.log; [ -f $f ] || continue
  echo "$p-$k exit=$(grep -o 'check exit [0-9]*' $f | grep -o '[0-9]*$') viol=$(grep -c '^VIOLATION' $f) nfi=$(grep -c '^VIOLATION.*no-failing-input-found' $f)"; done; done
