#!/bin/bash
# Usage: tools/try_mutant.sh <patch.diff> <demo.py|-> <Cxx> [Cyy ...]
# Applies the patch to a scratch worktree of /repo, checks that the baseline tests still pass and that the demo
# fails with / passes without the change, then runs the given checks from an isolated copy of /verif against it.
# Nothing in /repo or /verif is modified (so running builders are not disturbed).
set -u
patch=$(readlink -f "$1"); demo=$2; shift 2
[ "$demo" != "-" ] && demo=$(readlink -f "$demo")
id=$$
wt=/tmp/trial_repo_$id; vc=/tmp/trial_verif_$id
git -C /repo worktree add --detach $wt HEAD -q || exit 2
trap 'git -C /repo worktree remove --force '$wt' 2>/dev/null; rm -rf '$vc'' EXIT
if [ "$demo" != "-" ]; then
  (cd $wt && PYTHONPATH=$wt /venv/bin/python $demo >/dev/null 2>&1; echo "demo without change: exit $?")
fi
git -C $wt apply "$patch" || { echo "patch does not apply"; exit 2; }
echo "tests with change: $(cd $wt && PYTHONPATH=$wt /venv/bin/python -m pytest -q -p no:cacheprovider tests 2>&1 | tail -1)"
if [ "$demo" != "-" ]; then
  (cd $wt && PYTHONPATH=$wt /venv/bin/python $demo > /tmp/demo_out_$id.txt 2>&1; echo "demo with change: exit $?"; tail -2 /tmp/demo_out_$id.txt; rm -f /tmp/demo_out_$id.txt)
fi
if [ "${TRIAL_FROM_HEAD:-0}" = 1 ]; then
  # committed state of /verif only (builders may be editing the working tree) + the build cache
  mkdir -p $vc && git -C /verif archive HEAD | tar -x -C $vc && rsync -a /verif/lean/.lake $vc/lean/
else
  mkdir -p $vc && rsync -a --exclude .git --exclude replays /verif/ $vc/
fi
for p in "$@"; do
  echo "=== $p (quick) against the mutated tree"
  (cd $vc && IBICUS_REPO=$wt timeout 1800 ./check $p --tier quick > $vc/out_$p.txt 2>&1; echo $? > $vc/rc_$p.txt)
  grep -A1 "^VIOLATION\|^KNOWN-FINDING" $vc/out_$p.txt | cut -c1-400 | head -16
  grep -v "Warning\|post_init" $vc/out_$p.txt | grep "tier=" | tail -1
  echo "check exit $(cat $vc/rc_$p.txt)"
  ls $vc/replays 2>/dev/null | head -3
done
