#!/usr/bin/env python3
"""tools/keep_seeded.py <change_dir> <seeded_id> <detected_by e.g. 'C07:failing-input,C08:failing-input'> [note]
copies a confirmed red-team change into /verif/seeded/<id>/ and extends its meta.json"""
import json
import os
import shutil
import sys

src, sid, detected = sys.argv[1], sys.argv[2], sys.argv[3]
note = sys.argv[4] if len(sys.argv) > 4 else ""
dst = os.path.join(os.path.dirname(os.path.dirname(os.path.abspath(__file__))), "seeded", sid)
os.makedirs(dst, exist_ok=True)
for f in ("patch.diff", "demo.py"):
    shutil.copy(os.path.join(src, f), os.path.join(dst, f))
meta = json.load(open(os.path.join(src, "meta.json")))
meta["id"] = sid
meta["confirmed_by_coordinator"] = {
    "ran": "tools/try_mutant.sh patch.diff demo.py <checks> (scratch worktree of /repo at HEAD + isolated copy of /verif): "
           "baseline tests with the change 53 passed / 2 failed (the same two test_use failures as without it); demo exit 0 without, exit 1 with the change",
    "detected_by": {kv.split(":")[0]: kv.split(":")[1] for kv in detected.split(",") if kv},
    "note": note,
}
json.dump(meta, open(os.path.join(dst, "meta.json"), "w"), indent=1)
print("kept", dst)
