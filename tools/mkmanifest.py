#!/usr/bin/env python3
"""Writes MANIFEST.json from the table below (single source for the per-property registration)."""
import json
import os

HERE = os.path.dirname(os.path.dirname(os.path.abspath(__file__)))
ALL = [f"C{k:02d}" for k in range(1, 21)]

CHECKS = {
    "C07": dict(
        text=("Proof (Lean 4): exact cover of every time step by exactly one window centre (days of year: any multiset of days, "
              "any odd step; years: any set of years incl. leap-only sets), adjust-set ⊆ calibration window, normalisation of lengths. "
              "The integer kernels are regenerated from /repo on every run (tier A) and proved equal to the model; the slicing / write-back "
              "skeletons of all window-using debiasers are compared with the real apply_location through integer probes (tier B); the real "
              "eight debiasers are run on random calendar spans and must return finite values under the NaN-fill hook."),
        note=("Trusted: Lean kernel + propext/Classical.choice/Quot.sound; translator; numpy fancy-index semantics; calendar arithmetic by Python. "
              "The lift from the kernel theorems to `apply_location returns some at every index` is carried by the tier-B skeleton correspondence "
              "until the skeleton theorem (Props.C07.apply_all_some) is proved."),
        technique="Lean 4 proof over Int kernels regenerated from source + differential correspondence",
        design="§4 C07",
    ),
    "C08": dict(
        text=("Proof (Lean 4), layer S — for an arbitrary element type and an arbitrary per-window function, hence bit-for-bit: the calibration "
              "sample of a centre is exactly the set of steps within L//2 days (circularly, with the code's 366-wrap) of it; two runs whose inputs agree "
              "on every step within L//2+S//2 days of the target day return the same value at the target step (RunningWindowDebiaser / ISIMIP loop and "
              "DeltaChange). Tied to the code by the regenerated window kernels (tier A), by the skeleton correspondence through integer probes, and by "
              "re-assembling the real apply_location result from the model's index sets with the real per-window functions (bitwise). The oracle perturbs "
              "(x3, +1e6, NaN) everything outside the neighbourhood on the real debiasers and checks that a change at distance exactly L//2 matters."),
        note=("Trusted: Lean kernel + standard axioms; translator; numpy fancy-index semantics; the loop body reads only inputs (modelled as compute-writes-then-apply). "
              "Deterministic configurations only; ISIMIP's rsds step 1/8 (annual cycle over the whole series) is outside the quantifier."),
        technique="Lean 4 proof over a polymorphic write-back skeleton + differential correspondence",
        design="§4 C08",
    ),
}


def main():
    checks = []
    for pid, c in sorted(CHECKS.items()):
        checks.append({
            "property_id": pid,
            "quick_cmd": f"./check {pid} --tier quick",
            "thorough_cmd": f"./check {pid} --tier thorough",
            "evidence_file": f"evidence/{pid}.json",
            "replay_cmd_template": f"./check {pid} --replay {{path}}",
            "engine": "lean-model",
            "level_claimed": {"category": "proof", "text": c["text"], "design_ref": c["design"]},
            "level_note": c["note"],
            "technique": c["technique"],
        })
    m = {
        "version": 1,
        "setup_cmd": "./check --setup",
        "hooks": {
            "guard": "IBICUS_VERIF",
            "enable": "environment variable IBICUS_VERIF=1 (set by harness/common.py before ibicus is imported); ibicus is installed editable from /repo, no build step",
            "baseline_off_cmd": "cd /repo && env -u IBICUS_VERIF /venv/bin/python -m pytest -ra -q -p no:cacheprovider --timeout=900 --continue-on-collection-errors",
            "source_commits": ["6d50ae6"],
            "add_only": True,
        },
        "engines": [
            {"name": "lean-model", "path": "lean/", "serves_properties": sorted(CHECKS),
             "kind_free_text": "Lean 4 model (IbicusModel/Model), kernels regenerated from /repo by translator/ (IbicusModel/Gen), theorems (IbicusModel/Props), line-protocol drivers (lean/drivers)"},
            {"name": "harness", "path": "harness/", "serves_properties": sorted(CHECKS),
             "kind_free_text": "Python correspondence harness: runs the real ibicus in-process (IBICUS_VERIF=1), diffs against the Lean drivers, failing-input searches, evidence"},
        ],
        "checks": checks,
        "notes": "All checks: ./check Cxx --tier quick|thorough. Exit 2 = infrastructure error (timeout, driver crash), never a verdict.",
        "not_applicable": [{"property_id": p, "reason": "check not built yet (work in progress; the technique applies, see DESIGN.md §4)"} for p in ALL if p not in CHECKS],
    }
    json.dump(m, open(os.path.join(HERE, "MANIFEST.json"), "w"), indent=1)


if __name__ == "__main__":
    main()
