#!/usr/bin/env python3
"""Writes MANIFEST.json from the table below (single source for the per-property registration)."""
import json
import os

HERE = os.path.dirname(os.path.dirname(os.path.abspath(__file__)))
ALL = [f"C{k:02d}" for k in range(1, 21)]

CHECKS = {
    "C07": dict(
        text=("Proof (Lean 4): exact cover of every time step by exactly one window centre (days of year: any multiset of days, "
              "any odd step; years: any set of years incl. leap-only sets), adjust-set ⊆ calibration window, normalisation of lengths; "
              "for an arbitrary element type and an arbitrary per-window function the write-back skeletons of all five loops (RunningWindowDebiaser, "
              "DeltaChange, ISIMIP running-window and month mode, CDFt/QDM year loop) return a defined value at every index and write every index exactly once "
              "(applyLocation*_all_some, applyLocationRW_written_once). Calendar: every date has a day of year in 1..365/366, successor-day law, every day of year "
              "present in a whole year (366 exactly in leap years), the calendar inferred for omitted time arrays (two independent models proved to agree). "
              "The integer kernels are regenerated from /repo on every run (tier A) and proved equal to the model; the skeletons are compared with the real "
              "apply_location through integer probes, the calendar with ibicus.utils.day_of_year/month/year/season in every accepted time encoding (tier B); the real "
              "eight debiasers are run on random calendar spans and must return finite values under the NaN-fill hook; every step must hold the value computed by "
              "the window it is assigned to (assignment oracle)."),
        note=("Trusted: Lean kernel + propext/Classical.choice/Quot.sound; translator; numpy fancy-index semantics; Python's datetime for the harness' own calendar. "
              "`use` (a generator) and the loops of apply_location are hand-modelled (Model/Skeleton.lean) and tied by tier B, not translated; the loop bodies read only the "
              "inputs (modelled as compute-writes-then-apply). Finite output of the real debiasers is an oracle clause (scipy fits are outside the model)."),
        technique="Lean 4 proof over Int kernels regenerated from source + polymorphic write-back skeleton + calendar model + differential correspondence",
        design="§4 C07",
    ),
    "C08": dict(
        text=("Proof (Lean 4), layer S — for an arbitrary element type and an arbitrary per-window function, hence bit-for-bit: the calibration "
              "sample of a centre is exactly the set of steps within L//2 days (circularly, with the code's 366-wrap) of it; two runs whose inputs agree "
              "on every step within L//2+S//2 days of the target day return the same value at the target step (RunningWindowDebiaser / ISIMIP loop and "
              "DeltaChange), for every list of days of year (any storage order, partial-year records, inferred calendars). Calendar facts as in C07. Tied to the code by the "
              "regenerated window kernels (tier A), by the skeleton correspondence through integer probes, by the calendar correspondence, and by re-assembling the real "
              "apply_location result from the model's index sets with the real per-window functions (bitwise). The oracle perturbs (x3, +1e6, NaN, a few corrupt 'spike' values) "
              "everything outside the neighbourhood of a target day on the eight real debiasers plus nine further deterministic configurations (multiplicative, relative SDM, "
              "censored-gamma models on all-wet data, gamma QM, ISIMIP psl/rlds) in seven scenarios (unequal / aligned calendars, instances reconfigured by assignment, "
              "time arrays given for some series only, reference records covering part of the year, non-chronological storage) and checks that a change at distance exactly L//2 matters."),
        note=("Trusted: Lean kernel + standard axioms; translator; numpy fancy-index semantics; the loop body reads only inputs (modelled as compute-writes-then-apply). "
              "Deterministic configurations only (the property's quantifier): configurations that draw random numbers are used only on data for which no draw influences the result; "
              "ISIMIP's rsds step 1/8 (annual cycle over the whole series) is outside the quantifier. State carried between windows by the real code (fallback flags, warm starts, caches) "
              "cannot be exhibited by the pure skeleton: decided by the oracle on the real code."),
        technique="Lean 4 proof over the polymorphic write-back skeleton + calendar model + differential correspondence and bitwise re-assembly",
        design="§4 C08",
    ),
    "C05": dict(
        text=("Proof (Lean 4), layer S: a model of Debiaser.apply / DeltaChange.apply (np.ndindex order, column write-back with numpy's broadcasting, "
              "the starmap pool as a slot model with an explicit completion schedule) for an arbitrary element type and location function: the result "
              "has the shape of cm_future (obs for DeltaChange), column (i,j) equals the location function on cell (i,j) alone, cells are independent, a "
              "wrong-length result is an error, and parallel = serial for EVERY completion schedule. Tied to the code by a picklable probe debiaser (bare "
              "Debiaser subclass and DeltaChange subclass) run through the real apply, serial and parallel (1,2,3,5 processes), and by comparing each real "
              "debiaser's apply bitwise with its stacked apply_location."),
        note=("Partial by nature: process start, pickling and per-worker RNG state are runtime and not modelled; 'any completion order' is proved relative "
              "to the starmap slot model (results collected by argument index, first completed exception wins). Trusted: numpy column-assignment broadcasting, np.ndindex order."),
        technique="Lean 4 proof over a polymorphic grid/pool model + differential correspondence",
        design="§4 C05",
    ),
    "C11": dict(
        text=("Proof (Lean 4): P_obs_future lies in [0,1] for all frequencies in [0,1]^3, equals the observed frequency when cm_future = cm_hist (up to the "
              "code's own isclose branch, stated exactly), equals the future frequency when cm_hist and obs agree, observed frequency when adjustment is off; "
              "round(n*P) in [0,n]; rescaled counts sum to n and are non-negative; exactly n_l / n_u outputs sit at the bounds. All four kernels are regenerated "
              "from /repo on every run (tier A) and proved equal to the model; the real functions are compared on complete rational grids k/n and the real step6 "
              "is run for pr / hurs / prsnratio with recorded counts and masks."),
        note=("Trusted: Lean kernel + standard axioms; translator (round = half-even, np.isclose defaults); np.argsort / boolean-mask assignment and Python slice semantics as modelled "
              "(validated exhaustively for n <= 12); the values written between the bounds are a parameter of the model (C09/C10)."),
        technique="Lean 4 proof over Rat/Int kernels regenerated from source + exhaustive grid correspondence",
        design="§4 C11",
    ),
    "C13": dict(
        text=("Proof (Lean 4) on the grid model of C05: for every subset of failing cells, every grid size and every execution mode, failsafe=True returns an array with the "
              "NaN column exactly at the failing cells and the clean value everywhere else (cell by cell equal to a run in which nothing fails); failsafe=False returns no array "
              "and raises the error of the first failing cell in row-major order (serial) / of the first failing task in completion order (parallel). Tied to the code by running all "
              "2^(x*y) subsets of small grids through the real apply with a bare user-defined failing debiaser and with built-in failures (non-finite data rejected by scipy fits), serial and parallel."),
        note="Partial as C05 (pool runtime not modelled). Trusted: slot model of Pool.starmap; which worker's exception surfaces in parallel is schedule dependent (the oracle accepts any failing cell's class).",
        technique="Lean 4 proof over a polymorphic grid/pool model + exhaustive subset correspondence",
        design="§4 C13",
    ),
    "C16": dict(
        text=("Proof (Lean 4) about the shared numeric toolkit Model/Stats (a transcription of ibicus.utils.ecdf / iecdf — ibicus' own IECDF and the eight np.quantile methods — "
              "np.interp, the quantile maps, sort_array_like_another_one): ecdf range / monotonicity / =1 at the maximum (step, linear; histogram under explicit oracle laws on the bins), "
              "iecdf range / monotonicity / min at 0 / max at 1 for all nine methods (generic in alpha, beta for the continuous family), monotone quantile maps into the target range with "
              "the constant shift outside the source range, equal-size reproduction for exactly the six method pairs for which it is true (the other twelve refuted by a complete decide table), "
              "sortLike is a permutation ordered like its reference. Tied by running all 3 x 9 method pairs of the real helpers against the driver on small samples with ties and extreme magnitudes."),
        note=("Trusted: numpy / statsmodels / scipy sort, quantile, interp, histogram, ECDF, rv_histogram, rankdata are modelled, not verified; histogram bin edges are an oracle argument re-checked on numpy's "
              "bins every run; float rounding is carried by the tolerance and by counted discontinuity ties. Known finding F15 (constant sample, kernel_density) is printed as KNOWN-FINDING."),
        technique="Lean 4 proof over a rational model of the toolkit + differential correspondence over all method pairs",
        design="§4 C16",
    ),
    "C17": dict(
        text=("Proof (Lean 4) over an abstract amounts family (strictly increasing cdf on (0,inf) with inverse ppf) and for EVERY random draw in the documented range: hurdle model p0 = fraction of zeros, "
              "wet round trip, dry -> exactly 0 with and without randomisation, cdf range and monotonicity; ignore-zeros model on Q u {-inf}; censored gamma round trip above the threshold and dry -> 0 "
              "(censor_in_ppf) / -> the draw (without); the three-way factory. Non-vacuity: a rational family proved to satisfy the laws. Tied by running the real model classes with a rational "
              "rv_continuous test double, captured np.random.uniform draws and recorded scipy gamma cdf/ppf values."),
        note="Trusted: scipy families are assumed to satisfy the amounts laws; MLE / Nelder-Mead fits are outside the model; np.random.uniform's range as documented.",
        technique="Lean 4 proof relative to family laws + differential correspondence with captured draws",
        design="§4 C17",
    ),
    "C19": dict(
        text=("Proof (Lean 4): the instance array is exactly the defining comparison (4 types x global/local x overall/time group, ValueError exactly for a missing group), probabilities are per-location means, "
              "annual counts / spell lengths (the literal numpy diff-where trick proved equal to a run-length encoder) / spatial extents x cells / cluster sizes (labelling as an oracle with a law checked on scipy's labels) "
              "conserve the number of instances, accumulative metrics sum over exactly the exceeding steps with the percentage in [0,100], the filter returns a fresh buffer, and a quantile-defined threshold is exceeded by "
              "exactly n-1-floor(q(n-1)) values of a tie-free sample. Tier B only (array pipeline code): every public method of ThresholdMetric / AccumulativeThresholdMetric against the driver."),
        note=("Trusted: scipy.ndimage.label (oracle law re-checked per case), np.quantile(linear) / pandas merge / np.unique transcribed; calendar codes computed by Python; numpy aliasing observed "
              "(np.shares_memory + byte comparison), not modelled."),
        technique="Lean 4 proof over a grid model of the metrics + differential correspondence",
        design="§4 C19",
    ),
    "C18": dict(
        text=("Proof (Lean 4): all ten conversion helpers of ibicus/utils/_utils.py are regenerated from /repo on every run with division PARTIAL (Except: 'div0' where the real code yields inf/NaN) "
              "and proved equal to the model; round trips tasmin/tasmax <-> tasrange/tasskew (guard tasmax != tasmin, and exactly when it fails), agreement of single and paired functions, "
              "tasmin <= tas <= tasmax for 0 <= skew <= 1 and range >= 0, pr/prsn/prsnratio round trips with the non-recoverable case prsn = 0 stated, lifted element-wise to lists (any shape). "
              "Tier B compares the real functions with the driver on arrays of 0-5 dimensions including degenerate inputs."),
        note="Trusted: Lean kernel + standard axioms; translator (partial division mode); numpy arithmetic is element-wise and x/0 is inf/NaN.",
        technique="Lean 4 proof over kernels regenerated from source (partial division) + differential correspondence",
        design="§4 C18",
    ),
    "C20": dict(
        text=("Proof (Lean 4): the thirteen per-location formulas of marginal.py / trend.py / multivariate.py (four marginal biases, yearly and mean yearly exceedances, six trend / trend-bias formulas, chi) "
              "are regenerated from /repo on every run with np.quantile, the metric and year() as parameters, and proved equal to the model; documented formulas from the right datasets, self-bias and "
              "self-trend-bias 0 under the non-zero-denominator guard, chi(m,m) = 1, yearly split = per-year sums for any number of years >= 1 (single year = [total]), cell-wise evaluation on a grid, RMSE of a "
              "map against itself 0. Tier B runs every public function on dyadic 3-d data of several grid shapes and 1-3 years and compares every location with the driver; the oracle checks grid-shape and "
              "year-count independence bitwise."),
        note=("Partial: how numpy spreads the per-location code over a grid (gridEval) is hand-written and validated by tier B; np.corrcoef / sqrt are not modelled (exact covariances from the driver); only overall/global "
              "metrics here (time-scoped ones are C19). The conditional exceedance is pinned on the percent scale the code returns."),
        technique="Lean 4 proof over per-location kernels regenerated from source + differential correspondence",
        design="§4 C20",
    ),
    "C04": dict(
        text=("Proof (Lean 4): for g x = a*x+b with a > 0, f(g obs, g H, g F) = g(f(obs, H, F)) for the window functions of all eight debiasers with temperature-like settings "
              "(LinearScaling / DeltaChange additive; QuantileMapping parametric over any location-scale family - clipped or not, since clipping acts on unit-free cdf values - and non-parametric; "
              "ECDFM; QDM absolute incl. year windows; SDM absolute; CDFt for all 2 x 9 ecdf/iecdf pairs incl. year windows; ISIMIP additive unbounded steps 3-7 with the regression slope modelled "
              "exactly), pure rescaling for the multiplicative LinearScaling / DeltaChange (with a negative witness that they are not shift-equivariant), from general affine laws of sorting, ranks, ecdf and "
              "all nine iecdf methods; lifted to seasonal, month and year windows through the write-back skeleton (index sets depend on dates only). ISIMIP's has_* flags are regenerated from the source "
              "(tier A) and proved false for infinite settings. Tier B: layer-N correspondence of every window function against the real code; oracle: K / degC / degF maps on the real debiasers."),
        note=("Trusted: scipy.stats.norm is assumed to satisfy the location-scale laws (proved only for the rational test-double family); ISIMIP's significance and KS decisions are oracles assumed identical in both units; "
              "np.argsort modelled as the stable sort; float rounding carried by the correspondence tolerance."),
        technique="Lean 4 proof over a rational model of the window functions + skeleton lift + differential correspondence",
        design="§4 C04",
    ),
    "C01": dict(
        text=("Proof (Lean 4), exact rational arithmetic, per window: cm_future = cm_hist gives mean out = mean obs for LinearScaling (both types), DeltaChange returns obs; parametric QuantileMapping / ECDFM / ISIMIP-additive "
              "over any location-scale family map H affinely onto the observed location and scale (fit out = fit obs: mean AND calibrated spread); QDM absolute with a symmetric family has mean out = loc_obs; "
              "non-parametric QuantileMapping with equal sizes returns exactly the observed multiset (a permutation of obs in the rank order of H); CDFt is a clamped rank transfer (a permutation of obs under the range guard); "
              "repaired SDM absolute returns a permutation of obs (the pre-repair formula is refuted on a 4-point witness). Tier B: layer-N correspondence with a third of the cases on F = H; oracle on the eight real debiasers."),
        note=("PARTIAL: the quantitative clause 'at most a small fraction of the original bias' for unequal sizes / seasonal windows is NOT proved; it is decided only by the search on the real code (limit max(2*range/n, 0.25*|bias|), "
              "judged when every window sees >= 200 values). Trusted: scipy.stats.norm / gamma assumed to satisfy the location-scale laws; real window index sets (C07)."),
        technique="Lean 4 proof over a rational model of the window functions + differential correspondence; one clause search-only",
        design="§4 C01",
    ),
    "C03": dict(
        text=("Proof (Lean 4): cm_hist = obs gives out = cm_future for LinearScaling (both types), ECDFM and QDM absolute (even when clipped: the two ppf terms cancel), QDM relative (guard ppf_H(tau) != 0; censoring only for x >= threshold), "
              "parametric QuantileMapping under the decidable NoClip guard (the clipped branch is characterised: the value is pulled to ppf(1-t) / ppf(t)), CDFt for the default linear_interpolation / linear pair on tie-free data via the "
              "interpolation-inverse lemmas (a witness shows the identity fails for step / inverted_cdf at unequal sizes); DeltaChange(F = H) = obs. Lifted to seasonal windows, year windows and both with the skeleton fixed-point lemmas. "
              "Tier B: layer-N correspondence on the domain H := obs; oracle: apply_location(obs, obs.copy(), F) vs F in all window modes."),
        note="Trusted: scipy families assumed to satisfy the location-scale laws; the oracle's clip mask for parametric QM is computed with the real distribution on the real window index sets.",
        technique="Lean 4 proof over a rational model of the window functions + skeleton lift + differential correspondence",
        design="§4 C03",
    ),
    "C09": dict(
        text=("Proof (Lean 4): x_i < x_j implies out_i <= out_j within a window for LinearScaling (additive strictly; multiplicative under the stated non-negative-ratio guard, with a witness that the code reverses order otherwise), "
              "parametric QuantileMapping with all three detrendings over monotone families, non-parametric QuantileMapping with constant extrapolation and CDFt for ALL ecdf x iecdf pairs (generic in the pair; histogram bins as an oracle), "
              "CDFt SSR for every draw list in the documented range, ISIMIP step 4 for every draw and step 6 for bounded and unbounded variables through every fallback branch, and the whole ISIMIP window with detrending off; "
              "censored-gamma and hurdle QuantileMapping on local transcriptions. Tier B: layer-N correspondences; oracle: pairwise order on the real window functions incl. all 3 x 9 CDFt pairs and real scipy families."),
        note=("Guards stated as hypotheses: event_likelihood_adjustment = False (with it step 6 is genuinely not rank preserving - inherent to the method, outside the default settings, not exercised), pairwise-distinct step-4 draws for the whole-window theorem, "
              "tie-free statements only (np.argsort is not stable). Known finding F16 (censored-gamma QM re-draws distinct sub-threshold values independently) is printed as KNOWN-FINDING. Precipitation-model transcriptions are tied by structural probes."),
        technique="Lean 4 proof over a rational model of the transfer functions + differential correspondence",
        design="§4 C09",
    ),
    "C12": dict(
        text=("Proof (Lean 4) over an explicit STORE MODEL: buffers carry a provenance (own | caller k); every anchored path of every debiaser x settings branch is a straight-line program over named buffers; a provenance checker, proved sound against a heap semantics, "
              "accepts all of them (inputs_preserved, result_is_fresh) and rejects the stated mutants. The list of in-place write sites, self-assignments, global state and window-function call arguments is REGENERATED from the current source on every run "
              "and proved equal to the modelled tables, so a new write site breaks the tie. Instance model: derive idempotent, settings fixed by apply, output a function of (settings, args, draws), hence repeatable. Tier B: read-only inputs in seven memory layouts and three dtypes, "
              "byte comparison, np.shares_memory at the entry of each modelled function against the provenance table, instance snapshots, repeated / interleaved calls under re-seeding."),
        note=("PARTIAL by nature: numpy's real view/copy behaviour and the absence of hidden writes inside numpy / scipy routines are TRUSTED assumptions validated by the probes, not proved; data-dependent branches are merged per program; parallel=True is C05's. "
              "QDM's cdf_threshold None-fill is sticky across a later change of running_window_length (exempted by C15's quantifier; recorded in the evidence)."),
        technique="Lean 4 proof over an alias/store model with write sites regenerated from source + aliasing probes",
        design="§4 C12",
    ),
    "C02": dict(
        text=("Proof (Lean 4), exact rational arithmetic: adding c to cm_future adds exactly c to every output value for LinearScaling / DeltaChange additive, additively detrended QuantileMapping (any inner mapping), SDM absolute, ECDFM and QDM absolute "
              "(location-scale laws), CDFt for all 2 x 9 ecdf/iecdf pairs via generic ShiftLaws (histogram ecdf under the oracle law 'bins shift with the data'), ISIMIP additive steps 3-7 through every step-6 branch with the regression slope modelled exactly; "
              "scaling by k > 0 for the multiplicative LinearScaling / DeltaChange / multiplicatively detrended QuantileMapping; mean-change identities for LS / DC; ISIMIP step 7 restores exactly the linear trend of annual means that step 3 removed, and an added linear trend "
              "passes through. Lifted to seasonal windows, month mode, year windows and the default year-inside-season configuration through the write-back skeleton. Tier A for LS / DC kernels, tier B layer-N correspondences, oracle on the real code incl. inferred vs explicit dates."),
        note=("Trusted: the p<0.05 and KS decisions are oracles passed identically to both runs; the histogram bin law; scipy.stats.norm assumed to satisfy the location-scale laws. SSR and QDM censoring are precipitation paths outside this property. "
              "Observation recorded in the evidence: ECDFM's default beta distribution is fitted by numerical MLE, the shift passes only to ~1e-5 there (exact with norm)."),
        technique="Lean 4 proof over a rational model of the window functions + skeleton lift + differential correspondence",
        design="§4 C02",
    ),
    "C14": dict(
        text=("Proof (Lean 4): the ordered 19-step list of _check_inputs_and_convert_if_possible, the output checks, the helper predicates' source text, the order facts of both apply methods (post-init first, checks before any map over locations, "
              "converted arrays passed on, output checked before return) and the five time-check sites are REGENERATED from the AST on every run and proved equal to the model; an interpreter of the step list yields: first non-ndarray argument => TypeError naming it "
              "whatever else is wrong, then unconvertible dtype, ndim != 3, differing spatial shapes => ValueError, otherwise acceptance with the exact ordered warning list (int -> float, masked -> NaN-filled plain array, NaN/inf, out-of-range), time lengths unconstrained, "
              "and ValueError exactly on a mismatch in a consumed time position. Tier B: the full matrix position x 29 malformations x 8 debiasers plus pairs / triples through the real apply with instrumented apply_location."),
        note="Trusted: the AST extractor; the numpy meaning of each helper predicate (tied to its source text, validated by the correspondence); instance-level instrumentation. Unconsumed time arrays are accepted with any length (no date is used).",
        technique="Lean 4 proof over a step list regenerated from source + exhaustive matrix correspondence",
        design="§4 C14",
    ),
    "C15": dict(
        text=("Proof (Lean 4): the variable table, the shape of _from_variable and of the name lookup, every debiaser's default / experimental key sets, the docstring support table, the attrs field lists with validators, the ISIMIP bound defaults (code and documented), "
              "the flattened __attrs_post_init__ rules and the has_* properties are REGENERATED from the source on every run and proved equal to the model; from_variable = published table over the full 8 x 14 matrix (by decide), case-insensitive, Variable object = its key, "
              "kwargs win, assign + apply = construct + apply (post-init idempotent; guard: QDM cdf_threshold given - witness that the guard is needed), invalid settings rejected, ISIMIP defaults unbounded. Tier B: the matrix x four spellings, every (debiaser, field) "
              "constructor- vs attribute-configured compared bitwise, invalid values, post-init outcomes."),
        note=("Guards from the property's own quantifier: QDM cdf_threshold (and, read the same way, the QDM/pr distribution that carries the censoring threshold) given explicitly. Trusted: the extractor, attrs semantics (converters / validators on init and setattr), ASCII lower-casing. "
              "Observation: CDFt.apply_by_month is documented but read by no code."),
        technique="Lean 4 proof over tables regenerated from source (decide over the complete matrix) + exhaustive correspondence",
        design="§4 C15",
    ),
    "C10": dict(
        text=("Proof (Lean 4): every value ISIMIP step 6 writes is the lower bound, the upper bound or a value between the thresholds (closed), hence inside the bounds and never strictly between a bound and its threshold - for the whole window (steps 3-7, detrending off) "
              "and lifted to running-window and month mode; step 5 bounded transfer stays in [a,b]; pr: out = 0 or >= lower_threshold; rsds: the debiased annual cycle and step 8 are non-negative (proved from non-negative data). Precipitation: LinearScaling / DeltaChange multiplicative "
              "non-negative, hurdle / censored QuantileMapping non-negative, SDM relative 0 or > 0 with its divisor guard, CDFt SSR 0 or >= the smallest positive input for every draw list and delta shift, QDM 0 or >= censoring threshold, incl. year windows. "
              "Tier B: layer-N correspondences on 16 bounded / pr ISIMIP configurations and the pr debiasers; oracle with the REAL scipy families on gamma-mixture precipitation and beta / Weibull data for all bounded variables."),
        note=("Guards as hypotheses: Wet (enough in-threshold values: without pseudo-future observations between thresholds the 'left unadjusted' path provably leaves a gap value - theorem step6_gap_without_guard); RangeLaw (a family fitted with floc[/fscale] fixed has support [floc, inf) resp. [floc, floc+fscale]) "
              "is an ORACLE law proved only for a rational witness family; ParamOk excludes rice / weibull with an upper threshold (no from_variable setting); event likelihood adjustment needs 0 < expit < 1 as an oracle law. Model.Precip is tied to the code by C17's check."),
        technique="Lean 4 proof over a rational model of the ISIMIP pipeline and the pr transfer functions + differential correspondence",
        design="§4 C10",
    ),
    "C06": dict(
        text=("Proof (Lean 4). Skeleton level (any element type): for every window function that is an element-wise map of the corrected sample with a context depending on the three window samples only up to permutation, permuting each of the three dated series "
              "(values with their days of year / years, each with its own permutation) permutes the output exactly like cm_future (like obs for DeltaChange); the same for the CDFt / QDM loop over year windows, for month mode, and for window functions that may raise. "
              "Instantiation: every window function of the eight debiasers is proved to be of that form (LinearScaling, DeltaChange, parametric and non-parametric QuantileMapping, ECDFM, QDM, CDFt for all method pairs without tie-freeness, SDM absolute and relative and ISIMIP step 6 "
              "under the tie-free guard), and the seasonal + year-window composition of CDFt / QDM is proved on dated pairs (value, year). Tier A: window kernels and LS / DC kernels; tier B: skeleton probes on shuffled inputs and layer-N correspondences; "
              "oracle: random / block / rotate / reverse permutations on all eight real debiasers incl. year windows, ISIMIP month mode and pr."),
        note=("After the round-4 audit the ISIMIP running-window and month loops are proved time-order equivariant for every configuration (bounds, thresholds, per-window oracle decisions and draws keyed on the window; "
              "steps 1/8 by sorted unique day of year; step 4 via sort_array_like_another_one). STILL PARTIAL: detrending=True at loop level with separate year lists is proved on dated pairs (value, year) only, and step 2 imputation is not modelled "
              "(the oracle feeds no NaN). Rank-based statements carry Nodup (the property's own guard; np.argsort is not stable). Draws attached to array positions (CDFt SSR, hurdle randomisation, the cdf of censored values) make the result equivariant in "
              "distribution only; those steps are excluded from the comparison."),
        technique="Lean 4 proof over the polymorphic write-back skeleton + per-debiaser instantiation + differential correspondence on permuted inputs",
        design="§4 C06",
    ),
}


# Session 3: what was added on top of the texts above (semantic tier A = the source structure is regenerated as data in a small DSL on every
# run and the DENOTATION of that data is proved equal to the hand-written model function the theorems are stated on; DESIGN.md §4.22).
TIER_A = " Semantic tier A (DESIGN §4.22), regenerated from /repo on every run with Gen = expected and denotation = model theorems: "
S3 = {
    "C01": dict(
        text=(" Unequal sample sizes are now PROVED: for non-parametric QuantileMapping with cm_future = cm_hist, any sizes n (obs), m (tie-free cm_hist): -range(obs)/n <= mean(out) - mean(obs) <= range(obs)/m "
              "(qm_nonparam_mean_bounds; both sides attained in the limit); for CDFt's default pair |residual| <= range(obs)(1/n + 1/m) under the range guard of cdft_perm (without it the bound is false on the real code). "
              "The oracle checks the proved interval on the real code for n != m." + TIER_A + "the per-window dataflow of CDFt / ECDFM / QDM / QuantileMapping / SDM (Gen/DebWin)."),
        note=("PARTIAL (reduced): the quantitative clause is proved window-free (QuantileMapping for all sizes; CDFt under the range guard); through seasonal windows and for CDFt outside the guard it is still decided by the search on the real code "
              "(limit max(2*range/n, 0.25*|bias|), judged when every window sees >= 200 values). Trusted: scipy.stats.norm / gamma assumed to satisfy the location-scale laws; real window index sets (C07).")),
    "C02": dict(text=TIER_A + "per-window dataflow of CDFt, ECDFM, QDM, QuantileMapping, SDM absolute and relative (Gen/DebWin), ISIMIP steps 3 / 5 / 7 (Gen/IsimipSteps). The oracle also drives the public constructors and apply under arbitrary process histories (other constructions / uses before, between and after), all time encodings, memory layouts, serial / parallel / failsafe."),
    "C03": dict(text=TIER_A + "per-window dataflow of CDFt, ECDFM, QDM, QuantileMapping (Gen/DebWin). The oracle also covers one-step / few-step futures, one-year year windows and single fits of 5 000 - 22 000 values for every configuration."),
    "C04": dict(text=" The oracle also drives every call form of apply (failsafe, parallel, progress bar, layouts, time encodings, data in K or degC, construction history)."),
    "C05": dict(text=TIER_A + "map_over_locations, parallel_map_over_locations, the catch wrapper and both apply dispatches as specs with roles resolved by Python's argument binding (Gen/GridLoops): denotation = applySerial / applyParallel for every schedule (also chunked and stateful) / runCatch / debiaserApply / deltaChangeApply. "
              "Model/GridRefresh: an instance re-derived at every apply gives history-independent, serial = parallel results (refreshed_instance_*). The oracle also covers call histories on one instance and every input kind (seven dtypes x plain / read-only / byte-swapped / masked in six ways x five layouts)."),
    "C06": dict(
        text=(" Session 3: ISIMIP time-order equivariance is proved on the separate-lists model (values with separate year / day-of-year / month lists - the functions the correspondence ties to the code) for EVERY configuration incl. detrending and bound / threshold pairs "
              "(Props/C06Detrend: isimip_apply_location_years_time_order_equivariant, ..._months_...); the loops themselves are tier A (Gen/Loops)."),
        note=("Remaining guards (explicit hypotheses): tie-free ranked values per window (np.argsort is not stable; the property's own guard), the p-value / KS decisions and the random draws are per-window model parameters passed identically to both runs (hkey). "
              "KNOWN FINDING F21: ISIMIP step 2 imputation (prsnratio with missing values) assigns the imputed values by storage position - proved order-dependent by witness on the model and reproduced on the real code; printed as KNOWN-FINDING. "
              "Draws attached to array positions (CDFt SSR, hurdle randomisation, the cdf of censored values) make the result equivariant in distribution only; those steps are excluded from the comparison.")),
    "C07": dict(
        text=TIER_A + "the six write-back loops and both `use` generators (Gen/Loops: denote = applyLocationRW / DC / Months / applyYears for every element type and window function; the skip of centres that adjust nothing), the calendar helpers day_of_year / month / year / season / create_array_of_consecutive_dates (Gen/CalendarFns: denotation = Model.Calendar). "
             "Props.C07.composed_cover_unique: exact cover of the composed day x year loops with no lower bound on the sample size; the oracle runs the real CDFt / QDM with both loops down to one-value windows.",
        note=("Trusted: Lean kernel + propext/Classical.choice/Quot.sound; the extractors (strict: anything outside the recognised shapes is a broken tie); numpy fancy-index semantics; Python's datetime for the harness' own calendar and `timetuple().tm_yday` as the proleptic Gregorian day of year. "
              "The loop bodies read only the inputs (modelled as compute-writes-then-apply). Finite output of the real debiasers is an oracle clause (scipy fits are outside the model).")),
    "C08": dict(text=TIER_A + "the running-window loops of RunningWindowDebiaser / DeltaChange / ISIMIP (Gen/Loops). The oracle also perturbs unevenly across years on 5-10-year series with trends / level shifts and compares every year's step on the target day."),
    "C09": dict(note=("Guards stated as hypotheses: pairwise-distinct step-4 draws for the whole-window theorem, tie-free statements only (np.argsort is not stable). KNOWN FINDINGS printed as KNOWN-FINDING and exercised on every run: F16 (censored-gamma QM re-draws distinct sub-threshold values independently) and F22 (ISIMIP step 6 with the documented non-default option event_likelihood_adjustment=True is not rank preserving - Props.C09.step6_ela_can_reorder proves by witness that the guard eventLikelihoodAdjustment = false of step6_mono is necessary; control run with the option off preserves order). Precipitation-model transcriptions are tied by structural probes and C17's tier A."), text=" Session 3: the positive-ratio guard of the multiplicatively detrended QuantileMapping was sufficient, not necessary - qm_*_mono_signed prove monotonicity for every delta != 0 (the code divides and multiplies by the same signed delta). The oracle also covers values exactly on thresholds, signed data and dated series in every storage order."),
    "C10": dict(text=TIER_A + "ISIMIP steps 1-8 per-element logic (Gen/IsimipSteps: transfer trend in all four branches with ordered mask assignments, step 3 / 7, step 4 randomisation, bound masks with Python slice semantics, steps 1 / 8 scaling by the annual cycle), SDM relative (sdm_relative_denote, unconditional) and the CDFt SSR steps (Gen/DebWin). The oracle also judges every cell of the public grid entry point apply (serial / parallel / failsafe / layouts / encodings / construction paths)."),
    "C11": dict(text=" Session 3: scale_proportional (each rescaled count is a nearest integer of its proportional share - excludes 'lower keeps its count, upper gets the rest'); stated_clauses_do_not_pin_formula (a second four-branch formula satisfies all three stated clauses: a change of the formula that keeps them is reported without failing input by design). The oracle computes the windows itself, covers twin calendars, asymmetric over-claims and calls without time information on the documented inferred calendar."),
    "C12": dict(
        text=TIER_A + "the provenance programs of all eight debiasers (apply_location and every ibicus function reachable from it; 1 623 statements) are regenerated from the AST (Gen/Purity) and accepted by a checker proved sound against a heap semantics (gen_<Class>_accepted by decide +kernel => gen_inputs_preserved: caller buffers unchanged, result fresh). "
             "The oracle also sweeps window settings incl. even values over multi-step futures with repeat / interleaved calls.",
        note=("PARTIAL by nature: numpy's real view/copy behaviour and the absence of hidden writes inside numpy / scipy routines are TRUSTED assumptions (the table NpOp.aliases; ecdf / iecdf / scipy / statsmodels summarised as 'new array, writes no operand'), validated by the probes, not proved; "
              "loop bodies are unrolled 0/1/2 times, settings branches are joined (conservative); the entry through Debiaser.apply / map_over_locations is covered by the hand-written model and the probes; parallel=True is C05's.")),
    "C13": dict(text=TIER_A + "the catch wrapper, both map functions and both apply dispatches (Gen/GridLoops), incl. the caught class and both exits of the handler."),
    "C14": dict(text=" The oracle also runs call sessions on one debiaser object and a construction matrix (every debiaser x variable x construction path incl. for_precipitation / restated keywords) judged against the variable's own range."),
    "C15": dict(text=" The oracle also judges the support outcome under keyword overrides (subsets of the variable's own default keys x spellings) and one-sided ISIMIP configurations (the side without bound / threshold must be treated as absent: no non-finite fixed parameter reaches the distribution's fit, no silent fallback that the fit itself did not cause)."),
    "C16": dict(text=TIER_A + "ecdf, iecdf, IECDF, the three quantile maps and sort_array_like_another_one as numpy-expression terms (Gen/Stats): denotation = Model.Stats for every method literal and the error fall-through (50 theorems). The oracle also covers related sample pairs (same object / values, permuted, shifted, nearly equal ...) and n-d evaluation arrays in five memory layouts."),
    "C17": dict(
        text=TIER_A + "hurdle / ignore-zeros / censored-gamma fit, cdf, ppf and the factory read element-wise from the AST (Gen/Precip, 15 Gen = Model theorems); Props/C17Gen restates the property on the generated definitions under numpy's draw contract. The oracle also runs the real fits on 1-9 wet values, tied / coarse amounts, flux units.",
        note="Trusted: scipy families are assumed to satisfy the amounts laws; MLE / Nelder-Mead fits are extern parameters; np.random.uniform's range as documented; the element-wise reading of np.where / mask assignment by translator/extract_precip.py."),
    "C18": dict(text=" The oracle also covers dtype-range magnitudes (subnormal ... 2^1000), per-argument precision mixes judged against the exact formula with a forward error bound, and large grids with retained results."),
    "C19": dict(
        text=TIER_A + "threshold-type and scope dispatch, the literal spell-length expression as a term of a numpy-expression DSL (spellExpr_denote), the per-location formulas and from_quantile (Gen/Metrics, 29 theorems; Props/C19Gen), the calendar helpers (Gen/CalendarFns). "
             "The oracle also covers values 1-8 ulp beyond thresholds at flux / Kelvin / 1e6 / denormal magnitudes, the ten shipped metric objects, thresholds written in mixed numeric types.",
        note=("Trusted: scipy.ndimage.label (oracle law re-checked per case), the internals of the pandas merge / np.isin / np.quantile (parameters of the regenerated definitions, hand-modelled in Model/MetricsDispatch and tied by tier B); numpy aliasing observed "
              "(np.shares_memory + byte comparison), not modelled.")),
    "C20": dict(
        text=TIER_A + "the eleven grid-level helpers and the five public functions (Gen/EvaluateGrid): Prog.den = gridEval cells (per-location model function) on every non-empty grid (the global np.all guards are exactly gridEval's abort), row order of the frames, call-site wiring of raw / bc x validate / future and their time axes, RMSE loops. "
             "The oracle also covers look-alike time axes, partially undefined grids and mixed-type thresholds.",
        note=("np.corrcoef / sqrt stay extern parameters (exact covariances from the driver); the two utils helpers (_unpack_df_of_numpy_arrays, list-of-two unpacking) are tied by normalised text; only overall/global "
              "metrics in this model (time-scoped ones are C19). The conditional exceedance is pinned on the percent scale the code returns.")),
}
CAP = " Capstone (DESIGN §4.22): the property is also stated on the COMPOSITION of the regenerated pieces (regenerated loop spec applied to the regenerated per-window program; regenApplyLocation_<Deb> proved equal to the model) for all eight debiasers."
for _pid in ("C01", "C02", "C03", "C04", "C06", "C07", "C08", "C09", "C10"):
    S3.setdefault(_pid, {}).setdefault("text", "")
    S3[_pid]["text"] += CAP
S3["C14"]["text"] += TIER_A + "the dispatch of CDFt / QuantileDeltaMapping.apply_on_window (Gen/WinDispatch): ValueError exactly when the lengths of time_cm_future and cm_future differ (value_error_iff), inference when it is None, the year loop."
S3["C06"]["text"] += " ISIMIP step 2 imputation is regenerated too (Gen/IsimipStep2, denote = step2Impute: the function the F21 witness is stated on)."
S3["C19"]["text"] += " Part 2: clusters (labels 1..max only; the pre-F8 term refuted), spatial extent, quantile by locality, the annual loop nest (GenMetrics2)."
S3["C20"]["text"] += " Part 2 (Gen/EvaluateGrid2): a row is dropped iff some location is +-inf, never on NaN, and the dropped frame is a sublist in order; yearly exceedances on a grid (one row per distinct year); RmseSpec denotation."
for _pid, _d in S3.items():
    CHECKS[_pid]["text"] += _d.get("text", "")
    if "note" in _d:
        CHECKS[_pid]["note"] = _d["note"]


def main():
    checks = []
    for pid, c in sorted(CHECKS.items()):
        checks.append({
            "property_id": pid,
            "quick_cmd": f"./check {pid} --tier quick",
            "thorough_cmd": f"./check {pid} --tier thorough",
            "evidence_file": f"evidence/{pid}.json",
            "replay_cmd_template": f"./check {pid} --replay {{path}}",
            "engine": "lean-model",
            "level_claimed": {"category": "proof", "text": c["text"], "design_ref": c["design"]},
            "level_note": c["note"],
            "technique": c["technique"],
        })
    m = {
        "version": 1,
        "setup_cmd": "./check --setup",
        "hooks": {
            "guard": "IBICUS_VERIF",
            "enable": "environment variable IBICUS_VERIF=1 (set by harness/common.py before ibicus is imported); ibicus is installed editable from /repo, no build step",
            "baseline_off_cmd": "cd /repo && env -u IBICUS_VERIF /venv/bin/python -m pytest -ra -q -p no:cacheprovider --timeout=900 --continue-on-collection-errors",
            "source_commits": ["6d50ae6"],
            "add_only": True,
        },
        "engines": [
            {"name": "lean-model", "path": "lean/", "serves_properties": sorted(CHECKS),
             "kind_free_text": "Lean 4 model (IbicusModel/Model), kernels regenerated from /repo by translator/ (IbicusModel/Gen), theorems (IbicusModel/Props), line-protocol drivers (lean/drivers)"},
            {"name": "harness", "path": "harness/", "serves_properties": sorted(CHECKS),
             "kind_free_text": "Python correspondence harness: runs the real ibicus in-process (IBICUS_VERIF=1), diffs against the Lean drivers, failing-input searches, evidence"},
        ],
        "checks": checks,
        "notes": "All checks: ./check Cxx --tier quick|thorough. Exit 2 = infrastructure error (timeout, driver crash), never a verdict.",
        "not_applicable": [{"property_id": p, "reason": "check not built yet (work in progress; the technique applies, see DESIGN.md §4)"} for p in ALL if p not in CHECKS],
    }
    json.dump(m, open(os.path.join(HERE, "MANIFEST.json"), "w"), indent=1)


if __name__ == "__main__":
    main()
