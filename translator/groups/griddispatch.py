"""Tier-A group: dispatch of apply onto the map functions and the statements of the map functions (C05, C13) — data extracted from the AST."""
import os
import sys

sys.path.insert(0, os.path.dirname(os.path.dirname(os.path.abspath(__file__))))
import extract_griddispatch  # noqa: E402

GROUP = dict(name="GridDispatch", namespace="Gen.GridDispatch", generate=extract_griddispatch.generate)
