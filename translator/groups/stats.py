"""Tier-A group: the structure of the ecdf / quantile toolkit as terms of the numpy-expression language of Model/NpStats.lean (C16) — extracted from the AST."""
import os
import sys

sys.path.insert(0, os.path.dirname(os.path.dirname(os.path.abspath(__file__))))
import extract_stats  # noqa: E402

GROUP = dict(name="Stats", namespace="Gen.Stats", generate=extract_stats.generate)
