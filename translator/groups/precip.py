"""Tier-A group (C17): the three precipitation models (`fit` / `cdf` / `ppf`, element-wise reading of `np.where`,
`np.random.uniform`, `-np.inf`) and the factory `map_standard_precipitation_method`, regenerated from the AST by
`translator/extract_precip.py`; `Gen = Model` theorems in `Lemmas/GenPrecip.lean`."""
import os
import sys

sys.path.insert(0, os.path.dirname(os.path.dirname(os.path.abspath(__file__))))
import extract_precip  # noqa: E402

GROUP = dict(name="Precip", namespace="Gen.Precip", generate=extract_precip.generate)
