"""Tier-A group (C10): the ISIMIP settings tables of `ibicus/debias/_isimip_options.py` — `isimip3_general_settings`
and `isimip3_variable_settings` — extracted from the AST as key / value tables.  Values: booleans, integers, exact
rationals of the float the expression evaluates to (`0.1 / 86400`), `±np.inf`, strings, and the attribute name of a
`scipy.stats.<name>` distribution.  Anything else is an error (a broken tie); nothing is guessed."""
import ast
import os
from fractions import Fraction

FILE = os.path.join("ibicus", "debias", "_isimip_options.py")


class Unrecognised(Exception):
    pass


def lstr(s):
    return '"' + s.replace("\\", "\\\\").replace('"', '\\"') + '"'


def num(node):
    """python number of a constant arithmetic expression (ints stay ints), or ('inf', sign)"""
    if isinstance(node, ast.Constant) and isinstance(node.value, (int, float)) and not isinstance(node.value, bool):
        return node.value
    if isinstance(node, ast.Attribute) and isinstance(node.value, ast.Name) and node.value.id == "np" and node.attr == "inf":
        return float("inf")
    if isinstance(node, ast.UnaryOp) and isinstance(node.op, ast.USub):
        return -num(node.operand)
    if isinstance(node, ast.BinOp) and isinstance(node.op, (ast.Div, ast.Mult, ast.Add, ast.Sub)):
        a, b = num(node.left), num(node.right)
        return {ast.Div: lambda: a / b, ast.Mult: lambda: a * b, ast.Add: lambda: a + b, ast.Sub: lambda: a - b}[type(node.op)]()
    raise Unrecognised(ast.dump(node)[:80])


def rat(x):
    fr = Fraction(x)
    return f"({fr.numerator} : Rat)" if fr.denominator == 1 else f"(({fr.numerator} : Rat) / {fr.denominator})"


def val(key, node):
    if isinstance(node, ast.Constant) and isinstance(node.value, bool):
        return f".b {'true' if node.value else 'false'}"
    if isinstance(node, ast.Constant) and isinstance(node.value, str):
        return f".s {lstr(node.value)}"
    if isinstance(node, ast.Attribute) and isinstance(node.value, ast.Attribute) and isinstance(node.value.value, ast.Name) \
            and node.value.value.id == "scipy" and node.value.attr == "stats":
        return f".s {lstr(node.attr)}"
    x = num(node)
    if key.endswith("_bound") or key.endswith("_threshold"):
        if x == float("inf"):
            return ".r .posInf"
        if x == float("-inf"):
            return ".r .negInf"
        return f".r (.fin {rat(x)})"
    if isinstance(x, int):
        return f".n {x}"
    raise Unrecognised(f"{key}: number {x!r} where no number is expected")


def table(node):
    if not isinstance(node, ast.Dict):
        raise Unrecognised("not a dict literal")
    rows = []
    for k, v in zip(node.keys, node.values):
        if not (isinstance(k, ast.Constant) and isinstance(k.value, str)):
            raise Unrecognised("non-string key")
        rows.append(f"({lstr(k.value)}, {val(k.value, v)})")
    return "[" + ", ".join(rows) + "]"


def generate(repo):
    tree = ast.parse(open(os.path.join(repo, FILE)).read())
    found = {}
    for n in tree.body:
        if isinstance(n, ast.Assign) and len(n.targets) == 1 and isinstance(n.targets[0], ast.Name):
            found[n.targets[0].id] = n.value
    errors, out = [], ["", "import IbicusModel.Model.IsimipVars", "", "namespace Gen.IsimipVars", "open Model.Isimip Model.IsimipVars", ""]
    try:
        out.append("/-- generated from `ibicus/debias/_isimip_options.py`: `isimip3_general_settings` -/")
        out.append(f"def general : List (String × Val) := {table(found['isimip3_general_settings'])}\n")
        vs = found["isimip3_variable_settings"]
        if not isinstance(vs, ast.Dict):
            raise Unrecognised("isimip3_variable_settings is not a dict literal")
        rows = []
        for k, v in zip(vs.keys, vs.values):
            if not isinstance(k, ast.Name):
                raise Unrecognised("variable key is not a name")
            rows.append(f"  ({lstr(k.id)}, {table(v)})")
        out.append("/-- generated from `ibicus/debias/_isimip_options.py`: `isimip3_variable_settings` (key = the Variable object's name) -/")
        out.append("def variables : List (String × List (String × Val)) := [\n" + ",\n".join(rows) + "]\n")
    except (Unrecognised, KeyError, ZeroDivisionError) as ex:
        errors.append(f"untranslatable:isimip_options: {type(ex).__name__} {ex}")
    out.append("end Gen.IsimipVars\n")
    return "\n".join(out), errors


GROUP = dict(name="IsimipVars", namespace="Gen.IsimipVars", generate=generate)
