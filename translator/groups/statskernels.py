"""Tier-A group: scalar kernels of the ecdf / quantile toolkit (C16)."""
UT = "ibicus/utils/_utils.py"

GROUP = dict(
    name="StatsKernels",
    namespace="Gen.StatsKernels",
    specs=[
        dict(file=UT, cls=None, func="threshold_cdf_vals", lean="threshold_cdf_vals",
             params={"cdf_vals": "Rat", "cdf_threshold": "Rat"}, ret="Rat"),
    ],
)
