"""Tier-A group: the structure of the write-back loops (apply_location of RunningWindowDebiaser / DeltaChange / ISIMIP, the
year-window loops of CDFt / QDM) and of the two `use` generators (C06, C07, C08) — data extracted from the AST."""
import os
import sys

sys.path.insert(0, os.path.dirname(os.path.dirname(os.path.abspath(__file__))))
import extract_loops  # noqa: E402

GROUP = dict(name="Loops", namespace="Gen.Loops", generate=extract_loops.generate)
