"""Tier-A group: decision logic, literal array expressions and per-location formulas of ibicus/evaluate/metrics.py (C19) —
regenerated from the AST by translator/extract_metrics.py (dispatch functions as code, numpy expressions as DSL terms)."""
import os
import sys

sys.path.insert(0, os.path.dirname(os.path.dirname(os.path.abspath(__file__))))
import extract_metrics  # noqa: E402

GROUP = dict(name="Metrics", namespace="Gen.Metrics", generate=extract_metrics.generate)
