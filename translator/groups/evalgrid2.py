"""Tier-A group: `_yearly_exceedances` / `_mean_yearly_exceedances` (ibicus.evaluate.marginal, C20) at grid level — the split of the
instance matrix along time at the cumulative day counts, the per-section sum along axis 0, the stack and the mean over years, as
data in the DSL of Model/EvalGrid2.lean, extracted from the AST with locals resolved symbolically."""
import os
import sys

sys.path.insert(0, os.path.dirname(os.path.dirname(os.path.abspath(__file__))))
import extract_evalgrid2  # noqa: E402

GROUP = dict(name="EvaluateGrid2", namespace="Gen.EvaluateGrid2", generate=extract_evalgrid2.generate)
