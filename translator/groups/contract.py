"""Tier-A group: the input-contract step list and related order facts (C14) — data extracted from the AST."""
import os
import sys

sys.path.insert(0, os.path.dirname(os.path.dirname(os.path.abspath(__file__))))
import extract_contract  # noqa: E402

GROUP = dict(name="Contract", namespace="Gen.Contract", generate=extract_contract.generate)
