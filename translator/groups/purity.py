"""Tier-A group: the provenance programs of C12 — for every debiaser class the provenance-relevant operations of
`apply_location` and of everything reachable from it, extracted from the AST (DSL of Model/PurityProg.lean)."""
import os
import sys

sys.path.insert(0, os.path.dirname(os.path.dirname(os.path.abspath(__file__))))
import extract_purity  # noqa: E402

GROUP = dict(name="Purity", namespace="Gen.Purity", generate=extract_purity.generate)
