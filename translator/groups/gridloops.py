"""Tier-A group: the structure of the grid map — catch wrapper, serial map, parallel map, the dispatch of Debiaser.apply /
DeltaChange.apply (C05, C13) — data in the DSL of Model/GridLoops.lean, extracted from the AST with names resolved to roles."""
import os
import sys

sys.path.insert(0, os.path.dirname(os.path.dirname(os.path.abspath(__file__))))
import extract_gridloops  # noqa: E402

GROUP = dict(name="GridLoops", namespace="Gen.GridLoops", generate=extract_gridloops.generate)
