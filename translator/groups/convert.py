"""Tier-A group: derived-variable conversions of ibicus/utils/_utils.py (C18).

Element-wise over Rat (numpy applies every formula element by element, so one scalar kernel covers arrays of
any shape).  `partial_div=True`: a function whose source divides returns `Except String _` with the error
"div0" where numpy yields inf/NaN; a function whose source does not divide stays total, so a division that
appears in it changes the generated type and `Lemmas.GenConvert` stops checking.
"""
U = "ibicus/utils/_utils.py"
R = "Rat"


def sp(func, params, ret, lean=None):
    return dict(file=U, cls=None, func=func, lean=lean or func.lstrip("_"), params={p: R for p in params}, ret=ret, partial_div=True)


GROUP = dict(
    name="Convert",
    namespace="Gen.Convert",
    specs=[
        sp("_get_tasmax_from_tasmin_and_range", ["tasrange", "tasmin"], R),
        sp("get_tasrange", ["tasmin", "tasmax"], R),
        sp("get_tasskew", ["tas", "tasmin", "tasmax"], R),
        sp("get_tasmin", ["tas", "tasrange", "tasskew"], R),
        sp("get_tasmax", ["tas", "tasrange", "tasskew"], R),
        sp("get_tasmin_tasmax", ["tas", "tasrange", "tasskew"], (R, R)),
        sp("get_tasrange_tasskew", ["tas", "tasmin", "tasmax"], (R, R)),
        sp("get_prsnratio", ["pr", "prsn"], R),
        sp("get_pr", ["prsn", "prsnratio"], R),
        sp("get_prsn", ["pr", "prsnratio"], R),
    ],
)
