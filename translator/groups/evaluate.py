"""Tier-A group: the bias / trend formulas of ibicus.evaluate (C20), at ONE location.

`column=True`: every dataset is one location's column of the `[time, i, j]` array (a `List Rat` over time), so
`np.mean(x, axis=0)`, `np.sum(x, axis=0)`, `np.einsum("ijk -> jk", x)` reduce the list and `np.all` / `np.any` over
the per-location results are the identity (how numpy spreads this over a grid is modelled by hand in
`Model.Evaluate.gridEval` and checked in tier B).  `partial_div=True`: `/` is `Py.divE` (error "div0" where numpy
yields inf/NaN).  The statistics that are not formulas of this module are *parameters* of the generated definitions
(`extern`): `np.quantile(x, q, axis=0)` -> `np_quantile x q`, `metric.calculate_exceedance_probability(x, time=t)`
-> `metric_prob x t`, `metric.calculate_instances_of_threshold_exceedance(x, time=t)` -> `metric_inst x t`,
`year(time)` -> `year_of time`; the theorems quantify over them.
"""
M, T, V = "ibicus/evaluate/marginal.py", "ibicus/evaluate/trend.py", "ibicus/evaluate/multivariate.py"
LR, LI, R, S = "List Rat", "List Int", "Rat", "String"

MEAN = {"np.mean": dict(lean="Py.mean", args=[LR], ret=R, kwargs={"axis": 0})}
QUANT = {"np.quantile": dict(lean="np_quantile", args=[LR, R], ret=R, kwargs={"axis": 0})}
PROB = {"metric.calculate_exceedance_probability": dict(lean="metric_prob", args=[LR, LI], ret=R, kwargs={"time": "arg"})}
INST = {"metric.calculate_instances_of_threshold_exceedance": dict(lean="metric_inst", args=[LR, LI], ret=LI, kwargs={"time": "arg"})}
QT, PT, IT = "List Rat → Rat → Rat", "List Rat → List Int → Rat", "List Rat → List Int → List Int"


def sp(file, func, params, ret, extern, lean=None):
    return dict(file=file, cls=None, func=func, lean=lean or func.lstrip("_"), params=params, ret=ret,
                partial_div=True, column=True, extern=extern)


GROUP = dict(
    name="Evaluate",
    namespace="Gen.Evaluate",
    specs=[
        # ---- marginal.py
        sp(M, "_marginal_metrics_absolute_bias",
           {"metric_prob": PT, "obs_data": LR, "cm_data": LR, "time_obs_data": LI, "time_cm_data": LI}, R, PROB),
        sp(M, "_marginal_mean_bias", {"obs_data": LR, "cm_data": LR, "bias_type": S}, R, MEAN),
        sp(M, "_marginal_quantile_bias", {"np_quantile": QT, "quantile": R, "obs_data": LR, "cm_data": LR, "bias_type": S}, R, QUANT),
        sp(M, "_marginal_metrics_bias",
           {"metric_prob": PT, "obs_data": LR, "cm_data": LR, "time_obs_data": LI, "time_cm_data": LI}, R, PROB),
        sp(M, "_yearly_exceedances", {"metric_inst": IT, "year_of": "List Int → List Int", "dataset": LR, "time": LI}, LI,
           {**INST, "year": dict(lean="year_of", args=[LI], ret=LI)}),
        sp(M, "_mean_yearly_exceedances", {"metric_inst": IT, "year_of": "List Int → List Int", "dataset": LR, "time": LI}, R,
           {"np.mean": dict(lean="Py.mean", args=[LR], ret=R, kwargs={"axis": 0}),
            "_yearly_exceedances": dict(lean="yearly_exceedances metric_inst year_of", args=[LR, LI], ret=LI, skip=[0])}),
        # ---- trend.py
        sp(T, "_calculate_mean_trend_bias",
           {"trend_type": S, "raw_validate": LR, "raw_future": LR, "bc_validate": LR, "bc_future": LR}, R, MEAN),
        sp(T, "_calculate_mean_trend", {"trend_type": S, "bc_validate": LR, "bc_future": LR}, R, MEAN),
        sp(T, "_calculate_quantile_trend_bias",
           {"np_quantile": QT, "trend_type": S, "quantile": R, "raw_validate": LR, "raw_future": LR, "bc_validate": LR, "bc_future": LR},
           R, QUANT),
        sp(T, "_calculate_quantile_trend", {"np_quantile": QT, "trend_type": S, "quantile": R, "bc_validate": LR, "bc_future": LR}, R, QUANT),
        sp(T, "_calculate_metrics_trend_bias",
           {"metric_prob": PT, "trend_type": S, "raw_validate": LR, "raw_future": LR, "bc_validate": LR, "bc_future": LR,
            "time_validate": LI, "time_future": LI}, R, PROB),
        sp(T, "_calculate_metrics_trend",
           {"metric_prob": PT, "trend_type": S, "bc_validate": LR, "bc_future": LR, "time_validate": LI, "time_future": LI}, R, PROB),
        # ---- multivariate.py
        sp(V, "_calculate_chi", {"metric1_inst": IT, "metric2_inst": IT, "dataset1": LR, "dataset2": LR, "time": LI}, R,
           {"metric1.calculate_instances_of_threshold_exceedance": dict(lean="metric1_inst", args=[LR, LI], ret=LI, kwargs={"time": "arg"}),
            "metric2.calculate_instances_of_threshold_exceedance": dict(lean="metric2_inst", args=[LR, LI], ret=LI, kwargs={"time": "arg"})}),
    ],
)
