"""Tier-A group: the dispatch of `CDFt.apply_on_window` / `QuantileDeltaMapping.apply_on_window` around their year-window
loop (switch, inference of `time_cm_future`, the length check and its ValueError — F14 —, `year(time_cm_future)`, the else
call) — data extracted from the AST (C14, capstone C02 / C03 / C04)."""
import os
import sys

sys.path.insert(0, os.path.dirname(os.path.dirname(os.path.abspath(__file__))))
import extract_windispatch  # noqa: E402

GROUP = dict(name="WinDispatch", namespace="Gen.WinDispatch", generate=extract_windispatch.generate)
