"""Tier-A group (C06): `ISIMIP._step2_impute_values` — which entries are replaced, what is sampled, and how the imputed
values are placed by rank interpolation along the array position — regenerated as data by the symbolic reading
`extract_isimip_steps.generate_step2` (DSL `Model.IsimipStep2`)."""
import os
import sys

sys.path.insert(0, os.path.dirname(os.path.dirname(os.path.abspath(__file__))))
import extract_isimip_steps  # noqa: E402

GROUP = dict(name="IsimipStep2", namespace="Gen.IsimipStep2", generate=extract_isimip_steps.generate_step2)
