"""Tier-A group: configuration tables (C15) — variable keys, default / experimental settings, the documented support
table, attrs field lists, post-init rules, ISIMIP bound defaults and the has_* properties, extracted from the AST."""
import os
import sys

sys.path.insert(0, os.path.dirname(os.path.dirname(os.path.abspath(__file__))))
import extract_config  # noqa: E402

GROUP = dict(name="Config", namespace="Gen.Config", generate=extract_config.generate)
