"""Tier-A group: in-place write sites, `self.<attr> =` sites and state outside the instance (C12) — data extracted from the AST."""
import os
import sys

sys.path.insert(0, os.path.dirname(os.path.dirname(os.path.abspath(__file__))))
import extract_writesites  # noqa: E402

GROUP = dict(name="WriteSites", namespace="Gen.WriteSites", generate=extract_writesites.generate)
