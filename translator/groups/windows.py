"""Tier-A group: running-window kernels (C07, C08)."""
RWM = "ibicus/utils/_running_window_mode.py"
DOY, YRS = "RunningWindowOverDaysOfYear", "RunningWindowOverYears"

GROUP = dict(
    name="Windows",
    namespace="Gen.Windows",
    specs=[
            dict(file=RWM, cls=DOY, func="__attrs_post_init__", lean="doy_post_init",
                 params={"self_window_length_in_days": "Int", "self_window_step_length_in_days": "Int"},
                 ret=("Int", "Int"), returns_self=["window_length_in_days", "window_step_length_in_days"]),
            dict(file=RWM, cls=DOY, func="_get_window_centers", lean="get_window_centers",
                 params={"self_window_step_length_in_days": "Int", "days_of_year": "List Int"}, ret="List Int"),
            dict(file=RWM, cls=DOY, func="get_indices_vals_in_window", lean="get_indices_vals_in_window",
                 params={"self_window_length_in_days": "Int", "days_of_year": "List Int", "window_center": "Int"},
                 ret="List Nat"),
            dict(file=RWM, cls=DOY, func="get_indices_vals_to_adjust", lean="get_indices_vals_to_adjust",
                 params={"self_window_step_length_in_days": "Int", "days_of_year": "List Int", "window_center": "Int"},
                 ret="List Nat"),
            dict(file=RWM, cls=YRS, func="__attrs_post_init__", lean="years_post_init",
                 params={"self_window_length_in_years": "Int", "self_window_step_length_in_years": "Int"},
                 ret=("Int", "Int"), returns_self=["window_length_in_years", "window_step_length_in_years"]),
            dict(file=RWM, cls=YRS, func="_get_years_in_window", lean="get_years_in_window",
                 params={"self_window_length_in_years": "Int", "window_center": "Int"}, ret="List Int"),
            dict(file=RWM, cls=YRS, func="_get_years_in_window_that_are_adjusted", lean="get_years_in_window_that_are_adjusted",
                 params={"self_window_step_length_in_years": "Int", "window_center": "Int"}, ret="List Int"),
            dict(file=RWM, cls=YRS, func="_get_years_forming_window_centers", lean="get_years_forming_window_centers",
                 params={"self_window_step_length_in_years": "Int", "unique_years": "List Int"}, ret="List Int"),
        ],
)


