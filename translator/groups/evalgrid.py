"""Tier-A group: the grid-level structure of ibicus.evaluate (C20) — helper functions as grid programs, the public functions
as frame specifications (loop nest, checks, who is called with what, drop on inf, columns), the RMSE loop, the flatten order —
data in the DSL of Model/EvalGrid.lean, extracted from the AST with locals resolved symbolically."""
import os
import sys

sys.path.insert(0, os.path.dirname(os.path.dirname(os.path.abspath(__file__))))
import extract_evalgrid  # noqa: E402

GROUP = dict(name="EvaluateGrid", namespace="Gen.EvaluateGrid", generate=extract_evalgrid.generate)
