"""Tier-A data group: the default arguments of the public evaluation functions (C20), extracted from the AST
(parameter name and the default value as Python source text).  `Lemmas.GenEvaluate.defaults` compares them with the
documented table `Model.Evaluate.documentedDefaults`."""
import ast

FUNCS = [("ibicus/evaluate/marginal.py", "calculate_marginal_bias"), ("ibicus/evaluate/marginal.py", "calculate_bias_days_metrics"),
         ("ibicus/evaluate/trend.py", "calculate_future_trend_bias"), ("ibicus/evaluate/trend.py", "calculate_future_trend")]


def generate(repo):
    rows, errors = [], []
    for path, fname in FUNCS:
        try:
            tree = ast.parse(open(f"{repo}/{path}").read())
            fn = next(n for n in tree.body if isinstance(n, ast.FunctionDef) and n.name == fname)
        except (OSError, SyntaxError, StopIteration) as ex:
            errors.append(f"untranslatable:{fname}: {type(ex).__name__} {ex}")
            continue
        args = fn.args.args
        for a, d in zip(args[len(args) - len(fn.args.defaults):], fn.args.defaults):
            rows.append((fname, a.arg, ast.unparse(d)))
        for a, d in zip(fn.args.kwonlyargs, fn.args.kw_defaults):
            if d is not None:
                rows.append((fname, a.arg, ast.unparse(d)))
    q = lambda s: '"' + s.replace("\\", "\\\\").replace('"', '\\"') + '"'  # noqa: E731
    body = ",\n   ".join(f"({q(f)}, {q(p)}, {q(d)})" for f, p, d in rows)
    text = ("\nnamespace Gen.EvaluateConfig\n\n/-- generated: (function, parameter, default value as Python source) -/\n"
            f"def defaults : List (String × String × String) :=\n  [{body}]\n\nend Gen.EvaluateConfig\n")
    return text, errors


GROUP = dict(name="EvaluateConfig", namespace="Gen.EvaluateConfig", generate=generate)
