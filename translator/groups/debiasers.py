"""Tier-A group: the two mean-based window functions (LinearScaling, DeltaChange) — C01/C02/C03/C04/C09."""
GROUP = dict(
    name="Debiasers",
    namespace="Gen.Debiasers",
    specs=[
        dict(file="ibicus/debias/_linear_scaling.py", cls="LinearScaling", func="apply_on_window", lean="ls_apply_on_window",
             params={"self_delta_type": "String", "obs": "List Rat", "cm_hist": "List Rat", "cm_future": "List Rat"},
             ret="List Rat"),
        dict(file="ibicus/debias/_delta_change.py", cls="DeltaChange", func="_apply_on_within_year_window",
             lean="dc_apply_on_within_year_window",
             params={"self_delta_type": "String", "obs": "List Rat", "cm_hist": "List Rat", "cm_future": "List Rat"},
             ret="List Rat"),
    ],
)
