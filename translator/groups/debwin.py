"""Tier-A group: the dataflow of the per-window transfer functions (CDFt, ECDFM, QDM, QuantileMapping, SDM absolute) as programs of
the DSL of Model/NpDeb.lean, extracted from the AST (C01-C04, C06, C09, C10)."""
import os
import sys

sys.path.insert(0, os.path.dirname(os.path.dirname(os.path.abspath(__file__))))
import extract_debiasers  # noqa: E402

GROUP = dict(name="DebWin", namespace="Gen.DebWin", generate=extract_debiasers.generate)
