"""Tier-A group: the structure of the calendar helpers of ibicus/utils/_utils.py (day / month / year / day_of_year / season,
create_array_of_consecutive_dates, get_yearly_means, get_years_and_yearly_means, get_mask_for_unique_subarray) — data
extracted from the AST by translator/extract_calendar.py (C07, C19 and every property that reads a time axis)."""
import os
import sys

sys.path.insert(0, os.path.dirname(os.path.dirname(os.path.abspath(__file__))))
import extract_calendar  # noqa: E402

GROUP = dict(name="CalendarFns", namespace="Gen.CalendarFns", generate=extract_calendar.generate)
