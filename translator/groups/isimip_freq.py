"""Tier-A group: ISIMIP step 6 frequency-adjustment kernels (C11)."""
ISI = "ibicus/debias/_isimip.py"
MASK = "List Bool"

GROUP = dict(
    name="IsimipFreq",
    namespace="Gen.IsimipFreq",
    specs=[
        # mask.sum() / mask.size
        dict(file=ISI, cls="ISIMIP", func="_step6_calculate_percent_values_beyond_threshold",
             lean="calculate_percent_values_beyond_threshold",
             params={"mask_for_values_beyond_threshold": MASK}, ret="Rat"),
        # the four-branch formula for the bias-adjusted future frequency
        dict(file=ISI, cls="ISIMIP", func="_step6_get_P_obs_future", lean="get_P_obs_future",
             params={"P_obs_hist": "Rat", "P_cm_hist": "Rat", "P_cm_future": "Rat"}, ret="Rat"),
        # round(size * P)
        dict(file=ISI, cls="ISIMIP", func="_step6_get_nr_of_entries_to_set_to_bound", lean="get_nr_of_entries_to_set_to_bound",
             params={"self_bias_correct_frequencies_of_values_beyond_thresholds": "Bool",
                     "mask_for_values_beyond_threshold_obs_hist_sorted": MASK,
                     "mask_for_values_beyond_threshold_cm_hist_sorted": MASK,
                     "mask_for_values_beyond_threshold_cm_future_sorted": MASK}, ret="Int"),
        # rescaling when both bounds together claim more entries than exist
        dict(file=ISI, cls="ISIMIP", func="_step6_scale_nr_of_entries_to_set_to_bounds", lean="scale_nr_of_entries_to_set_to_bounds",
             params={"nr_of_entries_to_set_to_lower_bound": "Int", "nr_of_entries_to_set_to_upper_bound": "Int",
                     "size_cm_future": "Int"}, ret=("Int", "Int")),
        # the threshold masks: "beyond" is x <= lower_threshold / x >= upper_threshold, "between" is strict on both sides
        dict(file=ISI, cls="ISIMIP", func="_get_mask_for_values_beyond_lower_threshold", lean="get_mask_for_values_beyond_lower_threshold",
             params={"self_lower_threshold": "Rat", "x": "List Rat"}, ret=MASK),
        dict(file=ISI, cls="ISIMIP", func="_get_mask_for_values_beyond_upper_threshold", lean="get_mask_for_values_beyond_upper_threshold",
             params={"self_upper_threshold": "Rat", "x": "List Rat"}, ret=MASK),
        dict(file=ISI, cls="ISIMIP", func="_get_mask_for_values_between_thresholds", lean="get_mask_for_values_between_thresholds",
             params={"self_lower_threshold": "Rat", "self_upper_threshold": "Rat", "x": "List Rat"}, ret=MASK),
    ],
)
