"""Tier-A group (C06): which values of a sample enter the fit of the left-censored gamma precipitation model.

`gen_PrecipitationGammaLeftCensoredModel.fit` splits the sample into the values above the censoring threshold and the
NUMBER of censored values and hands both to the likelihood optimiser `_fit_censored_gamma` (an `extern` parameter of the
generated definition: the theorems quantify over it).  A fit that looked at storage positions (strides, prefixes, …) would
change the generated text and break `Lemmas.GenPrecipFit.censored_fit`.
"""
MU = "ibicus/utils/_math_utils.py"
CLS = "gen_PrecipitationGammaLeftCensoredModel"
INNER = "List Rat → Int → Rat → Rat × Rat × Rat"

GROUP = dict(
    name="PrecipFit",
    namespace="Gen.PrecipFit",
    specs=[
        dict(file=MU, cls=CLS, func="fit", lean="censored_fit",
             params={"fit_censored_gamma": INNER, "self_censoring_threshold": "Rat", "data": "List Rat"},
             ret=("Rat", "Rat", "Rat"),
             extern={CLS + "._fit_censored_gamma": dict(lean="fit_censored_gamma", args=["List Rat", "Int", "Rat"],
                                                         ret=("Rat", "Rat", "Rat"))}),
    ],
)
