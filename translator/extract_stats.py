"""
Tier-A extractor for C16: the *structure* of the ecdf / quantile toolkit as terms of the numpy-expression language of
`lean/IbicusModel/Model/NpStats.lean`, regenerated from /repo's current AST.

  functions   `IECDF`, `iecdf`, `ecdf`, `quantile_map_non_parametically`,
              `quantile_map_non_parametically_with_constant_extrapolation`, `_isimip_quantile_map_x_on_y_non_parametically`,
              `quantile_map_x_on_y_non_parametically` (ibicus/utils/_math_utils.py), `sort_array_like_another_one`
              (ibicus/utils/_utils.py)
  output      one closed term `Gen.Stats.<f> : Model.NpStats.E` per function over the function's OWN parameters, and the
              table of the string parameters' defaults

The extractor is a symbolic evaluator of a small straight-line subset of Python:
  * a local name stands for the term it was assigned (`a = e`, walrus `(a := e)`), so renaming a local changes nothing while
    using another array / primitive / comparison / literal changes the term;
  * `t[mask] = v` rebinds `t` to `maskSet(t, mask, v)` (only for a local that holds a freshly computed array, never a parameter);
  * a call of another function of the list is inlined with Python's argument binding (positional, keyword, the callee's string
    defaults); a function that returns a `lambda` yields a closure that is applied at its call site;
  * `if <string parameter> == "<literal>": … elif … else: …` whose branches all end in `return` / `raise` becomes the `ifEq` chain;
  * numpy / scipy / statsmodels primitives are recognised by their full dotted name and exact argument shape.
Identity: everything that reaches the returned value.  Ignored: docstrings, annotations, comments, names of locals, an
assignment whose value is never used, `**kwargs` forwarded verbatim to `np.quantile` / to an inlined callee (the model is
stated for empty `kwargs`), and — only in `_isimip_…` — `dtype=<array>.dtype` / `.astype(<array>.dtype)` (dtype is outside
the rational model).  Anything else raises `Bad` (reported as `untranslatable:…`, a broken tie); the extractor never guesses.
"""
import ast
import os
from fractions import Fraction

MATH = "ibicus/utils/_math_utils.py"
UTILS = "ibicus/utils/_utils.py"
FUNCS = [
    (MATH, "IECDF", "IECDF"),
    (MATH, "iecdf", "iecdf"),
    (MATH, "ecdf", "ecdf"),
    (MATH, "quantile_map_non_parametically", "quantile_map_non_parametically"),
    (MATH, "quantile_map_non_parametically_with_constant_extrapolation", "quantile_map_non_parametically_with_constant_extrapolation"),
    (MATH, "_isimip_quantile_map_x_on_y_non_parametically", "isimip_quantile_map_x_on_y_non_parametically"),
    (MATH, "quantile_map_x_on_y_non_parametically", "quantile_map_x_on_y_non_parametically"),
    (UTILS, "sort_array_like_another_one", "sort_array_like_another_one"),
]
REQUIRED_IMPORTS = {MATH: {("numpy", "np"), ("scipy.stats", None), ("statsmodels.distributions.empirical_distribution", None)},
                    UTILS: {("numpy", "np")}}
# functions in which dtype plumbing is tolerated (and ignored)
DTYPE_TOLERANT = {"_isimip_quantile_map_x_on_y_non_parametically"}
MAX_DEPTH = 6
RESERVED = ("np", "scipy", "statsmodels", "int")  # names the primitives are recognised by


class Bad(Exception):
    pass


# ---------------------------------------------------------------- symbolic values
class T:  # an E-term
    def __init__(self, *t):
        self.t = t


class S:  # an SE-term
    def __init__(self, *t):
        self.t = t


class Closure:
    def __init__(self, node, env, ctx):
        self.node, self.env, self.ctx = node, env, ctx


class EcdfObj:  # statsmodels ECDF(x)
    def __init__(self, x):
        self.x = x


class HistRaw:  # np.histogram(x, bins="auto")
    def __init__(self, x):
        self.x = x


class HistObj:  # scipy.stats.rv_histogram(np.histogram(x, bins="auto"))
    def __init__(self, x):
        self.x = x


class KwargsMarker:
    pass


class Ctx:
    def __init__(self, module_funcs, fname, depth):
        self.module_funcs, self.fname, self.depth = module_funcs, fname, depth


def dotted(node):
    if isinstance(node, ast.Name):
        return node.id
    if isinstance(node, ast.Attribute):
        d = dotted(node.value)
        return None if d is None else d + "." + node.attr
    return None


def want_term(v, where):
    if not isinstance(v, T):
        raise Bad(f"{where}: expected an array / numeric expression, got {type(v).__name__}")
    return v


def no_kw(call, where, allowed=()):
    for k in call.keywords:
        if k.arg not in allowed:
            raise Bad(f"{where}: unexpected keyword {k.arg!r}")


# ---------------------------------------------------------------- expressions
def ev(node, env, ctx):
    where = f"{ctx.fname}:{getattr(node, 'lineno', '?')}"
    if isinstance(node, ast.Name):
        if node.id in env:
            return env[node.id]
        raise Bad(f"{where}: unbound name {node.id!r}")
    if isinstance(node, ast.Constant):
        v = node.value
        if isinstance(v, bool) or not isinstance(v, (int, float, str)):
            raise Bad(f"{where}: unsupported constant {v!r}")
        if isinstance(v, str):
            return S("lit", v)
        return T("lit", Fraction(v))
    if isinstance(node, ast.NamedExpr):
        if not isinstance(node.target, ast.Name) or node.target.id in RESERVED:
            raise Bad(f"{where}: walrus target")
        v = ev(node.value, env, ctx)
        env[node.target.id] = v
        return v
    if isinstance(node, ast.Lambda):
        a = node.args
        if a.vararg or a.kwarg or a.kwonlyargs or a.defaults or a.posonlyargs:
            raise Bad(f"{where}: unsupported lambda signature")
        return Closure(node, dict(env), ctx)
    if isinstance(node, ast.BinOp):
        ops = {ast.Add: "add", ast.Sub: "sub", ast.Mult: "mul", ast.Div: "div"}
        if type(node.op) not in ops:
            raise Bad(f"{where}: unsupported operator {type(node.op).__name__}")
        left = want_term(ev(node.left, env, ctx), where)
        right = want_term(ev(node.right, env, ctx), where)
        return T(ops[type(node.op)], left, right)
    if isinstance(node, ast.Compare):
        ops = {ast.Lt: "lt", ast.Gt: "gt", ast.LtE: "le", ast.GtE: "ge"}
        if len(node.ops) != 1 or type(node.ops[0]) not in ops:
            raise Bad(f"{where}: unsupported comparison {ast.unparse(node)}")
        left = want_term(ev(node.left, env, ctx), where)
        right = want_term(ev(node.comparators[0], env, ctx), where)
        return T(ops[type(node.ops[0])], left, right)
    if isinstance(node, ast.Attribute):
        if node.attr == "size":
            return T("size", want_term(ev(node.value, env, ctx), where))
        raise Bad(f"{where}: unsupported attribute .{node.attr}")
    if isinstance(node, ast.Subscript):
        if isinstance(node.value, ast.Attribute) and node.value.attr == "shape":
            if isinstance(node.slice, ast.Constant) and node.slice.value == 0 and not isinstance(node.slice.value, bool):
                return T("shape0", want_term(ev(node.value.value, env, ctx), where))
            raise Bad(f"{where}: only .shape[0] is supported")
        base = want_term(ev(node.value, env, ctx), where)
        if isinstance(node.slice, ast.Constant):
            k = node.slice.value
            if isinstance(k, bool) or not isinstance(k, int) or k < 0:
                raise Bad(f"{where}: unsupported constant subscript {k!r}")
            return T("item", base, k)
        if isinstance(node.slice, (ast.Slice, ast.Tuple)):
            raise Bad(f"{where}: slices / tuple subscripts are not supported")
        return T("index", base, want_term(ev(node.slice, env, ctx), where))
    if isinstance(node, ast.Call):
        return ev_call(node, env, ctx)
    raise Bad(f"{where}: unsupported expression {type(node).__name__}: {ast.unparse(node)[:60]}")


def pos_terms(call, n, env, ctx, where):
    if len(call.args) != n or any(isinstance(a, ast.Starred) for a in call.args):
        raise Bad(f"{where}: expected {n} positional argument(s) in {ast.unparse(call)[:80]}")
    return [want_term(ev(a, env, ctx), where) for a in call.args]


def is_dtype_of_array(node, env, ctx):
    return isinstance(node, ast.Attribute) and node.attr == "dtype" and isinstance(ev(node.value, env, ctx), T)


def ev_call(call, env, ctx):
    where = f"{ctx.fname}:{call.lineno}"
    f = call.func
    # ---- a local that holds a callable (closure / ECDF object)
    if isinstance(f, ast.Name) and f.id in env:
        target = env[f.id]
        if isinstance(target, Closure):
            no_kw(call, where)
            params = [a.arg for a in target.node.args.args]
            if len(call.args) != len(params) or any(isinstance(a, ast.Starred) for a in call.args):
                raise Bad(f"{where}: closure called with {len(call.args)} arguments, takes {len(params)}")
            inner = dict(target.env)
            for p, a in zip(params, call.args):
                inner[p] = ev(a, env, ctx)
            return ev(target.node.body, inner, target.ctx)
        if isinstance(target, EcdfObj):
            no_kw(call, where)
            (y,) = pos_terms(call, 1, env, ctx, where)
            return T("ecdfStep", target.x, y)
        raise Bad(f"{where}: {f.id!r} is not callable here")
    name = dotted(f)
    # ---- method calls on values
    if isinstance(f, ast.Attribute) and name not in NP_FUNCS and not (name or "").startswith(("np.", "scipy.", "statsmodels.")):
        if f.attr in ("min", "max"):
            no_kw(call, where)
            if call.args:
                raise Bad(f"{where}: .{f.attr}() with arguments")
            return T("amin" if f.attr == "min" else "amax", want_term(ev(f.value, env, ctx), where))
        if f.attr == "cdf":
            obj = ev(f.value, env, ctx)
            if not isinstance(obj, HistObj):
                raise Bad(f"{where}: .cdf of something that is not rv_histogram(np.histogram(x, bins='auto'))")
            no_kw(call, where)
            (y,) = pos_terms(call, 1, env, ctx, where)
            return T("histCdf", obj.x, y)
        if f.attr == "astype":
            no_kw(call, where)
            if len(call.args) != 1:
                raise Bad(f"{where}: .astype arguments")
            a = call.args[0]
            if isinstance(a, ast.Name) and a.id == "int" and "int" not in env:
                inner = f.value
                if isinstance(inner, ast.Call) and dotted(inner.func) == "np.floor":
                    no_kw(inner, where)
                    (x,) = pos_terms(inner, 1, env, ctx, where)
                    return T("floorInt", x)
                raise Bad(f"{where}: .astype(int) is only supported on np.floor(...)")
            if ctx.fname in DTYPE_TOLERANT and is_dtype_of_array(a, env, ctx):
                return want_term(ev(f.value, env, ctx), where)  # dtype conversion: outside the rational model
            raise Bad(f"{where}: unsupported .astype({ast.unparse(a)})")
        raise Bad(f"{where}: unsupported method .{f.attr}()")
    if name in NP_FUNCS:
        return NP_FUNCS[name](call, env, ctx, where)
    # ---- another function of the toolkit: inline
    if isinstance(f, ast.Name) and f.id in ctx.module_funcs:
        return inline(ctx.module_funcs[f.id], call, env, ctx, where)
    raise Bad(f"{where}: unsupported call {ast.unparse(f)}")


def np_unary(tag):
    def h(call, env, ctx, where):
        no_kw(call, where)
        (x,) = pos_terms(call, 1, env, ctx, where)
        return T(tag, x)
    return h


def np_linspace(call, env, ctx, where):
    for k in call.keywords:
        if k.arg == "dtype" and ctx.fname in DTYPE_TOLERANT and is_dtype_of_array(k.value, env, ctx):
            continue
        raise Bad(f"{where}: np.linspace keyword {k.arg!r}")
    a, b, n = pos_terms(call, 3, env, ctx, where)
    return T("linspace", a, b, n)


def np_interp(call, env, ctx, where):
    no_kw(call, where)
    x, xp, fp = pos_terms(call, 3, env, ctx, where)
    return T("interp", x, xp, fp)


def np_quantile(call, env, ctx, where):
    x, p = pos_terms(call, 2, env, ctx, where)
    m = S("dflt")
    for k in call.keywords:
        if k.arg == "method":
            m = ev(k.value, env, ctx)
            if not isinstance(m, S):
                raise Bad(f"{where}: np.quantile method is not a string expression")
        elif k.arg is None:
            if not isinstance(ev(k.value, env, ctx), KwargsMarker):
                raise Bad(f"{where}: np.quantile(** something that is not the function's own kwargs)")
        else:
            raise Bad(f"{where}: np.quantile keyword {k.arg!r}")
    return T("quantile", x, p, m)


def np_array(call, env, ctx, where):
    no_kw(call, where)
    if len(call.args) != 1 or not isinstance(call.args[0], ast.List) or len(call.args[0].elts) != 2:
        raise Bad(f"{where}: np.array is only supported on a two-element list display")
    a, b = (want_term(ev(e, env, ctx), where) for e in call.args[0].elts)
    return T("arr2", a, b)


def np_floor(call, env, ctx, where):
    raise Bad(f"{where}: np.floor is only supported as np.floor(...).astype(int)")


def sm_ecdf(call, env, ctx, where):
    no_kw(call, where)
    (x,) = pos_terms(call, 1, env, ctx, where)
    return EcdfObj(x)


def np_histogram(call, env, ctx, where):
    if len(call.keywords) != 1 or call.keywords[0].arg != "bins" or not isinstance(call.keywords[0].value, ast.Constant) \
            or call.keywords[0].value.value != "auto":
        raise Bad(f"{where}: np.histogram is only supported as np.histogram(x, bins='auto')")
    (x,) = pos_terms(call, 1, env, ctx, where)
    return HistRaw(x)


def sp_rv_histogram(call, env, ctx, where):
    no_kw(call, where)
    if len(call.args) != 1:
        raise Bad(f"{where}: rv_histogram arguments")
    h = ev(call.args[0], env, ctx)
    if not isinstance(h, HistRaw):
        raise Bad(f"{where}: rv_histogram of something that is not np.histogram(x, bins='auto')")
    return HistObj(h.x)


NP_FUNCS = {
    "np.sort": np_unary("sort"), "np.argsort": np_unary("argsort"), "np.min": np_unary("amin"), "np.max": np_unary("amax"),
    "scipy.stats.rankdata": np_unary("rankdata"), "np.linspace": np_linspace, "np.interp": np_interp,
    "np.quantile": np_quantile, "np.array": np_array, "np.floor": np_floor,
    "statsmodels.distributions.empirical_distribution.ECDF": sm_ecdf, "np.histogram": np_histogram,
    "scipy.stats.rv_histogram": sp_rv_histogram,
}


# ---------------------------------------------------------------- functions
def params_of(fn):
    """[(name, kind, default)], has_kwargs; kind 'str' for `: str` parameters, 'arr' otherwise"""
    a = fn.args
    if a.vararg or a.kwonlyargs or a.posonlyargs:
        raise Bad(f"{fn.name}: unsupported signature {ast.unparse(a)}")
    if fn.decorator_list:
        raise Bad(f"{fn.name}: decorated")
    out = []
    defaults = [None] * (len(a.args) - len(a.defaults)) + list(a.defaults)
    for p, d in zip(a.args, defaults):
        if p.arg in RESERVED:
            raise Bad(f"{fn.name}: parameter named {p.arg!r}")
        kind = "str" if (p.annotation is not None and ast.unparse(p.annotation) == "str") else "arr"
        dv = None
        if d is not None:
            if kind != "str" or not isinstance(d, ast.Constant) or not isinstance(d.value, str):
                raise Bad(f"{fn.name}: unsupported default for parameter {p.arg!r}")
            dv = d.value
        out.append((p.arg, kind, dv))
    return out, a.kwarg.arg if a.kwarg else None


def inline(fn, call, env, ctx, where):
    if ctx.depth >= MAX_DEPTH:
        raise Bad(f"{where}: call depth exceeded (recursion?)")
    params, kwname = params_of(fn)
    names = [p[0] for p in params]
    if any(isinstance(a, ast.Starred) for a in call.args) or len(call.args) > len(params):
        raise Bad(f"{where}: positional arguments of {fn.name}")
    bound = {}
    for p, a in zip(params, call.args):
        bound[p[0]] = ev(a, env, ctx)
    for k in call.keywords:
        if k.arg is None:
            if kwname is None or not isinstance(ev(k.value, env, ctx), KwargsMarker):
                raise Bad(f"{where}: ** argument to {fn.name}")
            continue
        if k.arg not in names or k.arg in bound:
            raise Bad(f"{where}: keyword {k.arg!r} for {fn.name}")
        bound[k.arg] = ev(k.value, env, ctx)
    inner = {}
    for pname, kind, dv in params:
        if pname in bound:
            v = bound[pname]
            if (kind == "str") != isinstance(v, S):
                raise Bad(f"{where}: argument {pname!r} of {fn.name} has the wrong kind")
            inner[pname] = v
        elif dv is not None:
            inner[pname] = S("lit", dv)
        else:
            raise Bad(f"{where}: missing argument {pname!r} for {fn.name}")
    if kwname:
        inner[kwname] = KwargsMarker()
    return run_body(fn.body, inner, Ctx(ctx.module_funcs, fn.name, ctx.depth + 1))


def is_fresh(t):
    """a term that denotes a newly allocated array (safe to update in place without touching an argument)"""
    while t.t[0] == "ifEq":
        return is_fresh(t.t[3]) and is_fresh(t.t[4])
    return t.t[0] in ("index", "quantile", "interp", "ecdfStep", "histCdf", "sort", "add", "sub", "mul", "div", "maskSet", "linspace", "raise")


def run_body(stmts, env, ctx):
    """evaluates a block that must end in return / raise on every path; returns the value"""
    stmts = list(stmts)
    for i, s in enumerate(stmts):
        where = f"{ctx.fname}:{s.lineno}"
        last = i == len(stmts) - 1
        if isinstance(s, ast.Expr) and isinstance(s.value, ast.Constant) and isinstance(s.value.value, str):
            continue  # docstring
        if isinstance(s, ast.Assign):
            if len(s.targets) != 1:
                raise Bad(f"{where}: chained assignment")
            tg = s.targets[0]
            if isinstance(tg, ast.Name):
                if tg.id in RESERVED:
                    raise Bad(f"{where}: {tg.id!r} is rebound")
                env[tg.id] = ev(s.value, env, ctx)
                continue
            if isinstance(tg, ast.Subscript) and isinstance(tg.value, ast.Name):
                name = tg.value.id
                old = want_term(ev(tg.value, env, ctx), where)
                if not is_fresh(old):
                    raise Bad(f"{where}: in-place update of {name!r}, which may alias an argument")
                aliases = [k for k, v in env.items() if v is old and k != name]
                if aliases:
                    raise Bad(f"{where}: in-place update of {name!r} which is also known as {aliases}")
                if isinstance(tg.slice, (ast.Slice, ast.Tuple, ast.Constant)):
                    raise Bad(f"{where}: only mask assignment t[mask] = v is supported")
                m = want_term(ev(tg.slice, env, ctx), where)
                if m.t[0] not in ("lt", "gt", "le", "ge"):
                    raise Bad(f"{where}: assignment through something that is not a comparison mask")
                v = want_term(ev(s.value, env, ctx), where)
                env[name] = T("maskSet", old, m, v)
                continue
            raise Bad(f"{where}: unsupported assignment target {ast.unparse(tg)}")
        if isinstance(s, ast.Return):
            if not last or s.value is None:
                raise Bad(f"{where}: return that is not the last statement of its block / bare return")
            return ev(s.value, env, ctx)
        if isinstance(s, ast.Raise):
            if not last or s.exc is None or s.cause is not None:
                raise Bad(f"{where}: unsupported raise")
            exc = s.exc.func if isinstance(s.exc, ast.Call) else s.exc
            if not isinstance(exc, ast.Name):
                raise Bad(f"{where}: unsupported exception expression")
            return T("raise", exc.id)
        if isinstance(s, ast.If):
            if not last:
                raise Bad(f"{where}: statements after an if (every branch must return or raise)")
            t = s.test
            if not (isinstance(t, ast.Compare) and len(t.ops) == 1 and isinstance(t.ops[0], ast.Eq)
                    and isinstance(t.comparators[0], ast.Constant) and isinstance(t.comparators[0].value, str)):
                raise Bad(f"{where}: unsupported condition `{ast.unparse(t)}` (only <string parameter> == \"literal\")")
            subj = ev(t.left, env, ctx)
            if not isinstance(subj, S) or subj.t[0] == "dflt":
                raise Bad(f"{where}: condition does not compare a string parameter")
            if not s.orelse:
                raise Bad(f"{where}: if without else")
            th = want_term(run_body(s.body, dict(env), ctx), where)
            el = want_term(run_body(s.orelse, dict(env), ctx), where)
            return T("ifEq", subj, t.comparators[0].value, th, el)
        raise Bad(f"{where}: unsupported statement {type(s).__name__}: {ast.unparse(s)[:60]}")
    raise Bad(f"{ctx.fname}: block falls off the end without return")


# ---------------------------------------------------------------- rendering
def lean_str(s):
    return '"' + s.replace("\\", "\\\\").replace('"', '\\"') + '"'


def render(v):
    if isinstance(v, S):
        tag = v.t[0]
        if tag == "dflt":
            return ".dflt"
        return f"(.{tag} {lean_str(v.t[1])})"
    tag = v.t[0]
    if tag == "lit":
        q = v.t[1]
        return f"(.lit {q.numerator})" if q.denominator == 1 and q >= 0 else f"(.lit (({q.numerator} : Rat) / {q.denominator}))"
    if tag == "arg":
        return f"(.arg {lean_str(v.t[1])})"
    if tag == "raise":
        return f"(.raise {lean_str(v.t[1])})"
    if tag == "item":
        return f"(.item {render(v.t[1])} {v.t[2]})"
    if tag == "ifEq":
        return f"(.ifEq {render(v.t[1])} {lean_str(v.t[2])}\n    {render(v.t[3])}\n    {render(v.t[4])})"
    return "(." + tag + " " + " ".join(render(a) for a in v.t[1:]) + ")"


def check_imports(tree, rel):
    have = set()
    for n in tree.body:
        if isinstance(n, ast.Import):
            for a in n.names:
                have.add((a.name, a.asname))
    missing = REQUIRED_IMPORTS[rel] - have
    if missing:
        raise Bad(f"{rel}: expected imports {sorted(missing, key=str)} not found")
    # no module-level rebinding of the aliases the primitives are recognised by
    for n in ast.walk(tree):
        if isinstance(n, (ast.Assign, ast.AugAssign, ast.AnnAssign)):
            for t in (n.targets if isinstance(n, ast.Assign) else [n.target]):
                if isinstance(t, ast.Name) and t.id in ("np", "scipy", "statsmodels", "int"):
                    raise Bad(f"{rel}: {t.id!r} is rebound")


def extract(repo):
    """returns (terms: {lean_name: rendered or None}, defaults: [(func, param, value)], errors)"""
    trees, funcs, errors = {}, {}, []
    for rel in (MATH, UTILS):
        tree = ast.parse(open(os.path.join(repo, rel)).read())
        trees[rel] = tree
        check_imports(tree, rel)
        seen = {}
        for n in tree.body:
            if isinstance(n, (ast.FunctionDef, ast.AsyncFunctionDef, ast.ClassDef)):
                if n.name in seen:
                    raise Bad(f"{rel}: {n.name} defined twice")
                seen[n.name] = n
            elif isinstance(n, ast.Assign):
                for t in n.targets:
                    if isinstance(t, ast.Name) and t.id in [f[1] for f in FUNCS]:
                        raise Bad(f"{rel}: toolkit function {t.id} is rebound at module level")
        funcs[rel] = {k: v for k, v in seen.items() if isinstance(v, ast.FunctionDef) and k in [f[1] for f in FUNCS if f[0] == rel]}
    terms, defaults = {}, []
    for rel, pyname, leanname in FUNCS:
        try:
            fn = funcs[rel].get(pyname)
            if fn is None:
                raise Bad(f"{rel}: function {pyname} not found")
            params, kwname = params_of(fn)
            env = {}
            for pname, kind, dv in params:
                env[pname] = S("arg", pname) if kind == "str" else T("arg", pname)
                if dv is not None:
                    defaults.append((pyname, pname, dv))
            if kwname:
                env[kwname] = KwargsMarker()
            v = run_body(fn.body, env, Ctx(funcs[rel], pyname, 0))
            if isinstance(v, Closure):  # IECDF: the term of the returned lambda over its own parameter(s)
                inner = dict(v.env)
                for a in v.node.args.args:
                    if a.arg in env:
                        raise Bad(f"{pyname}: lambda parameter {a.arg!r} shadows a parameter")
                    inner[a.arg] = T("arg", a.arg)
                v = ev(v.node.body, inner, v.ctx)
            terms[leanname] = render(want_term(v, pyname))
        except Bad as ex:
            errors.append(f"untranslatable:stats.{pyname}: {ex}")
            terms[leanname] = None
    return terms, defaults, errors


def generate(repo):
    try:
        terms, defaults, errors = extract(repo)
    except (OSError, SyntaxError, Bad) as ex:
        terms, defaults, errors = {f[2]: None for f in FUNCS}, [], [f"untranslatable:stats: {type(ex).__name__} {ex}"]
    out = ["", "import IbicusModel.Model.NpStats", "", "namespace Gen.Stats", "open Model.NpStats", ""]
    for rel, pyname, leanname in FUNCS:
        out.append(f"/-- generated from `{rel}`: `{pyname}` -/")
        body = terms.get(leanname)
        if body is None:
            body = '(.raise "untranslatable")'
        out.append(f"def {leanname} : E :=\n  {body}")
        out.append("")
    out.append("/-- defaults of the string parameters: (function, parameter, default) -/")
    out.append("def defaults : List (String × String × String) := [")
    out.append(",\n".join(f"  ({lean_str(f)}, {lean_str(p)}, {lean_str(d)})" for f, p, d in defaults) + "\n]")
    out.append("")
    out.append("end Gen.Stats")
    return "\n".join(out) + "\n", errors


if __name__ == "__main__":
    import sys

    text, errs = generate(sys.argv[1] if len(sys.argv) > 1 else "/repo")
    print(text)
    print(errs)
