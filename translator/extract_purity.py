"""
Tier-A extractor for C12 (purity), the provenance programs: walks, for every debiaser class, the AST of `apply_location`
and of every ibicus function reachable from it (methods resolved through the class's MRO, module-level helpers of
ibicus/utils and ibicus/debias by name) and writes down the provenance-relevant operations in the DSL of
`lean/IbicusModel/Model/PurityProg.lean`:

    bind dst op srcs     dst = an expression classified as numpy operation `op` (a constructor of Model.Purity.NpOp; whether
                         it returns a view of a source or a new buffer is decided in Lean by the TRUSTED `NpOp.aliases`)
    store tgt            an in-place write: `tgt[...] = v`, `tgt op= v`, `tgt.sort()`, `tgt.fill(v)` ...
    draw                 a call of `np.random.*`
    ite a b              `if` / conditional expression / `try` / loop body (run or not): either side
    call fn args rets    a call of another walked function

What a Python expression is classified as comes from the TRUSTED tables below (numpy function / method -> NpOp).  A call that
is in no table and is no ibicus function that can be walked raises `Untranslatable` — a broken tie, never a guess.  Where
the classification depends on something the extractor cannot see (the type of an index: `x[i]` is a copy for an index ARRAY
and a view for a slice / an integer), the unsafe answer is only given when the index provably is an array (result of a
comparison, `np.argsort`, `np.where(c)[0]`, a mask helper ...); otherwise the view is assumed.

Identity: which buffers flow into which store / return / argument.  Ignored: names of locals (variables are numbered in order
of first appearance), docstrings, logging, warnings, the values computed.

Modelling decisions (the same as the hand-written programs of Model/Purity.lean, or finer):
  * a loop body is `ite body []` emitted TWICE (0, 1 or 2 iterations: a binding made at the end of one iteration is seen at
    the start of the next); `return` inside a branch moves the rest of the block into the other branch;
  * `try`: the handler runs after the body has run completely or not at all;
  * attributes of `self` never hold a caller buffer (tie: `Lemmas.GenWriteSites.selfAssigns` — no `self.x = ...` outside
    `__attrs_post_init__`); `self.distribution.*`, the window helper objects, `ecdf` / `iecdf`, the date helpers and
    scipy / statsmodels routines return new arrays and write into no operand (an `out=` / `overwrite_*` / `copy=` keyword
    raises).
"""
import ast
import builtins
import glob
import os


class Untranslatable(Exception):
    pass


DEBIASERS = ["LinearScaling", "QuantileMapping", "ECDFM", "CDFt", "QuantileDeltaMapping", "ScaledDistributionMapping",
             "DeltaChange", "ISIMIP"]
ENTRY = "apply_location"
N_CALLER = 6
RET_BASE = 900

# ---------------------------------------------------------------- TRUSTED classification tables (Python name -> NpOp)
# functions that return (or may return) their first argument itself / a view of it
NP_ALIAS = {"asarray", "asanyarray", "ascontiguousarray", "asfortranarray", "ravel", "reshape", "squeeze", "atleast_1d",
            "atleast_2d", "transpose", "swapaxes", "moveaxis", "expand_dims", "broadcast_to", "ma.getdata", "real", "imag",
            "diagonal", "flip", "flipud", "fliplr", "rollaxis", "ma.asarray", "ma.filled", "require", "asmatrix", "view"}
# functions that return a newly allocated array: name -> (NpOp, kind of the result)
NP_FRESH = {
    "sort": ("sort", "array"), "where": ("where_", "array"), "copy": ("copy", "array"), "array": ("astype", "array"),
    "zeros_like": ("zerosLike", "array"), "ones_like": ("zerosLike", "array"), "full_like": ("zerosLike", "array"),
    "empty_like": ("emptyLike", "array"),
    "zeros": ("alloc", "array"), "ones": ("alloc", "array"), "empty": ("alloc", "array"), "full": ("alloc", "array"),
    "arange": ("alloc", "int"), "linspace": ("alloc", "array"), "datetime64": ("alloc", "scalar"),
    "timedelta64": ("alloc", "scalar"), "ndindex": ("alloc", "lib"),
    "argsort": ("libCall", "int"), "unique": ("libCall", "int"), "nonzero": ("libCall", "inttuple"),
    "quantile": ("libCall", "array"), "interp": ("libCall", "array"), "histogram": ("libCall", "lib"),
    "bincount": ("libCall", "array"), "concatenate": ("libCall", "array"), "vectorize": ("libCall", "lib"),
    "maximum.reduceat": ("libCall", "array"), "percentile": ("libCall", "array"), "cumsum": ("libCall", "array"),
    "searchsorted": ("libCall", "int"), "diff": ("libCall", "array"), "median": ("libCall", "scalar"),
}
for _n in ("maximum", "minimum", "abs", "sign", "round", "floor", "ceil", "log", "exp", "cos", "sin", "sqrt", "mod", "power",
           "add", "subtract", "multiply", "divide", "clip", "nan_to_num", "nanmean", "nanmax", "nanmin"):
    NP_FRESH[_n] = ("arith", "array")
for _n in ("mean", "sum", "prod", "min", "max", "size", "std", "var", "nansum"):
    NP_FRESH[_n] = ("arith", "scalar")
for _n in ("logical_not", "logical_and", "logical_or", "logical_xor", "isnan", "isinf", "isfinite", "isclose", "isin",
           "array_equal", "any", "all", "issubdtype", "greater", "less", "equal", "not_equal", "allclose"):
    NP_FRESH[_n] = ("arith", "bool")
LIB_ROOTS = {"scipy", "statsmodels"}           # every routine of these: libCall
MODULE_ROOTS = {"np", "numpy", "scipy", "statsmodels", "warnings", "os", "math", "logging", "attrs"}
FORBIDDEN_KW = {"out", "overwrite_input", "overwrite_data", "overwrite_x", "copy", "inplace", "where", "subok"}

# methods of an array: new array
METHOD_FRESH = {"sum": "scalar", "mean": "scalar", "min": "scalar", "max": "scalar", "std": "scalar", "var": "scalar",
                "any": "bool", "all": "bool", "argsort": "int", "nonzero": "inttuple", "argmax": "scalar", "argmin": "scalar",
                "copy": "array", "astype": "array", "round": "array", "flatten": "array", "tolist": "lib", "item": "scalar",
                "cumsum": "array", "clip": "array", "dot": "array", "repeat": "array", "take": "array", "conj": "array"}
METHOD_OP = {"copy": "copy", "astype": "astype", "argsort": "libCall", "flatten": "copy"}
# methods of an array: a view of it (or the array itself)
METHOD_ALIAS = {"reshape", "ravel", "view", "squeeze", "transpose", "swapaxes", "filled", "diagonal", "newbyteorder",
                "getfield", "__array__"}
METHOD_INPLACE = {"sort", "fill", "put", "resize", "partition", "itemset", "setfield", "setflags", "byteswap", "shuffle"}
# methods of objects that are not caller arrays (loggers, fitted distributions, regression results, dicts of settings ...)
METHOD_OTHER = {"info", "warning", "warn", "error", "debug", "get", "keys", "items", "values", "cdf", "ppf", "pdf", "fit",
                "format", "lower", "upper", "timetuple", "split"}
ATTR_SCALAR = {"size", "shape", "dtype", "ndim", "itemsize", "nbytes", "pvalue", "slope", "intercept", "rvalue", "stderr",
               "statistic", "year", "month", "day"}
ATTR_VIEW = {"T", "real", "imag", "flat", "data", "base", "mask"}
BUILTIN_FRESH = {"len", "round", "any", "all", "int", "float", "bool", "str", "range", "type", "isinstance", "max", "min",
                 "sum", "abs", "print", "repr", "getattr", "hasattr", "ValueError", "TypeError", "Exception", "sorted", "dict",
                 "set", "id", "callable", "issubclass"}
BUILTIN_CONTAINER = {"enumerate", "zip", "list", "tuple", "iter", "reversed", "next"}

# ibicus helpers that are summarised instead of walked: name -> kind of the (new) result
TRUSTED_IBICUS = {
    "ecdf": "array", "iecdf": "array", "IECDF": "lib", "get_library_logger": "lib",
    "day_of_year": "array", "year": "array", "month": "array", "day": "array", "season": "array",
}
# helper objects hanging off `self`: "attr.method" -> kind of the result, or a tuple = kinds of what iterating yields
TRUSTED_SELF = {
    "distribution.fit": "lib", "distribution.cdf": "array", "distribution.ppf": "array", "distribution.pdf": "array",
    "running_window.use": ("scalar", "int"), "running_window.get_indices_vals_in_window": "int",
    "running_window.get_indices_vals_to_adjust": "int",
    "running_window_over_years_of_cm_future.use": ("int", "int"),
}


def lstr(s):
    return '"' + s.replace("\\", "\\\\").replace('"', '\\"') + '"'


def dotted(node):
    parts = []
    while isinstance(node, ast.Attribute):
        parts.append(node.attr)
        node = node.value
    if isinstance(node, ast.Name):
        parts.append(node.id)
        return list(reversed(parts))
    return None


class Val:
    """abstract value of an expression: the variables whose buffer it may be (a view of) — [] = a new buffer —, the
    NpOp it is emitted with, and what is known about it as an INDEX ('bool' / 'int' arrays give copies)"""

    def __init__(self, srcs, op, kind="unknown", iter_kinds=None):
        self.srcs = list(dict.fromkeys(srcs))
        self.op = op
        self.kind = kind
        self.iter_kinds = iter_kinds


def fresh(op="alloc", kind="unknown", iter_kinds=None):
    return Val([], op, kind, iter_kinds)


# ---------------------------------------------------------------- source index
class Index:
    def __init__(self, repo):
        self.repo = repo
        self.classes = {}      # name -> (file, ClassDef)
        self.functions = {}    # module-level name -> (file, FunctionDef)
        self.imports = {}      # file -> {local name: dotted origin}
        files = sorted(glob.glob(os.path.join(repo, "ibicus/debias/*.py"))) + sorted(glob.glob(os.path.join(repo, "ibicus/utils/*.py")))
        for path in files:
            rel = os.path.relpath(path, repo)
            tree = ast.parse(open(path).read())
            imp = {}
            for n in tree.body:
                if isinstance(n, ast.ClassDef):
                    if n.name in self.classes:
                        raise Untranslatable(f"class {n.name} defined twice")
                    self.classes[n.name] = (rel, n)
                elif isinstance(n, (ast.FunctionDef,)):
                    if n.name in self.functions:
                        raise Untranslatable(f"function {n.name} defined twice")
                    self.functions[n.name] = (rel, n)
                elif isinstance(n, ast.ImportFrom):
                    for a in n.names:
                        imp[a.asname or a.name] = ("." * n.level) + (n.module or "") + "." + a.name
                elif isinstance(n, ast.Import):
                    for a in n.names:
                        imp[(a.asname or a.name).split(".")[0]] = a.name if a.asname else a.name.split(".")[0]
            self.imports[rel] = imp

    def mro(self, cls):
        out, todo = [], [cls]
        while todo:
            c = todo.pop(0)
            if c in out or c not in self.classes:
                continue
            out.append(c)
            for b in self.classes[c][1].bases:
                d = dotted(b)
                if d:
                    todo.append(d[-1])
        return out

    def method(self, cls, name):
        for c in self.mro(cls):
            for n in self.classes[c][1].body:
                if isinstance(n, ast.FunctionDef) and n.name == name:
                    return c, self.classes[c][0], n
        return None


def is_static(fn):
    return any(isinstance(d, ast.Name) and d.id == "staticmethod" for d in fn.decorator_list)


def is_property(fn):
    return any(isinstance(d, ast.Name) and d.id == "property" for d in fn.decorator_list)


class Func:
    def __init__(self, fid, qual):
        self.fid, self.qual = fid, qual
        self.params = []        # (name, var)
        self.kwarg = None
        self.nret = None
        self.ret_kinds = None
        self.body = None
        self.names = {}


class ClassProgram:
    """the function table of one debiaser class"""

    def __init__(self, index, cls):
        self.ix, self.cls = index, cls
        self.funcs = {}       # key -> Func
        self.order = []
        self.active = []

    def get(self, key, file, node, self_cls, skip_self):
        if key in self.funcs:
            if self.funcs[key].body is None:
                raise Untranslatable(f"recursive call of {key}")
            return self.funcs[key]
        f = Func(len(self.order), key)
        self.funcs[key] = f
        self.order.append(f)
        Walker(self, f, file, node, self_cls, skip_self).run()
        return f


class Walker:
    def __init__(self, prog, func, file, node, self_cls, skip_self):
        self.prog, self.ix, self.f, self.file, self.node, self.self_cls = prog, prog.ix, func, file, node, self_cls
        self.skip_self = skip_self
        self.vars = {}
        self.kind = {}
        self.next = 0
        self.out = []
        self.nret = None
        self.ret_kinds = None

    # ---- variables
    def var(self, name):
        if name not in self.vars:
            self.vars[name] = self.next
            self.f.names[self.next] = name
            self.next += 1
        return self.vars[name]

    def temp(self, what="tmp"):
        v = self.next
        self.next += 1
        if v >= 800:
            raise Untranslatable(f"{self.f.qual}: too many variables")
        self.f.names[v] = f"<{what}>"
        return v

    def emit(self, st):
        self.out.append(st)

    def bind(self, dst, val):
        if val.srcs:
            op = val.op if val.op in ("name", "basicSlice") else "name"
            self.emit(("bind", dst, op, list(val.srcs)))
        else:
            self.emit(("bind", dst, val.op if val.op not in ("name", "basicSlice") else "alloc", []))
        self.kind[dst] = val.kind

    def tovar(self, val, what="tmp"):
        if len(val.srcs) == 1 and val.op == "name":
            return val.srcs[0]
        t = self.temp(what)
        self.bind(t, val)
        return t

    def block(self, fn):
        """run fn with a new statement list; returns the list"""
        saved, self.out = self.out, []
        try:
            fn()
            return self.out
        finally:
            self.out = saved

    # ---- the function
    def run(self):
        a = self.node.args
        if a.posonlyargs:
            raise Untranslatable(f"{self.f.qual}: positional-only parameters")
        params = list(a.args)
        if self.skip_self:
            if not params or params[0].arg != "self":
                raise Untranslatable(f"{self.f.qual}: first parameter is not self")
            params = params[1:]
        self.f.npos = len(params)
        for p in params + list(a.kwonlyargs):
            self.f.params.append((p.arg, self.var(p.arg)))
        if a.vararg:
            raise Untranslatable(f"{self.f.qual}: *args")
        if a.kwarg:
            self.f.kwarg = self.var(a.kwarg.arg)
        body, _ = self.stmts(self.node.body)
        nret = self.nret or 1
        pre = [("bind", RET_BASE + i, "alloc", []) for i in range(nret)]
        self.f.nret = nret
        self.f.ret_kinds = self.ret_kinds or ["scalar"] * nret
        self.f.body = pre + body

    # ---- statements: returns (list, terminated)
    def stmts(self, sts):
        saved, self.out = self.out, []
        try:
            term = self._stmts(sts)
            return self.out, term
        finally:
            self.out = saved

    def _stmts(self, sts):
        for k, st in enumerate(sts):
            rest = sts[k + 1:]
            if isinstance(st, ast.Expr):
                if isinstance(st.value, ast.Constant):
                    continue
                self.ev(st.value)
            elif isinstance(st, ast.Assign):
                if len(st.targets) == 1 and isinstance(st.targets[0], (ast.Tuple, ast.List)) and isinstance(st.value, ast.Call):
                    self.assign_unpack(st)
                else:
                    v = self.ev(st.value)
                    for t in st.targets:
                        self.assign(t, v)
            elif isinstance(st, ast.AnnAssign):
                if st.value is not None:
                    self.assign(st.target, self.ev(st.value))
            elif isinstance(st, ast.AugAssign):
                self.ev(st.value)
                self.store_target(st.target)
            elif isinstance(st, ast.Return):
                self.ret(st.value)
                return True
            elif isinstance(st, ast.Raise):
                if st.exc is not None:
                    self.ev(st.exc)
                return True
            elif isinstance(st, (ast.Continue, ast.Break)):
                return True
            elif isinstance(st, (ast.Pass, ast.Import, ast.ImportFrom)):
                if isinstance(st, ast.Import):
                    for al in st.names:
                        self.local_modules = getattr(self, "local_modules", set()) | {(al.asname or al.name).split(".")[0]}
                continue
            elif isinstance(st, ast.Assert):
                self.ev(st.test)
            elif isinstance(st, ast.Delete):
                continue
            elif isinstance(st, ast.If):
                self.ev(st.test)
                return self.branches([st.body, st.orelse], rest)
            elif isinstance(st, ast.For):
                self.loop(st)
            elif isinstance(st, ast.With):
                for it in st.items:
                    v = self.ev(it.context_expr)
                    if it.optional_vars is not None:
                        self.assign(it.optional_vars, fresh("libCall", "lib") if not v.srcs else v)
                if self._stmts(st.body):
                    return True
            elif isinstance(st, ast.Try):
                if st.finalbody:
                    raise Untranslatable(f"{self.f.qual}: try/finally")
                body = list(st.body)
                alts = [body + list(st.orelse)]
                for h in st.handlers:
                    alts.append([("maybe", body)] + ([ast.Assign(targets=[ast.Name(id=h.name, ctx=ast.Store())], value=ast.Constant(value=None))] if h.name else []) + list(h.body))
                return self.branches(alts, rest)
            elif isinstance(st, tuple) and st[0] == "maybe":
                blk, _ = self.stmts(st[1])
                self.emit(("ite", blk, []))
            else:
                raise Untranslatable(f"{self.f.qual}: statement {type(st).__name__}")
        return False

    def branches(self, alts, rest):
        """alternatives of which one runs, then `rest`; an alternative that ends the block (return / raise / continue) does
        not run `rest`"""
        k0 = dict(self.kind)
        done = []
        for a in alts:
            self.kind = dict(k0)
            blk, term = self.stmts(a)
            done.append((blk, term, dict(self.kind)))
        if not any(t for _, t, _ in done):
            self.kind = self.join_kinds([k for _, _, k in done])
            self.emit(self.nest([b for b, _, _ in done]))
            return self._stmts(rest)
        out, terms = [], []
        for blk, term, kinds in done:
            if term:
                out.append(blk)
                terms.append(True)
            else:
                self.kind = kinds
                r, rt = self.stmts(rest)
                out.append(blk + r)
                terms.append(rt)
        self.emit(self.nest(out))
        return all(terms)

    @staticmethod
    def nest(blocks):
        if len(blocks) == 1:
            return ("ite", blocks[0], blocks[0])
        st = ("ite", blocks[-2], blocks[-1])
        for b in reversed(blocks[:-2]):
            st = ("ite", b, [st])
        return st

    @staticmethod
    def join_kinds(ks):
        out = {}
        for v in set().union(*[set(k) for k in ks]):
            vals = {k.get(v, "unknown") for k in ks}
            out[v] = vals.pop() if len(vals) == 1 else "unknown"
        return out

    def loop(self, st):
        itv = self.ev(st.iter)
        kinds = itv.iter_kinds

        def body():
            tg = st.target
            elts = list(tg.elts) if isinstance(tg, (ast.Tuple, ast.List)) else [tg]
            for i, t in enumerate(elts):
                k = kinds[i] if kinds and i < len(kinds) else "unknown"
                v = Val(itv.srcs, "basicSlice", k) if itv.srcs else fresh("alloc", k)
                if kinds and kinds[i] == "scalar":
                    v = fresh("alloc", "scalar")
                self.assign(t, v)
            self._stmts(st.body)

        for _ in range(2):
            k0 = dict(self.kind)
            blk = self.block(body)
            self.kind = self.join_kinds([k0, self.kind])
            self.emit(("ite", blk, []))
        if st.orelse:
            self._stmts(st.orelse)

    def ret(self, value):
        if value is None:
            vals = [fresh("alloc", "scalar")]
        elif isinstance(value, ast.Tuple):
            vals = [self.ev(e) for e in value.elts]
        else:
            vals = [self.ev(value)]
        if self.nret is not None and self.nret != len(vals):
            raise Untranslatable(f"{self.f.qual}: returns of different arity")
        self.nret = len(vals)
        ks = [v.kind for v in vals]
        self.ret_kinds = ks if self.ret_kinds is None else [a if a == b else "unknown" for a, b in zip(self.ret_kinds, ks)]
        vs = [self.tovar(v, "ret") for v in vals]
        for i, v in enumerate(vs):
            self.emit(("bind", RET_BASE + i, "name", [v]))

    def assign(self, target, val):
        if isinstance(target, ast.Name):
            d = self.var(target.id)
            if val.srcs == [d] and val.op == "name":
                return
            self.bind(d, val)
        elif isinstance(target, (ast.Tuple, ast.List)):
            for t in target.elts:
                if isinstance(t, ast.Starred):
                    raise Untranslatable(f"{self.f.qual}: starred target")
                self.assign(t, Val(val.srcs, "basicSlice" if val.srcs else val.op, "unknown"))
        elif isinstance(target, (ast.Subscript, ast.Attribute)):
            self.store_target(target)
        else:
            raise Untranslatable(f"{self.f.qual}: assignment target {type(target).__name__}")

    def store_target(self, target):
        """an in-place write through `target`"""
        if isinstance(target, ast.Name):
            self.emit(("store", self.var(target.id)))
            return
        n = target
        while isinstance(n, (ast.Subscript, ast.Attribute)):
            if isinstance(n, ast.Subscript):
                self.ev_index(n.slice)
            n = n.value
        if isinstance(n, ast.Name) and n.id == "self":
            raise Untranslatable(f"{self.f.qual}: assignment to an attribute of self: {ast.unparse(target)[:60]}")
        base = target.value
        v = self.ev(base)
        if v.srcs:
            self.emit(("store", self.tovar(v, "store target")))
        # a store into a buffer that was allocated inside this very expression is not observable

    # ---- expressions
    def ev_index(self, sl):
        """'basic' (a view), 'bool' / 'int' (index arrays: a copy)"""
        if isinstance(sl, ast.Slice):
            for p in (sl.lower, sl.upper, sl.step):
                if p is not None:
                    self.ev(p)
            return "basic"
        if isinstance(sl, ast.Tuple):
            for e in sl.elts:
                self.ev_index(e)
            return "basic"
        v = self.ev(sl)
        return "int" if v.kind == "inttuple" else v.kind if v.kind in ("bool", "int") else "basic"

    def ev(self, n):
        if isinstance(n, (ast.Constant, ast.JoinedStr)):
            return fresh("alloc", "scalar")
        if isinstance(n, ast.Name):
            if n.id in self.vars:
                v = self.vars[n.id]
                return Val([v], "name", self.kind.get(v, "unknown"))
            if n.id in ("True", "False", "None") or n.id in MODULE_ROOTS or n.id in self.ix.classes or n.id in self.ix.functions \
                    or n.id in BUILTIN_FRESH or n.id in self.ix.imports.get(self.file, {}) or hasattr(builtins, n.id) \
                    or n.id in getattr(self, "local_modules", set()):
                return fresh("alloc", "lib")
            raise Untranslatable(f"{self.f.qual}: unknown name {n.id}")
        if isinstance(n, ast.Attribute):
            d = dotted(n)
            if d and d[0] == "self" and "self" not in self.vars:
                return fresh("alloc", "scalar")          # a setting / a helper object / a property of the instance
            if d and d[0] not in self.vars and (d[0] in MODULE_ROOTS or d[0] in self.ix.classes or d[0] in self.ix.imports.get(self.file, {})):
                return fresh("alloc", "scalar")          # np.pi, np.nan, scipy.stats.rice ...
            v = self.ev(n.value)
            if not v.srcs:
                return fresh("alloc", "unknown")
            if n.attr in ATTR_SCALAR:
                return fresh("alloc", "scalar")
            # `.T`, `.real`, `.base` ... are views; an attribute that is in no table is taken for one as well
            return Val(v.srcs, "basicSlice", "array" if n.attr in ATTR_VIEW else "unknown")
        if isinstance(n, ast.Subscript):
            v = self.ev(n.value)
            ic = self.ev_index(n.slice)
            # what the result is as an index: a slice / an index array of an index array is an index array; ONE element of a
            # tuple of index arrays (`np.where(c)[0]`) is an index array; one element of an index array is a scalar
            if v.kind == "inttuple":
                rk = "int" if isinstance(n.slice, ast.Constant) else "unknown"
            elif v.kind in ("int", "bool") and (isinstance(n.slice, ast.Slice) or ic in ("bool", "int")):
                rk = v.kind
            else:
                rk = "unknown"
            if not v.srcs:
                return fresh(v.op if v.op not in ("name", "basicSlice") else "alloc", rk)
            if ic == "bool":
                return fresh("boolIndex", rk)
            if ic == "int":
                return fresh("fancyIndex", rk)
            return Val(v.srcs, "basicSlice", rk)
        if isinstance(n, ast.Compare):
            self.ev(n.left)
            for c in n.comparators:
                self.ev(c)
            return fresh("arith", "bool")
        if isinstance(n, ast.BinOp):
            a, b = self.ev(n.left), self.ev(n.right)
            if isinstance(n.op, (ast.BitAnd, ast.BitOr, ast.BitXor)) and a.kind == "bool" and b.kind == "bool":
                return fresh("arith", "bool")
            return fresh("arith", "scalar" if a.kind == "scalar" and b.kind == "scalar" else "unknown")
        if isinstance(n, ast.UnaryOp):
            a = self.ev(n.operand)
            if isinstance(n.op, ast.Not):
                return fresh("arith", "bool")
            if isinstance(n.op, ast.Invert) and a.kind == "bool":
                return fresh("arith", "bool")
            return fresh("arith", "scalar" if a.kind == "scalar" else "unknown")
        if isinstance(n, ast.BoolOp):
            vs = [self.ev(x) for x in n.values]
            srcs = [s for v in vs for s in v.srcs]
            ks = {v.kind for v in vs}
            return Val(srcs, "name", ks.pop() if len(ks) == 1 else "unknown") if srcs else fresh("arith", "bool" if ks == {"bool"} else "unknown")
        if isinstance(n, ast.IfExp):
            self.ev(n.test)
            t = self.temp("ifexp")
            res = []

            def arm(e):
                def go():
                    v = self.ev(e)
                    res.append(v)
                    self.bind(t, v)
                return go
            a = self.block(arm(n.body))
            b = self.block(arm(n.orelse))
            self.emit(("ite", a, b))
            self.kind[t] = res[0].kind if res[0].kind == res[1].kind else "unknown"
            return Val([t], "name", self.kind[t])
        if isinstance(n, ast.NamedExpr):
            v = self.ev(n.value)
            self.assign(n.target, v)
            d = self.var(n.target.id)
            return Val([d], "name", self.kind.get(d, "unknown"))
        if isinstance(n, (ast.Tuple, ast.List, ast.Set)):
            vs = [self.ev(e) for e in n.elts]
            srcs = [s for v in vs for s in v.srcs]
            return Val(srcs, "name", "tuple") if srcs else fresh("alloc", "tuple")
        if isinstance(n, ast.Dict):
            vs = [self.ev(e) for e in list(n.keys) + list(n.values) if e is not None]
            srcs = [s for v in vs for s in v.srcs]
            return Val(srcs, "name", "lib") if srcs else fresh("alloc", "lib")
        if isinstance(n, (ast.ListComp, ast.GeneratorExp, ast.SetComp)):
            t = self.temp("comprehension")
            self.emit(("bind", t, "alloc", []))

            def body():
                for g in n.generators:
                    itv = self.ev(g.iter)
                    tg = g.target
                    for e in (tg.elts if isinstance(tg, (ast.Tuple, ast.List)) else [tg]):
                        self.assign(e, Val(itv.srcs, "basicSlice", "unknown") if itv.srcs else fresh("alloc", "unknown"))
                    for c in g.ifs:
                        self.ev(c)
                v = self.ev(n.elt)
                if v.srcs:
                    self.emit(("bind", t, "name", [t] + list(v.srcs)))
            for _ in range(2):
                self.emit(("ite", self.block(body), []))
            return Val([t], "name", "lib")
        if isinstance(n, ast.Lambda):
            free = [self.vars[x.id] for x in ast.walk(n.body) if isinstance(x, ast.Name) and x.id in self.vars
                    and x.id not in {a.arg for a in n.args.args}]
            return Val(free, "name", "lib") if free else fresh("alloc", "lib")
        if isinstance(n, ast.Call):
            return self.ev_call(n)
        if isinstance(n, ast.Starred):
            return self.ev(n.value)
        raise Untranslatable(f"{self.f.qual}: expression {type(n).__name__}")

    # ---- calls
    def args_of(self, call):
        """evaluates the arguments (left to right); returns (positional values, keyword values, ** values)"""
        for kw in call.keywords:
            if kw.arg in FORBIDDEN_KW:
                raise Untranslatable(f"{self.f.qual}: keyword {kw.arg}= in {ast.unparse(call.func)}")
        pos = []
        for a in call.args:
            if isinstance(a, ast.Starred):
                pos.append(("*", self.ev(a.value)))
            else:
                pos.append((None, self.ev(a)))
        kws, star = [], []
        for kw in call.keywords:
            v = self.ev(kw.value)
            if kw.arg is None:
                star.append(v)
            else:
                kws.append((kw.arg, v))
        return pos, kws, star

    def lib_call(self, call, op="libCall", kind="unknown", iter_kinds=None):
        self.args_of(call)
        return fresh(op, kind, iter_kinds)

    def ev_call(self, call):
        f = call.func
        d = dotted(f)
        qual = self.f.qual
        if d is None:
            # a call on the result of an expression: `np.where(c)[0].astype(int)(...)`, `f(x)(y)`
            if isinstance(f, ast.Attribute):
                return self.method_call(call, self.ev(f.value), f.attr)
            fv = self.ev(f)
            pos, kws, star = self.args_of(call)
            srcs = fv.srcs + [s for _, v in pos for s in v.srcs] + [s for _, v in kws for s in v.srcs]
            return Val(srcs, "name", "unknown") if srcs else fresh("libCall")
        root = d[0]
        if root in self.vars:
            if len(d) == 1:
                fv = self.ev(f)
                pos, kws, star = self.args_of(call)
                srcs = fv.srcs + [s for _, v in pos for s in v.srcs] + [s for _, v in kws for s in v.srcs] + [s for v in star for s in v.srcs]
                return Val(srcs, "name", "unknown") if srcs else fresh("libCall")
            return self.method_call(call, self.ev(f.value), f.attr)
        if root == "self":
            if len(d) == 2:
                m = self.ix.method(self.prog.cls, d[1])
                if m is None:
                    raise Untranslatable(f"{qual}: self.{d[1]} is no method of {self.prog.cls}")
                c, file, node = m
                if is_property(node):
                    raise Untranslatable(f"{qual}: call of the property self.{d[1]}")
                return self.covered_call(call, f"{c}.{d[1]}", file, node, c, not is_static(node))
            key = ".".join(d[1:])
            if len(d) == 3 and key in TRUSTED_SELF:
                k = TRUSTED_SELF[key]
                return self.lib_call(call, "libCall", "lib" if isinstance(k, tuple) else k, k if isinstance(k, tuple) else None)
            raise Untranslatable(f"{qual}: call self.{key} is in no table")
        if root in self.ix.classes and len(d) == 2:
            m = self.ix.method(root, d[1])
            if m is None:
                raise Untranslatable(f"{qual}: {root}.{d[1]} not found")
            c, file, node = m
            if not is_static(node) and node.args.args and node.args.args[0].arg == "self":
                raise Untranslatable(f"{qual}: {root}.{d[1]} called through the class but takes self")
            return self.covered_call(call, f"{c}.{d[1]}", file, node, c, False)
        imp = self.ix.imports.get(self.file, {})
        if len(d) == 1 and root in self.ix.functions and (root in imp or self.ix.functions[root][0] == self.file):
            if root in TRUSTED_IBICUS:
                return self.lib_call(call, "libCall", TRUSTED_IBICUS[root])
            file, node = self.ix.functions[root]
            return self.covered_call(call, root, file, node, None, False)
        if len(d) == 1 and root in BUILTIN_FRESH:
            return self.lib_call(call, "alloc", "scalar")
        if len(d) == 1 and root in BUILTIN_CONTAINER:
            pos, kws, star = self.args_of(call)
            srcs = [s for _, v in pos for s in v.srcs]
            return Val(srcs, "basicSlice", "lib") if srcs else fresh("alloc", "lib")
        # library calls: expand an imported name to its origin
        full = list(d)
        if root in imp and not imp[root].startswith("."):
            full = imp[root].split(".") + d[1:]
        elif root in getattr(self, "local_modules", set()):
            full = d
        elif root not in MODULE_ROOTS:
            raise Untranslatable(f"{qual}: call {'.'.join(d)} is in no table")
        lroot, name = full[0], ".".join(full[1:])
        if lroot in ("np", "numpy"):
            if name.startswith("random."):
                self.args_of(call)
                self.emit(("draw",))
                return fresh("libCall", "array")
            if name in NP_ALIAS:
                pos, kws, star = self.args_of(call)
                if not pos:
                    raise Untranslatable(f"{qual}: np.{name} without positional argument")
                v = pos[0][1]
                return Val(v.srcs, "name", v.kind) if v.srcs else fresh("alloc", v.kind)
            if name in NP_FRESH:
                op, kind = NP_FRESH[name]
                if name == "where" and len(call.args) == 1 and not call.keywords:
                    kind = "inttuple"
                return self.lib_call(call, op, kind)
            raise Untranslatable(f"{qual}: np.{name} is in no table")
        if lroot in LIB_ROOTS:
            return self.lib_call(call, "libCall", "lib" if name.split(".")[-1][:1].isupper() or name.endswith(("linregress", "interp1d", "rv_histogram")) else "array")
        if lroot in ("warnings", "os", "math", "logging"):
            return self.lib_call(call, "alloc", "scalar")
        raise Untranslatable(f"{qual}: call {'.'.join(d)} is in no table")

    def method_call(self, call, recv, m):
        qual = self.f.qual
        if m in METHOD_INPLACE:
            self.args_of(call)
            if recv.srcs:
                self.emit(("store", self.tovar(recv, "in-place method")))
            return fresh("alloc", "scalar")
        if not recv.srcs or recv.kind == "lib":
            pos, kws, star = self.args_of(call)
            has_alias = any(v.srcs for _, v in pos) or any(v.srcs for _, v in kws) or any(v.srcs for v in star)
            if m in METHOD_FRESH:
                return fresh(METHOD_OP.get(m, "arith"), METHOD_FRESH[m])
            if m in METHOD_OTHER or not has_alias:
                return fresh("libCall", "unknown")
            if m in METHOD_ALIAS and not recv.srcs:
                return fresh("libCall", "unknown")
            raise Untranslatable(f"{qual}: method .{m} of a local object with an array argument is in no table")
        if m in METHOD_FRESH:
            self.args_of(call)
            return fresh(METHOD_OP.get(m, "arith"), METHOD_FRESH[m])
        if m in METHOD_ALIAS:
            self.args_of(call)
            return Val(recv.srcs, "basicSlice", recv.kind)
        raise Untranslatable(f"{qual}: method .{m} of an array is in no table")

    def covered_call(self, call, key, file, node, self_cls, skip_self):
        callee = self.prog.get(key, file, node, self_cls, skip_self)
        pos, kws, star = self.args_of(call)
        if any(s == "*" for s, _ in pos):
            raise Untranslatable(f"{self.f.qual}: *args in a call of {key}")
        pnames = [p for p, _ in callee.params]
        if len(pos) > callee.npos:
            raise Untranslatable(f"{self.f.qual}: too many positional arguments for {key}")
        bound = {}
        for (pname, pvar), (_, v) in zip(callee.params, pos):
            bound[pvar] = v
        extra = []
        for k, v in kws:
            if k in pnames:
                pv = dict(callee.params)[k]
                if pv in bound:
                    raise Untranslatable(f"{self.f.qual}: parameter {k} of {key} given twice")
                bound[pv] = v
            elif callee.kwarg is not None:
                extra.append(v)
            else:
                raise Untranslatable(f"{self.f.qual}: {key} has no parameter {k}")
        if star:
            if callee.kwarg is None:
                raise Untranslatable(f"{self.f.qual}: ** in a call of {key}, which takes no **kwargs")
            extra += star
        args = []
        for pname, pvar in callee.params:
            v = bound.get(pvar, fresh("alloc", "scalar"))      # a default value: a constant of the callee's module
            args.append((pvar, self.tovar(v, "arg " + pname)))
        if callee.kwarg is not None:
            srcs = [s for v in extra for s in v.srcs]
            args.append((callee.kwarg, self.tovar(Val(srcs, "basicSlice", "lib") if srcs else fresh("alloc", "lib"), "**kwargs")))
        rets = []
        ts = []
        for i in range(callee.nret):
            t = self.temp(f"{key.split('.')[-1]} -> {i}")
            self.kind[t] = callee.ret_kinds[i]
            rets.append((t, RET_BASE + i))
            ts.append(t)
        self.emit(("call", callee.fid, args, rets))
        if len(ts) == 1:
            return Val(ts, "name", callee.ret_kinds[0])
        return Val(ts, "name", "tuple")

    def assign_unpack(self, st):
        """`a, b = f(...)` for a walked f with as many returned values as targets: each target gets its own value"""
        n0 = len(self.out)
        v = self.ev(st.value)
        tg = st.targets[0].elts
        if v.kind == "tuple" and len(v.srcs) == len(tg) and self.out[n0:] and self.out[-1][0] == "call" \
                and [t for t, _ in self.out[-1][3]] == v.srcs:
            for t, s_ in zip(tg, v.srcs):
                self.assign(t, Val([s_], "name", self.kind.get(s_, "unknown")))
        else:
            self.assign(st.targets[0], v)


# ---------------------------------------------------------------- Lean output
def fmt_block(block, ind):
    pad = " " * ind
    if not block:
        return "[]"
    rows = []
    for st in block:
        rows.append(pad + "  " + fmt_stmt(st, ind + 2))
    return "[\n" + ",\n".join(rows) + "]"


def fmt_stmt(st, ind):
    if st[0] == "bind":
        return f".bind {st[1]} .{st[2]} [{', '.join(map(str, st[3]))}]"
    if st[0] == "store":
        return f".store {st[1]}"
    if st[0] == "draw":
        return ".draw"
    if st[0] == "ite":
        return ".ite " + fmt_block(st[1], ind) + " " + fmt_block(st[2], ind)
    if st[0] == "call":
        a = ", ".join(f"({p}, {v})" for p, v in st[2])
        r = ", ".join(f"({p}, {v})" for p, v in st[3])
        return f".call {st[1]} [{a}] [{r}]"
    raise ValueError(st)


def count(block):
    n = 0
    for st in block:
        n += 1
        if st[0] == "ite":
            n += count(st[1]) + count(st[2])
    return n


def generate(repo):
    errors = []
    out = ["", "import IbicusModel.Model.PurityProg", "", "namespace Gen.Purity", "open Model.PurityProg", ""]
    try:
        ix = Index(repo)
    except (OSError, SyntaxError, Untranslatable) as ex:
        return "\n".join(out) + "\nend Gen.Purity\n", [f"untranslatable:purity: {type(ex).__name__} {ex}"]
    for cls in DEBIASERS:
        out.append(f"namespace {cls}")
        try:
            m = ix.method(cls, ENTRY)
            if m is None:
                raise Untranslatable(f"{cls}.{ENTRY} not found")
            c, file, node = m
            prog = ClassProgram(ix, cls)
            f0 = prog.get(f"{c}.{ENTRY}", file, node, c, True)
            pn = [p for p, _ in f0.params]
            if pn != ["obs", "cm_hist", "cm_future", "time_obs", "time_cm_hist", "time_cm_future"]:
                raise Untranslatable(f"{cls}.{ENTRY}: parameters {pn}")
            for f in prog.order:
                names = ", ".join(f"{v} {n}" for v, n in sorted(f.names.items()) if not n.startswith("<"))
                out.append(f"/-- `{f.qual}` — {names} -/")
                out.append(f"def f{f.fid} : List PStmt := " + fmt_block(f.body, 0))
                out.append("")
            out.append("/-- the function table of the class (numbered in order of first call from `apply_location`) -/")
            out.append("def prog : Prog")
            for f in prog.order:
                out.append(f"  | {f.fid} => f{f.fid}")
            out.append("  | _ => []")
            out.append("")
            out.append("def functions : List String := [" + ", ".join(lstr(f.qual) for f in prog.order) + "]")
            out.append(f"-- {len(prog.order)} functions, {sum(count(f.body) for f in prog.order)} statements")
        except Untranslatable as ex:
            errors.append(f"untranslatable:purity:{cls}: {ex}")
            out.append("def prog : Prog := fun _ => []")
            out.append("def functions : List String := []")
        out.append(f"end {cls}")
        out.append("")
    out.append("end Gen.Purity")
    return "\n".join(out) + "\n", errors


if __name__ == "__main__":
    import sys

    text, errs = generate(sys.argv[1] if len(sys.argv) > 1 else "/repo")
    print(text)
    print(errs, file=sys.stderr)
