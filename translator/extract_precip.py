"""
Tier-A extractor for C17: the three precipitation models of `ibicus/utils/_math_utils.py` and the factory
`ibicus.variables.map_standard_precipitation_method`, regenerated from /repo's current AST as **per-element** Lean
definitions (`lean/IbicusModel/Gen/Precip.lean`).

Element-wise reading (class `ElemFn`, an extension of `py2lean.Fn`; nothing in py2lean.py is changed).  The array
argument of `cdf` / `ppf` (`x`, `q`) is ONE element of the vector:

  np.where(c, a, b)                      ->  if c then a else b          (three-argument form only; c, a, b element values)
  np.random.uniform(lo, hi, x.shape)     ->  uniform lo hi               (`uniform : Rat → Rat → Rat` is a parameter: the draw
                                                                          for this position as a function of the requested range;
                                                                          the third argument must be `<element>.shape`)
  self.distribution.cdf(v, *prm)         ->  dist_cdf v prm              (parameters of the generated definition; `prm` must be a
  self.distribution.ppf(v, *prm)             dist_ppf v prm               name of the opaque parameter type `P`, star-forwarded)
  scipy.stats.gamma.cdf / ppf(v, *prm)   ->  gamma_cdf / gamma_ppf v prm
  self.distribution.fit(d)               ->  dist_fit d none
  self.distribution.fit(d, **self.fit_kwds) -> dist_fit d self_fit_kwds  (`self_fit_kwds : Option K`)
  X is None / X is not None              ->  X.isNone / !X.isNone        (X of an `Option` type)
  -np.inf                                ->  ERat.negInf                 (`Model.Precip.ERat` = ℚ ∪ {−∞}; a rational meeting it is `.fin`)
  fit[0], fit[1]                         ->  fit.1, fit.2                (`fit : Rat × P`)
  X.shape[0]                             ->  length of the list X
  scipy.stats.gamma                      ->  the parameter `scipy_stats_gamma : D` (factory; `D` has decidable equality)
  utils.gen_…Model(args…)                ->  `Built.…` with EVERY attrs field of the class (positional / keyword arguments
                                             resolved against the class's field list read from the AST, literal defaults
                                             filled in, a dict default = `none` "not passed"), preceded by the guards of the
                                             fields' `attrs.validators.gt/ge/lt/le(c)` validators (failure = "ValueError").

Everything else goes through `py2lean.Fn` (if / elif / else, raise, comparisons, arithmetic, `data[mask]`, tuples).  Any
statement or expression outside this subset raises `Untranslatable` — the extractor never guesses.  The signature of every
method (parameter names, `*fit`) is checked.

Identity  = every statement of the bodies of: hurdle `fit` / `cdf` / `ppf`, ignore-zeros `fit` / `cdf` / `ppf`, censored `fit` /
            `cdf` / `ppf`, `map_standard_precipitation_method`; the attrs field lists (order, defaults, validators) of the three
            classes; the defaults of the factory's parameters.
Ignored   = docstrings, type annotations, `attrs.validators.instance_of(..)` / `converter=float`, the optimiser
            `_fit_censored_gamma` (a parameter), the module-level instances (`PrecipitationHurdleModelGamma`, …).
"""
import ast
import os
import sys

sys.path.insert(0, os.path.dirname(os.path.abspath(__file__)))
from py2lean import BOOL, INT, LIST, PROP, RAT, STR, Fn, Untranslatable, elem, find_function, is_list  # noqa: E402

MU = "ibicus/utils/_math_utils.py"
VA = "ibicus/variables.py"
ERAT = "ERat"
HURDLE, IZ, CENS = "gen_PrecipitationHurdleModel", "gen_PrecipitationIgnoreZeroValuesModel", "gen_PrecipitationGammaLeftCensoredModel"


# ---------------------------------------------------------------------------------------------- attrs field lists
def class_fields(tree, cls):
    """[(name, default expr | None, [validator exprs])] in declaration order; strict about the shape"""
    for n in tree.body:
        if isinstance(n, ast.ClassDef) and n.name == cls:
            out = []
            for m in n.body:
                if isinstance(m, ast.AnnAssign):
                    if not isinstance(m.target, ast.Name):
                        raise Untranslatable(f"{cls}: field target {ast.unparse(m.target)}")
                    v = m.value
                    if not (isinstance(v, ast.Call) and ast.unparse(v.func) == "attrs.field" and not v.args):
                        raise Untranslatable(f"{cls}.{m.target.id}: not an attrs.field(...)")
                    kw = {k.arg: k.value for k in v.keywords}
                    if None in kw or set(kw) - {"default", "validator", "converter"}:
                        raise Untranslatable(f"{cls}.{m.target.id}: attrs.field keywords {sorted(map(str, kw))}")
                    if "converter" in kw and ast.unparse(kw["converter"]) != "float":
                        raise Untranslatable(f"{cls}.{m.target.id}: converter {ast.unparse(kw['converter'])}")
                    val = kw.get("validator")
                    vals = [] if val is None else (list(val.elts) if isinstance(val, ast.List) else [val])
                    out.append((m.target.id, kw.get("default"), vals))
                elif isinstance(m, ast.Assign):
                    raise Untranslatable(f"{cls}: un-annotated class attribute {ast.unparse(m)[:40]}")
            return out
    raise Untranslatable(f"class {cls} not found")


# ---------------------------------------------------------------------------------------------- the element-wise reader
class ElemFn(Fn):
    """spec extras: tparams (binder text), pyargs / vararg (signature), elem (names read as ONE element),
    dist {callee: dict(lean, arg, ret)}, fitcall {callee: lean}, ctors {callee: dict(lean, cls, types{field: type})},
    consts {dotted name: parameter}, fields {cls: class_fields(..)}"""

    # ---- types
    def coerce(self, s, t, want):
        if t == want:
            return s
        if want == ERAT and t in (RAT, INT):
            return f"(ERat.fin {Fn.coerce(self, s, t, RAT)})"
        return Fn.coerce(self, s, t, want)

    def unify_num(self, a, ta, b, tb):
        if ta != tb and ERAT in (ta, tb):
            return self.coerce(a, ta, ERAT), self.coerce(b, tb, ERAT), ERAT
        if ta == tb and (isinstance(ta, tuple) or is_list(ta)):
            raise Untranslatable(f"element-wise operation on {ta}")
        return Fn.unify_num(self, a, ta, b, tb)

    def compare(self, op, a, ta, b, tb):
        if is_list(tb) and not is_list(ta):  # scalar (op) array: broadcast over the right operand
            x = self.fresh("x")
            s, t = self.compare(op, a, ta, x, elem(tb))
            return f"(({b}).map (fun {x} => {self.val(s, t)}))", LIST(BOOL)
        if ERAT in (ta, tb) and not isinstance(op, (ast.Eq, ast.NotEq)):
            raise Untranslatable("ordering comparison with -inf")
        opaque = set(self.spec.get("opaque", ()))
        if (ta in opaque or tb in opaque) and not (ta == tb and isinstance(op, (ast.Eq, ast.NotEq))):
            raise Untranslatable(f"comparison on opaque type {ta} / {tb}")
        return Fn.compare(self, op, a, ta, b, tb)

    def binop(self, op, a, ta, b, tb, pre=None):
        for t in (ta, tb):
            if t == ERAT or isinstance(t, tuple) or t in self.spec.get("opaque", ()) or (isinstance(t, str) and t.startswith("Option")):
                raise Untranslatable(f"arithmetic on {t}")
        return Fn.binop(self, op, a, ta, b, tb, pre)

    # ---- expressions
    def expr(self, e, env, pre):
        src = ast.unparse(e)
        if src in self.spec.get("consts", {}):
            nm = self.spec["consts"][src]
            if nm not in env:
                raise Untranslatable(f"{src}: parameter {nm} not declared")
            return nm, env[nm]
        if isinstance(e, ast.UnaryOp) and isinstance(e.op, ast.USub) and ast.unparse(e.operand) == "np.inf":
            return "ERat.negInf", ERAT
        if isinstance(e, ast.Compare) and len(e.ops) == 1 and isinstance(e.ops[0], (ast.Is, ast.IsNot)):
            c = e.comparators[0]
            if not (isinstance(c, ast.Constant) and c.value is None):
                raise Untranslatable(f"`is` comparison {src}")
            s, t = self.expr(e.left, env, pre)
            if not (isinstance(t, str) and t.startswith("Option ")):
                raise Untranslatable(f"`is None` on {t}")
            return (f"(({s}).isNone)" if isinstance(e.ops[0], ast.Is) else f"(!(({s}).isNone))"), BOOL
        return Fn.expr(self, e, env, pre)

    def subscript(self, e, env, pre):
        # X.shape[0]
        if (isinstance(e.value, ast.Attribute) and e.value.attr == "shape" and isinstance(e.slice, ast.Constant)
                and type(e.slice.value) is int and e.slice.value == 0):
            s, t = self.expr(e.value.value, env, pre)
            if is_list(t):
                return f"(({s}).length : Int)", INT
            raise Untranslatable(f".shape[0] of {t}")
        # T[k] on a pair
        if isinstance(e.value, ast.Name) and isinstance(env.get(e.value.id), tuple):
            tt = env[e.value.id]
            if len(tt) == 2 and isinstance(e.slice, ast.Constant) and type(e.slice.value) is int and e.slice.value in (0, 1):
                k = e.slice.value
                return f"{e.value.id}.{k + 1}", tt[k]
            raise Untranslatable(f"tuple index {ast.unparse(e)}")
        return Fn.subscript(self, e, env, pre)

    def elem_value(self, e, env, pre, what):
        n0 = len(pre)
        s, t = self.expr(e, env, pre)
        if len(pre) != n0:
            raise Untranslatable(f"binding inside {what}")
        if t not in (RAT, INT, ERAT, BOOL, PROP) and t not in self.spec.get("opaque", ()):
            raise Untranslatable(f"{what}: not an element value ({t})")
        return s, t

    def call(self, e, env, pre):
        f = ast.unparse(e.func)
        sp = self.spec
        if f == "np.where":
            if len(e.args) != 3 or e.keywords or any(isinstance(a, ast.Starred) for a in e.args):
                if len(e.args) == 1:
                    return Fn.call(self, e, env, pre)
                raise Untranslatable("np.where: three positional arguments expected")
            c, tc = self.elem_value(e.args[0], env, pre, "np.where condition")
            if tc not in (PROP, BOOL):
                raise Untranslatable(f"np.where condition of type {tc}")
            a, ta = self.elem_value(e.args[1], env, pre, "np.where branch")
            b, tb = self.elem_value(e.args[2], env, pre, "np.where branch")
            if ta in (BOOL, PROP) or tb in (BOOL, PROP):
                raise Untranslatable("np.where on booleans")
            a, b, t = self.unify_num(a, ta, b, tb)
            return f"(if {self.coerce(c, tc, PROP)} then {a} else {b})", t
        if f == "np.random.uniform":
            if len(e.args) != 3 or e.keywords:
                raise Untranslatable("np.random.uniform: (low, high, size) expected")
            sh = e.args[2]
            if not (isinstance(sh, ast.Attribute) and sh.attr == "shape" and isinstance(sh.value, ast.Name)
                    and sh.value.id in sp.get("elem", ())):
                raise Untranslatable(f"np.random.uniform: size {ast.unparse(sh)} is not the shape of the element argument")
            if env.get("uniform") != "Rat → Rat → Rat":
                raise Untranslatable("np.random.uniform: no `uniform` parameter declared")
            lo, tlo = self.elem_value(e.args[0], env, pre, "uniform bound")
            hi, thi = self.elem_value(e.args[1], env, pre, "uniform bound")
            return f"(uniform {self.coerce(lo, tlo, RAT)} {self.coerce(hi, thi, RAT)})", RAT
        if f in sp.get("dist", {}):
            d = sp["dist"][f]
            ok = (len(e.args) == 2 and not e.keywords and not isinstance(e.args[0], ast.Starred)
                  and isinstance(e.args[1], ast.Starred) and isinstance(e.args[1].value, ast.Name))
            if not ok:
                raise Untranslatable(f"{f}: expected (value, *parameters)")
            prm = e.args[1].value.id
            if env.get(prm) != "P":
                raise Untranslatable(f"{f}: *{prm} is not the fitted-parameter tuple")
            if d["lean"] not in env:
                raise Untranslatable(f"{f}: no `{d['lean']}` parameter declared")
            s, t = self.elem_value(e.args[0], env, pre, f)
            return f"({d['lean']} {self.coerce(s, t, d['arg'])} {prm})", d["ret"]
        if f in sp.get("fitcall", {}):
            lean = sp["fitcall"][f]
            if len(e.args) != 1 or isinstance(e.args[0], ast.Starred):
                raise Untranslatable(f"{f}: one positional argument expected")
            s, t = self.expr(e.args[0], env, pre)
            if t != "List Rat":
                raise Untranslatable(f"{f}: data of type {t}")
            if not e.keywords:
                return f"({lean} {s} none)", "P"
            if len(e.keywords) == 1 and e.keywords[0].arg is None:
                k, tk = self.expr(e.keywords[0].value, env, pre)
                if tk != "Option K":
                    raise Untranslatable(f"{f}: ** of {tk}")
                return f"({lean} {s} {k})", "P"
            raise Untranslatable(f"{f}: keywords {ast.unparse(e)}")
        if f in sp.get("ctors", {}):
            return self.ctor(e, f, env, pre)
        return Fn.call(self, e, env, pre)

    def ctor(self, e, f, env, pre):
        """a call of one of the three attrs classes: every field gets a value (argument, literal default, or `none` for a
        default that is not a literal); `gt/ge/lt/le` validators become guards bound before the value"""
        c = self.spec["ctors"][f]
        fields = self.spec["fields"][c["cls"]]
        names = [n for n, _, _ in fields]
        if set(names) != set(c["types"]) or any(isinstance(a, ast.Starred) for a in e.args) or any(k.arg is None for k in e.keywords):
            raise Untranslatable(f"{f}: fields {names} / call {ast.unparse(e)}")
        if len(e.args) > len(names):
            raise Untranslatable(f"{f}: too many positional arguments")
        given = dict(zip(names, e.args))
        for k in e.keywords:
            if k.arg not in names or k.arg in given:
                raise Untranslatable(f"{f}: keyword {k.arg}")
            given[k.arg] = k.value
        if not self.monadic:
            raise Untranslatable(f"{f}: constructor call in a non-monadic function")
        vals = []
        for (n, dflt, validators) in fields:
            want = c["types"][n]
            if n in given:
                s, t = self.expr(given[n], env, pre)
                s = f"(some {s})" if want.startswith("Option ") and t == want[7:] else self.coerce(s, t, want)
                passed = True
            else:
                passed = False
                if dflt is None:
                    raise Untranslatable(f"{f}: field {n} without argument and default")
                if isinstance(dflt, ast.Constant) and not isinstance(dflt.value, str) and dflt.value is not None:
                    s, t = self.expr(dflt, env, pre)
                    s = self.coerce(s, t, want)
                elif want.startswith("Option "):
                    s = "none"
                else:
                    raise Untranslatable(f"{f}: default of {n}: {ast.unparse(dflt)}")
            for v in validators:
                vs = ast.unparse(v.func) if isinstance(v, ast.Call) else ast.unparse(v)
                if vs == "attrs.validators.instance_of":
                    continue
                ops = {"attrs.validators.gt": ">", "attrs.validators.ge": "≥", "attrs.validators.lt": "<", "attrs.validators.le": "≤"}
                if vs in ops and len(v.args) == 1 and not v.keywords and want == RAT:
                    b, tb = self.expr(v.args[0], env, pre)
                    if passed:  # attrs validates defaults too, but a literal default is checked by `field_table`
                        g = self.fresh("_g")
                        pre.append((g, f'(if ({s} {ops[vs]} {self.coerce(b, tb, RAT)}) then Except.ok () else Except.error "ValueError" : Except String Unit)', "Unit", "bind"))
                    continue
                raise Untranslatable(f"{f}: validator {ast.unparse(v)} of field {n}")
            vals.append(s)
        return "(" + " ".join([c["lean"]] + vals) + ")", c["ret"]

    # ---- definition
    def check_signature(self):
        a = self.node.args
        names = [x.arg for x in a.args]
        ok = (not a.posonlyargs and not a.kwonlyargs and a.kwarg is None and names == self.spec["pyargs"]
              and (a.vararg.arg if a.vararg else None) == self.spec.get("vararg"))
        if not ok:
            raise Untranslatable(f"signature ({ast.unparse(a)})")
        if not self.spec.get("defaults_ok") and (a.defaults or a.kw_defaults):
            raise Untranslatable("signature has defaults")
        for d in self.node.decorator_list:
            raise Untranslatable(f"decorator {ast.unparse(d)}")

    def translate(self):
        sp = self.spec
        self.check_signature()
        body = self.block(list(self.node.body), dict(sp["params"]), 2)
        params = " ".join(f"({p} : {self.tstr(t)})" for p, t in sp["params"].items())
        ret = self.tstr(sp["ret"])
        if self.wrap:
            ret = f"Except String ({ret})"
        return f"def {sp['lean']} {sp.get('tparams', '')} {params} : {ret} :={' do' if self.monadic else ''}\n{body}"


# ---------------------------------------------------------------------------------------------- specs
DIST = {"self.distribution.cdf": dict(lean="dist_cdf", arg=RAT, ret=RAT), "self.distribution.ppf": dict(lean="dist_ppf", arg=RAT, ret=RAT)}
GAMMA = {"scipy.stats.gamma.cdf": dict(lean="gamma_cdf", arg=RAT, ret=RAT), "scipy.stats.gamma.ppf": dict(lean="gamma_ppf", arg=RAT, ret=RAT)}
FIT = {"self.distribution.fit": "dist_fit"}
U = "Rat → Rat → Rat"
OPQ = ("P", "K", "D")

SPECS = [
    # ---- hurdle model
    dict(file=MU, cls=HURDLE, func="fit", lean="hurdle_fit", tparams="{P K : Type}", pyargs=["self", "data"], vararg=None,
         params={"dist_fit": "List Rat → Option K → P", "self_fit_kwds": "Option K", "data": "List Rat"}, ret=(RAT, "P"),
         fitcall=FIT, opaque=OPQ),
    dict(file=MU, cls=HURDLE, func="cdf", lean="hurdle_cdf", tparams="{P : Type}", pyargs=["self", "x"], vararg="fit", elem=("x",),
         params={"dist_cdf": "Rat → P → Rat", "uniform": U, "self_cdf_randomization": BOOL, "x": RAT, "fit": (RAT, "P")}, ret=RAT,
         dist=DIST, opaque=OPQ),
    dict(file=MU, cls=HURDLE, func="ppf", lean="hurdle_ppf", tparams="{P : Type}", pyargs=["self", "q"], vararg="fit", elem=("q",),
         params={"dist_ppf": "Rat → P → Rat", "q": RAT, "fit": (RAT, "P")}, ret=RAT, dist=DIST, opaque=OPQ),
    # ---- ignore-zeros model
    dict(file=MU, cls=IZ, func="fit", lean="iz_fit", tparams="{P K : Type}", pyargs=["self", "data"], vararg=None,
         params={"dist_fit": "List Rat → Option K → P", "self_fit_kwds": "Option K", "data": "List Rat"}, ret="P",
         fitcall=FIT, opaque=OPQ),
    dict(file=MU, cls=IZ, func="cdf", lean="iz_cdf", tparams="{P : Type}", pyargs=["self", "x"], vararg="fit", elem=("x",),
         params={"dist_cdf": "Rat → P → Rat", "x": RAT, "fit": "P"}, ret=ERAT, dist=DIST, opaque=OPQ),
    dict(file=MU, cls=IZ, func="ppf", lean="iz_ppf", tparams="{P : Type}", pyargs=["self", "q"], vararg="fit", elem=("q",),
         params={"dist_ppf": "ERat → P → Rat", "q": ERAT, "fit": "P"}, ret=RAT,
         dist={"self.distribution.ppf": dict(lean="dist_ppf", arg=ERAT, ret=RAT)}, opaque=OPQ),
    # ---- left-censored gamma model
    dict(file=MU, cls=CENS, func="fit", lean="cens_fit", tparams="{P : Type}", pyargs=["self", "data"], vararg=None,
         params={"fit_censored_gamma": "List Rat → Int → Rat → P", "self_censoring_threshold": RAT, "data": "List Rat"}, ret="P",
         extern={CENS + "._fit_censored_gamma": dict(lean="fit_censored_gamma", args=["List Rat", INT, RAT], ret="P")}, opaque=OPQ),
    dict(file=MU, cls=CENS, func="cdf", lean="cens_cdf", tparams="{P : Type}", pyargs=["self", "x"], vararg="fit", elem=("x",),
         params={"gamma_cdf": "Rat → P → Rat", "uniform": U, "self_censoring_threshold": RAT, "x": RAT, "fit": "P"}, ret=RAT,
         dist=GAMMA, opaque=OPQ),
    dict(file=MU, cls=CENS, func="ppf", lean="cens_ppf", tparams="{P : Type}", pyargs=["self", "q"], vararg="fit", elem=("q",),
         params={"gamma_ppf": "Rat → P → Rat", "self_censoring_threshold": RAT, "self_censor_in_ppf": BOOL, "q": RAT, "fit": "P"},
         ret=RAT, dist=GAMMA, opaque=OPQ),
    # ---- the factory
    dict(file=VA, cls=None, func="map_standard_precipitation_method", lean="map_standard", tparams="{D K : Type} [DecidableEq D]",
         pyargs=["model_type", "amounts_distribution", "censoring_threshold", "hurdle_model_randomization",
                 "hurdle_model_kwds_for_distribution_fit"], vararg=None, defaults_ok=True, partial_div=True,
         params={"scipy_stats_gamma": "D", "model_type": STR, "amounts_distribution": "D", "censoring_threshold": RAT,
                 "hurdle_model_randomization": BOOL, "hurdle_model_kwds_for_distribution_fit": "K"},
         ret="Built D K", opaque=OPQ, consts={"scipy.stats.gamma": "scipy_stats_gamma"},
         ctors={
             "utils." + CENS: dict(lean="Built.censored", cls=CENS, ret="Built D K",
                                   types={"censoring_threshold": RAT, "censor_in_ppf": BOOL}),
             "utils." + HURDLE: dict(lean="Built.hurdle", cls=HURDLE, ret="Built D K",
                                     types={"distribution": "D", "fit_kwds": "Option K", "cdf_randomization": BOOL}),
             "utils." + IZ: dict(lean="Built.ignoreZeros", cls=IZ, ret="Built D K",
                                 types={"distribution": "D", "fit_kwds": "Option K"}),
         }),
]


def lstr(s):
    return '"' + s.replace("\\", "\\\\").replace('"', '\\"').replace("\n", " ") + '"'


def field_table(trees):
    """(class.field, default source, validators source) of the three classes + (factory.param, default source)"""
    rows = []
    for cls in (IZ, HURDLE, CENS):
        for (n, d, vals) in class_fields(trees[MU], cls):
            rows.append((f"{cls}.{n}", ast.unparse(d) if d is not None else "<none>", "; ".join(ast.unparse(v) for v in vals)))
    fn = find_function(trees[VA], None, "map_standard_precipitation_method")
    a = fn.args
    if len(a.defaults) != len(a.args):
        raise Untranslatable("map_standard_precipitation_method: every parameter is expected to have a default")
    for p, d in zip(a.args, a.defaults):
        rows.append((f"map_standard_precipitation_method.{p.arg}", ast.unparse(d), ""))
    return rows


def generate(repo):
    errors = []
    out = ["", "import IbicusModel.Model.Py", "import IbicusModel.Model.PrecipBuilt", "", "namespace Gen.Precip", "open Model.Precip", ""]
    trees = {}
    try:
        for rel in (MU, VA):
            trees[rel] = ast.parse(open(os.path.join(repo, rel)).read())
    except (OSError, SyntaxError) as ex:
        errors.append(f"untranslatable:precip: {type(ex).__name__} {ex}")
        out.append("end Gen.Precip")
        return "\n".join(out) + "\n", errors
    fields = {}
    try:
        fields = {cls: class_fields(trees[MU], cls) for cls in (IZ, HURDLE, CENS)}
        rows = field_table(trees)
        out.append("/-- attrs fields of the three model classes (class.field, default, validators) and the defaults of the factory's parameters, as source text -/")
        out.append("def field_table : List (String × String × String) := [")
        out.append(",\n".join(f"  ({lstr(a)}, {lstr(b)}, {lstr(c)})" for a, b, c in rows) + "\n]")
        out.append("")
    except Untranslatable as ex:
        errors.append(f"untranslatable:field_table: {ex}")
    for sp in SPECS:
        sp = dict(sp, fields=fields)
        try:
            node = find_function(trees[sp["file"]], sp.get("cls"), sp["func"])
            # `@staticmethod` etc. on the translated methods is a shape change
            text = ElemFn(sp, node, {}).translate()
            out.append(f"/-- generated from `{sp['file']}`: `{(sp.get('cls') + '.') if sp.get('cls') else ''}{sp['func']}` (element-wise reading) -/")
            out.append(text)
        except Untranslatable as ex:
            errors.append(f"untranslatable:{sp['lean']}: {ex}")
    out.append("end Gen.Precip")
    return "\n".join(out) + "\n", errors


if __name__ == "__main__":
    text, errs = generate(sys.argv[1] if len(sys.argv) > 1 else "/repo")
    print(text)
    print(errs)
