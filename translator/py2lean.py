"""
Tier-A translator: Python AST -> Lean 4 for the straight-line arithmetic / decision
kernels of ibicus (DESIGN.md §2.2).  Regenerates lean/IbicusModel/Gen/*.lean from the
*current* text of /repo on every run.

Supported subset (anything else raises Untranslatable, which the checks treat as a broken tie):
  names, self.<attr> (-> parameter self_<attr>), int/float literals (floats become exact rationals),
  + - * / // %, unary -, comparisons, and/or/not, if/elif/else (returning or assigning), walrus,
  tuple returns, list comprehensions, self._method(...) calls to other translated methods,
  np.arange / np.min / np.max / X.min() / X.max() / X.size / np.mod / np.isin / np.where(..)[0] /
  np.mean / np.isclose / np.round / round / np.array([..]) / X[mask] / X[mask] = v / X.any(),
  `raise` (function then returns `Except String _`).

Semantics assumed (trusted base): Python `//`, `%` on ints are floor division (equal to Lean's Int `/`, `%`
for the positive divisors that occur); `/` is exact rational division; `round`/`np.round` round half to even;
np.isclose uses rtol=1e-5, atol=1e-8.
"""
import ast
import textwrap
from fractions import Fraction


class Untranslatable(Exception):
    pass


class Unbound(Untranslatable):
    """a local that is assigned somewhere in the function but not on this path (Python: UnboundLocalError)"""


INT, RAT, BOOL, PROP, STR = "Int", "Rat", "Bool", "Prop", "String"


def LIST(t):
    return "List " + (f"({t})" if " " in t else t)


def is_list(t):
    return isinstance(t, str) and t.startswith("List ")


def elem(t):
    t = t[5:]
    return t[1:-1] if t.startswith("(") and t.endswith(")") else t


class Fn:
    def __init__(self, spec, node, registry):
        self.spec = spec
        self.node = node
        self.registry = registry
        self.has_raise = any(isinstance(n, ast.Raise) for n in ast.walk(node))
        self.counter = 0
        # --- additive options (C18/C20): partial division, per-location ("column") reading, extern calls
        # spec["partial_div"]: every `/` is `Py.divE` (error "div0" where numpy yields inf/NaN); the function then
        # returns `Except String _` and its body is a `do` block. The wrapping is applied only when the source
        # actually divides / raises / calls a wrapped callee ("auto"), so a division that appears in a function
        # modelled as total changes the generated *type* and the `Gen = Model` theorem stops checking.
        self.extern = spec.get("extern", {})
        self.column = bool(spec.get("column"))
        self.assigned = {
            t.id for n in ast.walk(node) if isinstance(n, ast.Assign) for t in n.targets if isinstance(t, ast.Name)
        }
        self.monadic = False
        if spec.get("partial_div"):
            has_div = any(isinstance(n, ast.BinOp) and isinstance(n.op, ast.Div) for n in ast.walk(node))
            calls_wrapped = False
            for n in ast.walk(node):
                if isinstance(n, ast.Call):
                    nm = n.func.id if isinstance(n.func, ast.Name) else (n.func.attr if isinstance(n.func, ast.Attribute) else None)
                    cal = registry.get(nm)
                    if cal is not None and cal.wrap:
                        calls_wrapped = True
            self.monadic = has_div or calls_wrapped or self.has_raise or bool(spec.get("unbound_local_error"))
        self.wrap = self.has_raise or self.monadic

    # ------------------------------------------------------------------ expressions
    def fresh(self, base="t"):
        self.counter += 1
        return f"{base}_{self.counter}"

    def coerce(self, s, t, want):
        if t == want:
            return s
        if t == INT and want == RAT:
            return f"(({s} : Int) : Rat)"
        if t == PROP and want == BOOL:
            return f"(decide {s})"
        if t == BOOL and want == PROP:
            return f"({s} = true)"
        if t == LIST(INT) and want == LIST(RAT):
            return f"(({s}).map (fun (z : Int) => (z : Rat)))"
        raise Untranslatable(f"cannot coerce {t} to {want}: {s}")

    def unify_num(self, a, ta, b, tb):
        if ta == tb:
            return a, b, ta
        if {ta, tb} == {INT, RAT}:
            return self.coerce(a, ta, RAT), self.coerce(b, tb, RAT), RAT
        raise Untranslatable(f"numeric types {ta} / {tb}")

    def expr(self, e, env, pre):
        """returns (lean string, type)"""
        if isinstance(e, ast.Constant):
            v = e.value
            if isinstance(v, bool):
                return ("true" if v else "false"), BOOL
            if isinstance(v, int):
                return f"({v} : Int)", INT
            if isinstance(v, float):
                fr = Fraction(repr(v))
                return f"(({fr.numerator} : Rat) / {fr.denominator})", RAT
            if isinstance(v, str):
                return '"' + v.replace('"', '\\"') + '"', STR
            raise Untranslatable(f"constant {v!r}")
        if isinstance(e, ast.Name):
            if e.id in env:
                return e.id, env[e.id]
            if e.id in self.assigned:
                raise Unbound(f"local {e.id} not assigned on this path")
            raise Untranslatable(f"unknown name {e.id}")
        if isinstance(e, ast.Attribute):
            # self.attr
            if isinstance(e.value, ast.Name) and e.value.id == "self":
                nm = "self_" + e.attr
                if nm in env:
                    return nm, env[nm]
                raise Untranslatable(f"self.{e.attr} is not a declared parameter")
            if e.attr == "size":
                s, t = self.expr(e.value, env, pre)
                if is_list(t):
                    return f"(({s}).length : Int)", INT
            raise Untranslatable(f"attribute {ast.unparse(e)}")
        if isinstance(e, ast.NamedExpr):
            s, t = self.expr(e.value, env, pre)
            pre.append((e.target.id, s, t))
            env[e.target.id] = t
            return e.target.id, t
        if isinstance(e, ast.UnaryOp):
            s, t = self.expr(e.operand, env, pre)
            if isinstance(e.op, ast.USub):
                return f"(-{s})", t
            if isinstance(e.op, ast.Not):
                if t == BOOL:
                    return f"(!{s})", BOOL
                return f"(¬ {self.coerce(s, t, PROP)})", PROP
            raise Untranslatable("unary op")
        if isinstance(e, ast.BinOp):
            a, ta = self.expr(e.left, env, pre)
            b, tb = self.expr(e.right, env, pre)
            return self.binop(e.op, a, ta, b, tb, pre)
        if isinstance(e, ast.BoolOp):
            parts = []
            for k, v in enumerate(e.values):
                n0 = len(pre)
                parts.append(self.expr(v, env, pre))
                if k > 0 and any(len(p) == 4 for p in pre[n0:]):
                    raise Untranslatable("partial operation in a short-circuited operand")
            op = " ∧ " if isinstance(e.op, ast.And) else " ∨ "
            return "(" + op.join(self.coerce(s, t, PROP) for s, t in parts) + ")", PROP
        if isinstance(e, ast.Compare):
            if len(e.ops) != 1:
                raise Untranslatable("chained comparison")
            a, ta = self.expr(e.left, env, pre)
            b, tb = self.expr(e.comparators[0], env, pre)
            return self.compare(e.ops[0], a, ta, b, tb)
        if isinstance(e, ast.Tuple):
            parts = [self.expr(v, env, pre) for v in e.elts]
            return "(" + ", ".join(self.val(s, t) for s, t in parts) + ")", tuple(self.valt(t) for _, t in parts)
        if isinstance(e, ast.IfExp):
            c, tc = self.expr(e.test, env, pre)
            n0 = len(pre)
            a, ta = self.expr(e.body, env, pre)
            b, tb = self.expr(e.orelse, env, pre)
            if any(len(p) == 4 for p in pre[n0:]):
                raise Untranslatable("partial operation inside a conditional expression")
            a, b, t = self.unify_num(a, ta, b, tb)
            return f"(if {self.coerce(c, tc, PROP)} then {a} else {b})", t
        if isinstance(e, ast.ListComp):
            if len(e.generators) != 1 or e.generators[0].ifs:
                raise Untranslatable("list comprehension shape")
            g = e.generators[0]
            it, tit = self.expr(g.iter, env, pre)
            if not is_list(tit) or not isinstance(g.target, ast.Name):
                raise Untranslatable("list comprehension iterable")
            env2 = dict(env)
            env2[g.target.id] = elem(tit)
            pre2 = []
            body, tb = self.expr(e.elt, env2, pre2)
            if pre2:
                raise Untranslatable("walrus inside comprehension")
            body, tb = self.val(body, tb), self.valt(tb)
            return f"(({it}).map (fun {g.target.id} => {body}))", LIST(tb)
        if isinstance(e, ast.Subscript):
            return self.subscript(e, env, pre)
        if isinstance(e, ast.Call):
            return self.call(e, env, pre)
        raise Untranslatable(f"expression {ast.dump(e)[:80]}")

    def val(self, s, t):
        return self.coerce(s, t, BOOL) if t == PROP else s

    def valt(self, t):
        return BOOL if t == PROP else t

    def binop(self, op, a, ta, b, tb, pre=None):
        # broadcasting list (op) scalar
        if is_list(ta) and not is_list(tb):
            x = self.fresh("x")
            s, t = self.binop(op, x, elem(ta), b, tb)
            return f"(({a}).map (fun {x} => {self.val(s, t)}))", LIST(self.valt(t))
        if is_list(tb) and not is_list(ta):
            x = self.fresh("x")
            s, t = self.binop(op, a, ta, x, elem(tb))
            return f"(({b}).map (fun {x} => {self.val(s, t)}))", LIST(self.valt(t))
        if is_list(ta) and is_list(tb):
            x, y = self.fresh("x"), self.fresh("y")
            s, t = self.binop(op, x, elem(ta), y, elem(tb))
            return f"(List.zipWith (fun {x} {y} => {self.val(s, t)}) ({a}) ({b}))", LIST(self.valt(t))
        if isinstance(op, (ast.BitAnd, ast.BitOr)):
            a, b = self.coerce(a, ta, BOOL), self.coerce(b, tb, BOOL)
            return f"({a} {'&&' if isinstance(op, ast.BitAnd) else '||'} {b})", BOOL
        if isinstance(op, (ast.Add, ast.Sub, ast.Mult)):
            a, b, t = self.unify_num(a, ta, b, tb)
            o = {ast.Add: "+", ast.Sub: "-", ast.Mult: "*"}[type(op)]
            return f"({a} {o} {b})", t
        if isinstance(op, ast.Div):
            if self.monadic:
                # partial division: bound in the enclosing `do` block (never inside a broadcast lambda)
                if pre is None:
                    raise Untranslatable("partial division inside a broadcast")
                t = self.fresh("t")
                pre.append((t, f"Py.divE {self.coerce(a, ta, RAT)} {self.coerce(b, tb, RAT)}", RAT, "bind"))
                return t, RAT
            return f"({self.coerce(a, ta, RAT)} / {self.coerce(b, tb, RAT)})", RAT
        if isinstance(op, ast.FloorDiv):
            if ta == INT and tb == INT:
                return f"({a} / {b})", INT
            raise Untranslatable("// on non-integers")
        if isinstance(op, ast.Mod):
            if ta == INT and tb == INT:
                return f"({a} % {b})", INT
            raise Untranslatable("% on non-integers")
        raise Untranslatable(f"binary operator {op}")

    def compare(self, op, a, ta, b, tb):
        if is_list(ta) and not is_list(tb):
            x = self.fresh("x")
            s, t = self.compare(op, x, elem(ta), b, tb)
            return f"(({a}).map (fun {x} => {self.val(s, t)}))", LIST(BOOL)
        if is_list(ta) and is_list(tb) and self.column:
            x, y = self.fresh("x"), self.fresh("y")
            s, t = self.compare(op, x, elem(ta), y, elem(tb))
            return f"(List.zipWith (fun {x} {y} => {self.val(s, t)}) ({a}) ({b}))", LIST(BOOL)
        if ta == STR and tb == STR:
            o = {ast.Eq: "=", ast.NotEq: "≠"}.get(type(op))
            if o is None:
                raise Untranslatable("string comparison")
            return f"({a} {o} {b})", PROP
        if ta in (BOOL, PROP) or tb in (BOOL, PROP):
            raise Untranslatable("comparison of booleans")
        a, b, _ = self.unify_num(a, ta, b, tb)
        o = {ast.Eq: "=", ast.NotEq: "≠", ast.Lt: "<", ast.LtE: "≤", ast.Gt: ">", ast.GtE: "≥"}.get(type(op))
        if o is None:
            raise Untranslatable("comparison operator")
        return f"({a} {o} {b})", PROP

    def subscript(self, e, env, pre):
        # np.where(mask)[0]
        if (
            isinstance(e.value, ast.Call)
            and ast.unparse(e.value.func) == "np.where"
            and len(e.value.args) == 1
            and isinstance(e.slice, ast.Constant)
            and e.slice.value == 0
        ):
            m, tm = self.expr(e.value.args[0], env, pre)
            if tm != LIST(BOOL):
                raise Untranslatable("np.where on non-mask")
            return f"(Py.whereTrue {m})", LIST("Nat")
        v, tv = self.expr(e.value, env, pre)
        if isinstance(e.slice, ast.Slice):
            sl = e.slice
            if sl.lower is None and sl.step is None and is_list(tv) and ast.unparse(sl.upper or ast.Constant(value=None)) == "-1":
                return f"(({v}).dropLast)", tv  # X[:-1]
            raise Untranslatable("slice")
        i, ti = self.expr(e.slice, env, pre)
        if is_list(tv) and ti == LIST(BOOL):
            return f"(Py.selectWhere {v} {i})", tv
        raise Untranslatable(f"subscript {ast.unparse(e)}")

    def call(self, e, env, pre):
        f = ast.unparse(e.func)
        args = e.args
        if f in self.extern:
            return self.extern_call(e, f, env, pre)
        if self.column:
            r = self.column_call(e, f, env, pre)
            if r is not None:
                return r
        if e.keywords:
            raise Untranslatable(f"keyword arguments in {f}")

        def A(i):
            return self.expr(args[i], env, pre)

        if f == "np.arange":
            parts = [A(i) for i in range(len(args))]
            if any(t != INT for _, t in parts):
                raise Untranslatable("np.arange on non-integers")
            if len(parts) == 2:
                return f"(Py.arange1 {parts[0][0]} {parts[1][0]})", LIST(INT)
            if len(parts) == 3:
                return f"(Py.arange {parts[0][0]} {parts[1][0]} {parts[2][0]})", LIST(INT)
            raise Untranslatable("np.arange arity")
        if f in ("np.min", "np.max") and len(args) == 1:
            s, t = A(0)
            if t == LIST(INT):
                return f"(Py.{'minL' if f == 'np.min' else 'maxL'} {s})", INT
            raise Untranslatable(f"{f} on {t}")
        if isinstance(e.func, ast.Attribute) and e.func.attr in ("min", "max") and not args:
            s, t = self.expr(e.func.value, env, pre)
            if t == LIST(INT):
                return f"(Py.{'minL' if e.func.attr == 'min' else 'maxL'} {s})", INT
            raise Untranslatable(f".{e.func.attr}() on {t}")
        if isinstance(e.func, ast.Attribute) and e.func.attr == "any" and not args:
            s, t = self.expr(e.func.value, env, pre)
            if t == LIST(BOOL):
                return f"(({s}).any id)", BOOL
            raise Untranslatable(".any() on non-mask")
        if isinstance(e.func, ast.Attribute) and e.func.attr == "sum" and not args:
            # (C11) mask.sum() = number of True entries; X.sum() on numeric lists
            s, t = self.expr(e.func.value, env, pre)
            if t == LIST(BOOL):
                return f"(((({s}).count true : Nat) : Int))", INT
            if t in (LIST(INT), LIST(RAT)):
                return f"(({s}).sum)", elem(t)
            raise Untranslatable(f".sum() on {t}")
        if f == "np.mod" and len(args) == 2:
            a, ta = A(0)
            b, tb = A(1)
            return self.binop(ast.Mod(), a, ta, b, tb)
        if f == "np.isin" and len(args) == 2:
            a, ta = A(0)
            b, tb = A(1)
            if ta == LIST(INT) and tb == LIST(INT):
                return f"(Py.isin {a} {b})", LIST(BOOL)
            raise Untranslatable("np.isin types")
        if f == "np.isclose" and len(args) == 2:
            a, ta = A(0)
            b, tb = A(1)
            return f"(Py.isclose {self.coerce(a, ta, RAT)} {self.coerce(b, tb, RAT)})", BOOL
        if f == "np.mean" and len(args) == 1:
            a, ta = A(0)
            if ta == LIST(RAT):
                return f"(Py.mean {a})", RAT
            raise Untranslatable("np.mean type")
        if f in ("round", "np.round") and len(args) == 1:
            a, ta = A(0)
            if ta == INT:
                return a, INT
            return f"(Py.roundHalfEven {self.coerce(a, ta, RAT)})", INT
        if f in ("np.array",) and len(args) == 1 and isinstance(args[0], ast.List):
            parts = [self.expr(x, env, pre) for x in args[0].elts]
            ts = {t for _, t in parts}
            if len(ts) != 1:
                raise Untranslatable("np.array element types")
            return "[" + ", ".join(s for s, _ in parts) + "]", LIST(ts.pop())
        if f in ("np.logical_and", "np.logical_or") and len(args) == 2:
            a, ta = A(0)
            b, tb = A(1)
            return self.binop(ast.BitAnd() if f.endswith("and") else ast.BitOr(), a, ta, b, tb)
        if f in ("np.maximum", "np.minimum", "max", "min") and len(args) == 2:
            a, ta = A(0)
            b, tb = A(1)
            a, b, t = self.unify_num(a, ta, b, tb)
            return f"({'max' if 'max' in f else 'min'} {a} {b})", t
        if f in ("np.abs", "abs") and len(args) == 1:
            a, ta = A(0)
            if ta == RAT:
                return f"(Py.absQ {a})", RAT
            raise Untranslatable("abs type")
        # call of another translated method / function
        callee = None
        if isinstance(e.func, ast.Attribute) and isinstance(e.func.value, ast.Name):
            callee = self.registry.get(e.func.attr)
        elif isinstance(e.func, ast.Name):
            callee = self.registry.get(e.func.id)
        if callee is not None:
            if callee.wrap and not self.monadic:
                raise Untranslatable(f"call of raising function {f}")
            sp = callee.spec
            self_args = [p for p in sp["params"] if p.startswith("self_")]
            for p in self_args:
                if p not in env:
                    raise Untranslatable(f"callee {f} needs {p}")
            other = [p for p in sp["params"] if not p.startswith("self_")]
            if len(other) != len(args):
                raise Untranslatable(f"arity of {f}")
            parts = []
            for p, a in zip(other, args):
                s, t = self.expr(a, env, pre)
                parts.append(self.coerce(s, t, sp["params"][p]))
            if callee.wrap:
                t = self.fresh("t")
                pre.append((t, " ".join([sp["lean"]] + self_args + parts), sp["ret"], "bind"))
                return t, sp["ret"]
            return "(" + " ".join([sp["lean"]] + self_args + parts) + ")", sp["ret"]
        raise Untranslatable(f"call {f}")

    def extern_call(self, e, f, env, pre):
        """spec["extern"][f] = dict(lean=.., args=[types], ret=type, kwargs={name: "arg" | required literal}):
        a call that is not translated but passed on to a named Lean function (usually a *parameter* of the generated
        definition, so the theorems quantify over it).  A keyword mapped to "arg" is appended positionally, a keyword
        mapped to a literal must be present with exactly that value (e.g. axis=0) and is dropped; positional arguments
        listed in `skip` are dropped (the metric object, which the Lean side represents by function parameters)."""
        ex = self.extern[f]
        kw = {k.arg: k.value for k in e.keywords}
        parts = [self.expr(a, env, pre) for k, a in enumerate(e.args) if k not in ex.get("skip", ())]
        for name, how in ex.get("kwargs", {}).items():
            if how == "arg":
                if name in kw:
                    parts.append(self.expr(kw.pop(name), env, pre))
            else:
                v = kw.pop(name, None)
                if not (isinstance(v, ast.Constant) and v.value == how and type(v.value) is type(how)):
                    raise Untranslatable(f"{f}: keyword {name}={how!r} required")
        if kw:
            raise Untranslatable(f"{f}: unexpected keywords {sorted(kw)}")
        want = ex["args"]
        if len(parts) != len(want):
            raise Untranslatable(f"arity of {f}")
        strs = [self.coerce(s, t, w) for (s, t), w in zip(parts, want)]
        return "(" + " ".join([ex["lean"]] + strs) + ")", ex["ret"]

    def column_call(self, e, f, env, pre):
        """spec["column"]: the arrays are ONE location's column of a [time, i, j] dataset (a list over time).
        Reductions over axis 0 reduce the list; `np.all` / `np.any` over the per-location results are the identity
        on the single location (the grid-level reading is modelled by hand in Model.Evaluate.gridEval)."""
        kw = {k.arg: k.value for k in e.keywords}
        args = e.args

        def axis0():
            v = kw.get("axis")
            return set(kw) == {"axis"} and isinstance(v, ast.Constant) and v.value == 0

        if f in ("np.all", "np.any") and len(args) == 1 and not kw:
            s, t = self.expr(args[0], env, pre)
            if t in (PROP, BOOL):
                return s, t
            if t == LIST(BOOL):
                return f"(({s}).{'all' if f == 'np.all' else 'any'} id)", BOOL
            raise Untranslatable(f"{f} on {t}")
        if f == "np.einsum" and len(args) == 2 and not kw and isinstance(args[0], ast.Constant) and args[0].value == "ijk -> jk":
            s, t = self.expr(args[1], env, pre)
            if t in (LIST(INT), LIST(RAT)):
                return f"(({s}).sum)", elem(t)
            raise Untranslatable(f"np.einsum on {t}")
        if f == "np.sum" and len(args) == 1 and axis0():
            s, t = self.expr(args[0], env, pre)
            if t in (LIST(INT), LIST(RAT)):
                return f"(({s}).sum)", elem(t)
            raise Untranslatable(f"np.sum on {t}")
        if f == "np.stack" and len(args) == 1 and axis0():
            s, t = self.expr(args[0], env, pre)
            if t in (LIST(INT), LIST(RAT)):
                return s, t  # a list of per-location scalars stacked along axis 0 is that list
            raise Untranslatable(f"np.stack on {t}")
        if f == "np.cumsum" and len(args) == 1 and not kw:
            s, t = self.expr(args[0], env, pre)
            if t == LIST(INT):
                return f"(Py.cumsum {s})", t
            raise Untranslatable(f"np.cumsum on {t}")
        if f == "np.split" and len(args) == 2 and axis0():
            s, t = self.expr(args[0], env, pre)
            i, ti = self.expr(args[1], env, pre)
            if is_list(t) and ti == LIST(INT):
                return f"(Py.splitAtIdx {s} {i})", LIST(t)
            raise Untranslatable(f"np.split on {t} / {ti}")
        if f == "len" and len(args) == 1 and not kw:
            s, t = self.expr(args[0], env, pre)
            if is_list(t):
                return f"((({s}).length : Nat) : Int)", INT
            raise Untranslatable(f"len of {t}")
        if isinstance(e.func, ast.Attribute) and e.func.attr == "astype" and len(args) == 1 and not kw and ast.unparse(args[0]) == "int":
            s, t = self.expr(e.func.value, env, pre)
            if t == LIST(BOOL):
                return f"(({s}).map (fun b => if b then (1 : Int) else 0))", LIST(INT)
            raise Untranslatable(f".astype(int) on {t}")
        return None

    # ------------------------------------------------------------------ statements
    def ret_wrap(self, s):
        return f"(.ok {s})" if self.wrap else s

    def block(self, stmts, env, ind):
        """translate a statement list that ends every path with return/raise"""
        if not stmts:
            raise Untranslatable("path without return")
        st, rest = stmts[0], stmts[1:]
        pad = " " * ind
        pre = []
        if isinstance(st, ast.Expr) and isinstance(st.value, ast.Constant) and isinstance(st.value.value, str):
            return self.block(rest, env, ind)  # docstring
        if isinstance(st, ast.Pass):
            return self.block(rest, env, ind)
        if isinstance(st, ast.Expr) and isinstance(st.value, ast.Call) and "warn" in ast.unparse(st.value.func):
            return self.block(rest, env, ind)  # warnings are not part of the arithmetic kernel
        if isinstance(st, ast.Return):
            try:
                s, t = self.expr(st.value, env, pre)
            except Unbound:
                if not self.wrap:
                    raise
                return pad + '(.error "UnboundLocalError")\n'
            want = self.spec["ret"]
            if isinstance(want, str):
                s = self.coerce(s, t, want) if t != want else s
            return self.lets(pre, pad) + pad + self.ret_wrap(s) + "\n"
        if isinstance(st, ast.Raise):
            exc = st.exc.func.id if isinstance(st.exc, ast.Call) else ast.unparse(st.exc)
            return pad + f'(.error "{exc}")\n'
        if self.column and isinstance(st, ast.Assign) and len(st.targets) == 1:
            tg0, v0 = st.targets[0], st.value
            # `u, counts = np.unique(x, return_counts=True)`
            if (isinstance(tg0, ast.Tuple) and len(tg0.elts) == 2 and all(isinstance(x, ast.Name) for x in tg0.elts)
                    and isinstance(v0, ast.Call) and ast.unparse(v0.func) == "np.unique" and len(v0.args) == 1
                    and [(k.arg, ast.unparse(k.value)) for k in v0.keywords] == [("return_counts", "True")]):
                s, t = self.expr(v0.args[0], env, pre)
                if t != LIST(INT):
                    raise Untranslatable("np.unique on " + t)
                env = dict(env)
                out = self.lets(pre, pad)
                if tg0.elts[0].id != "_":
                    env[tg0.elts[0].id] = LIST(INT)
                    out += pad + f"let {tg0.elts[0].id} : List Int := Py.uniqueSorted {s}\n"
                env[tg0.elts[1].id] = LIST(INT)
                out += pad + f"let {tg0.elts[1].id} : List Int := Py.uniqueCounts {s}\n"
                return out + self.block(rest, env, ind)
            # `X = list()` directly followed by `for i in range(len(Y)): X.append(E)` with Y used as Y[i] only
            if (isinstance(tg0, ast.Name) and isinstance(v0, ast.Call) and ast.unparse(v0) in ("list()", "[]") and rest
                    and isinstance(rest[0], ast.For)):
                loop = rest[0]
                ok = (isinstance(loop.target, ast.Name) and not loop.orelse and len(loop.body) == 1
                      and isinstance(loop.iter, ast.Call) and ast.unparse(loop.iter.func) == "range" and len(loop.iter.args) == 1
                      and isinstance(loop.iter.args[0], ast.Call) and ast.unparse(loop.iter.args[0].func) == "len"
                      and len(loop.iter.args[0].args) == 1 and isinstance(loop.iter.args[0].args[0], ast.Name))
                body = loop.body[0] if ok else None
                ok = ok and (isinstance(body, ast.Expr) and isinstance(body.value, ast.Call)
                             and ast.unparse(body.value.func) == tg0.id + ".append" and len(body.value.args) == 1 and not body.value.keywords)
                if not ok:
                    raise Untranslatable("for loop shape: " + ast.unparse(loop)[:60])
                i, Y = loop.target.id, loop.iter.args[0].args[0].id
                if Y not in env or not is_list(env[Y]):
                    raise Untranslatable(f"loop over len({Y})")
                y = self.fresh("y")

                class Sub(ast.NodeTransformer):
                    def visit_Subscript(self, n):
                        if isinstance(n.value, ast.Name) and n.value.id == Y and isinstance(n.slice, ast.Name) and n.slice.id == i:
                            return ast.Name(id=y)
                        return self.generic_visit(n)

                E = Sub().visit(ast.parse(ast.unparse(body.value.args[0]), mode="eval").body)
                if any(isinstance(n, ast.Name) and n.id in (i, Y, tg0.id) for n in ast.walk(E)):
                    raise Untranslatable("loop body uses the index / the lists other than as Y[i]")
                env2 = dict(env)
                env2[y] = elem(env[Y])
                pre2 = []
                b, tb = self.expr(E, env2, pre2)
                if pre2:
                    raise Untranslatable("walrus / partial operation inside loop body")
                b, tb = self.val(b, tb), self.valt(tb)
                env = dict(env)
                env[tg0.id] = LIST(tb)
                return pad + f"let {tg0.id} : {LIST(tb)} := (({Y}).map (fun {y} => {b}))\n" + self.block(rest[1:], env, ind)
        if isinstance(st, ast.Assign):
            if len(st.targets) != 1:
                raise Untranslatable("multiple assignment targets")
            tg = self.self_target(st.targets[0])
            if isinstance(tg, ast.Name):
                s, t = self.expr(st.value, env, pre)
                s, t = self.val(s, t), self.valt(t)
                env = dict(env)
                env[tg.id] = t
                return self.lets(pre, pad) + pad + f"let {tg.id} : {self.tstr(t)} := {s}\n" + self.block(rest, env, ind)
            if isinstance(tg, ast.Subscript) and isinstance(tg.value, ast.Name):
                # X[mask] = v
                x = tg.value.id
                m, tm = self.expr(tg.slice, env, pre)
                v, tv = self.expr(st.value, env, pre)
                if x in env and is_list(env[x]) and tm == LIST(BOOL) and tv == elem(env[x]):
                    return (
                        self.lets(pre, pad)
                        + pad
                        + f"let {x} : {env[x]} := Py.setWhere {x} {m} {v}\n"
                        + self.block(rest, env, ind)
                    )
            raise Untranslatable(f"assignment {ast.unparse(st)}")
        if isinstance(st, ast.If):
            c, tc = self.expr(st.test, env, pre)
            c = self.coerce(c, tc, PROP)
            body_returns = self.all_paths_return(st.body)
            else_returns = self.all_paths_return(st.orelse) if st.orelse else False
            out = self.lets(pre, pad)
            env = dict(env)
            if body_returns:
                out += pad + f"if {c} then\n" + self.block(st.body, dict(env), ind + 2)
                out += pad + "else\n" + self.block(list(st.orelse) + rest, dict(env), ind + 2)
                return out
            if else_returns:
                out += pad + f"if ¬ {c} then\n" + self.block(st.orelse, dict(env), ind + 2)
                out += pad + "else\n" + self.block(list(st.body) + rest, dict(env), ind + 2)
                return out
            if self.monadic:
                # `do` block: the continuation is copied into both branches (binds stay in do-sequences)
                out += pad + f"if {c} then\n" + self.block(list(st.body) + rest, dict(env), ind + 2)
                out += pad + "else\n" + self.block(list(st.orelse) + rest, dict(env), ind + 2)
                return out
            # pure assignment branches: collect assigned names
            names = []
            for n in list(st.body) + list(st.orelse):
                for a in ast.walk(n):
                    if isinstance(a, ast.Assign):
                        for t in a.targets:
                            t = self.self_target(t)
                            if isinstance(t, ast.Name) and t.id not in names:
                                names.append(t.id)
                            elif isinstance(t, ast.Subscript) and isinstance(t.value, ast.Name) and t.value.id not in names:
                                names.append(t.value.id)
                    if isinstance(a, (ast.Return, ast.Raise)):
                        raise Untranslatable("partial return inside if")
            # (C11) a name assigned on one branch only and unknown before the `if` is local to that branch: it is
            # not exported (a later use then raises `unknown name`, as Python would raise NameError on the other path)
            def _assigned_in(stmts, nm):
                for s_ in stmts:
                    for a in ast.walk(s_):
                        if isinstance(a, ast.Assign):
                            for t in a.targets:
                                t = self.self_target(t)
                                if isinstance(t, ast.Name) and t.id == nm:
                                    return True
                                if isinstance(t, ast.Subscript) and isinstance(t.value, ast.Name) and t.value.id == nm:
                                    return True
                return False

            both = [n for n in names if n in env or (_assigned_in(st.body, n) and _assigned_in(st.orelse, n))]
            if both:
                names = both
            b1, env1 = self.assign_block(st.body, dict(env), ind + 2, names)
            b2, env2 = self.assign_block(st.orelse, dict(env), ind + 2, names)
            for n in names:
                if env1.get(n) != env2.get(n):
                    raise Untranslatable(f"variable {n} typed differently in branches")
                env[n] = env1[n]
            tup = "(" + ", ".join(names) + ")" if len(names) > 1 else names[0]
            out += pad + f"let {tup} := (if {c} then\n{b1}{pad}else\n{b2}{pad})\n"
            return out + self.block(rest, env, ind)
        raise Untranslatable(f"statement {type(st).__name__}: {ast.unparse(st)[:60]}")

    def assign_block(self, stmts, env, ind, names):
        pad = " " * ind
        out = ""
        for st in stmts:
            pre = []
            if isinstance(st, ast.Pass):
                continue
            if isinstance(st, ast.Expr) and isinstance(st.value, ast.Call) and "warn" in ast.unparse(st.value.func):
                continue  # warnings are not part of the arithmetic kernel
            if not (isinstance(st, ast.Assign) and len(st.targets) == 1 and isinstance(self.self_target(st.targets[0]), ast.Name)):
                raise Untranslatable(f"non-assignment in branch: {ast.unparse(st)[:60]}")
            tgt = self.self_target(st.targets[0]).id
            s, t = self.expr(st.value, env, pre)
            s, t = self.val(s, t), self.valt(t)
            env[tgt] = t
            out += self.lets(pre, pad) + pad + f"let {tgt} : {self.tstr(t)} := {s}\n"
        for n in names:
            if n not in env:
                raise Untranslatable(f"{n} undefined on one branch")
        tup = "(" + ", ".join(names) + ")" if len(names) > 1 else names[0]
        return out + pad + tup + "\n", env

    @staticmethod
    def self_target(t):
        if isinstance(t, ast.Attribute) and isinstance(t.value, ast.Name) and t.value.id == "self":
            return ast.Name(id="self_" + t.attr)
        return t

    def all_paths_return(self, stmts):
        if not stmts:
            return False
        last = stmts[-1]
        if isinstance(last, (ast.Return, ast.Raise)):
            return True
        if isinstance(last, ast.If) and last.orelse:
            return self.all_paths_return(last.body) and self.all_paths_return(last.orelse)
        return False

    def lets(self, pre, pad):
        return "".join(
            (f"{pad}let {p[0]} ← {p[1]}\n" if len(p) == 4 else f"{pad}let {p[0]} : {self.tstr(p[2])} := {p[1]}\n") for p in pre
        )

    def tstr(self, t):
        if isinstance(t, tuple):
            return " × ".join(self.tstr(x) for x in t)
        return t

    def translate(self):
        sp = self.spec
        env = dict(sp["params"])
        # Python parameter names that differ from the Lean ones are not supported: keep them equal
        stmts = list(self.node.body)
        if sp.get("returns_self"):
            stmts.append(ast.parse("return (" + ", ".join("self." + a for a in sp["returns_self"]) + ("," if len(sp["returns_self"]) == 1 else "") + ")").body[0])
        body = self.block(stmts, env, 2)
        params = " ".join(f"({p} : {t})" for p, t in sp["params"].items())
        ret = self.tstr(sp["ret"])
        if self.wrap:
            ret = f"Except String ({ret})"
        return f"def {sp['lean']} {params} : {ret} :={' do' if self.monadic else ''}\n{body}"


def find_function(tree, cls, func):
    for n in tree.body:
        if cls is None and isinstance(n, ast.FunctionDef) and n.name == func:
            return n
        if cls is not None and isinstance(n, ast.ClassDef) and n.name == cls:
            for m in n.body:
                if isinstance(m, ast.FunctionDef) and m.name == func:
                    return m
    raise Untranslatable(f"function {cls}.{func} not found")


def translate_group(repo, specs, namespace, header=""):
    """specs: list of dict(file, cls, func, lean, params{name: type}, ret). Returns (lean_text, errors)."""
    registry = {}
    out = [header, "import IbicusModel.Model.Py", "", f"namespace {namespace}", ""]
    errors = []
    trees = {}
    for sp in specs:
        try:
            if sp["file"] not in trees:
                trees[sp["file"]] = ast.parse(open(f"{repo}/{sp['file']}").read())
            node = find_function(trees[sp["file"]], sp.get("cls"), sp["func"])
            fn = Fn(sp, node, registry)
            text = fn.translate()
            registry[sp["func"]] = fn
            out.append(f"/-- generated from `{sp['file']}`: `{(sp.get('cls') + '.') if sp.get('cls') else ''}{sp['func']}` -/")
            out.append(text)
        except Untranslatable as ex:
            errors.append(f"untranslatable:{sp['func']}: {ex}")
        except (OSError, SyntaxError) as ex:
            errors.append(f"untranslatable:{sp['func']}: {type(ex).__name__} {ex}")
    out.append(f"end {namespace}")
    return "\n".join(out) + "\n", errors
