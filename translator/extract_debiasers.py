"""
Tier-A extractor for the per-window transfer functions of the debiasers (C01-C04, C06, C09, C10): the *dataflow* of each
function (CDFt mapping and SSR steps, ECDFM, QDM steps, QuantileMapping, SDM absolute and relative), regenerated from /repo's current AST as a program of the DSL of lean/IbicusModel/Model/NpDeb.lean.

A function is executed *symbolically*:
  * every `if self.<setting> == "<literal>"` / `if self.<flag>:` forks the execution; the result is the list of leaves of the
    decision tree in depth-first order (taken branch first), each with its conditions, its bindings and its result (or the class
    it raises);
  * an assignment `name = <expr>` appends the binding `loc k := <expr>` (k = number of bindings made so far on the path) and
    maps `name` to `loc k`; `name = other_name` is an alias (no binding).  Names are resolved when they are read, so local
    variable names are not part of the program; which *value* flows where is;
  * `x[mask] = v` appends `loc k := setMask(x, mask, v)` and re-maps `x` (only for an unaliased local array);
  * calls of methods of the same class (`self._f(...)`, `Cls._f(...)`) are inlined (their forks multiply the paths);
  * the library toolkit (`ecdf`, `iecdf`, `threshold_cdf_vals`, `quantile_map_non_parametically_with_constant_extrapolation`,
    `interp_sorted_cdf_vals_on_given_length`, `self.distribution.fit/cdf/ppf`, `scipy.signal.detrend`) are opaque primitives;
    keyword arguments are bound through the *current* signature of the primitive in /repo (read from the AST and compared with
    the signature the DSL's denotation was written for), the `method=` keyword is part of the expression;
  * `np.random.uniform` calls are numbered in execution order;
  * an `if` whose test reads no setting is a test on DATA and must have one of two shapes (no `else`):
    `if <cond>: raise Cls(...)` becomes the statement `raiseIf(<cond>, Cls)` of the path, and
    `if <cond>: name = <expr>` becomes the binding `name := ite(<cond>, <expr>, <old value of name>)`
    (`logger = get_library_logger()` / `logger.warning(...)` inside such a body are not part of the dataflow);
  * `x[:k] = v`, `x[k:] = y` (on an unaliased local array) and `y[k:]` are the only slices.
Not part of the identity: docstrings, comments, type annotations, `**kwargs` in a signature, local variable names, the message
of a raised exception.  Everything else that does not have one of the expected shapes raises `Untranslatable` (reported as a
broken tie); the extractor never guesses.
"""
import ast
import copy
import os
from fractions import Fraction


class Untranslatable(Exception):
    pass


# ------------------------------------------------------------------ the functions that are regenerated
SPECS = [
    dict(file="ibicus/debias/_cdft.py", cls="CDFt", func="_apply_CDFt_mapping", lean="cdft_apply_CDFt_mapping"),
    dict(file="ibicus/debias/_ecdfm.py", cls="ECDFM", func="apply_on_window", lean="ecdfm_apply_on_window"),
    dict(file="ibicus/debias/_quantile_delta_mapping.py", cls="QuantileDeltaMapping", func="_apply_debiasing_steps",
         lean="qdm_apply_debiasing_steps"),
    dict(file="ibicus/debias/_quantile_delta_mapping.py", cls="QuantileDeltaMapping", func="_get_obs_and_cm_hist_fits",
         lean="qdm_get_obs_and_cm_hist_fits"),
    dict(file="ibicus/debias/_quantile_mapping.py", cls="QuantileMapping", func="_standard_qm", lean="qm_standard_qm"),
    dict(file="ibicus/debias/_quantile_mapping.py", cls="QuantileMapping", func="apply_on_window", lean="qm_apply_on_window"),
    dict(file="ibicus/debias/_scaled_distribution_mapping.py", cls="ScaledDistributionMapping",
         func="_apply_on_window_absolute_sdm", lean="sdm_apply_on_window_absolute_sdm"),
    dict(file="ibicus/debias/_cdft.py", cls="CDFt", func="_apply_debiasing_steps", lean="cdft_apply_debiasing_steps"),
    dict(file="ibicus/debias/_scaled_distribution_mapping.py", cls="ScaledDistributionMapping",
         func="_apply_on_window_relative_sdm", lean="sdm_apply_on_window_relative_sdm"),
]

# the signatures of the toolkit the denotation in Model/NpDeb.lean was written for: (file, [(param, default-source | None)], **kwargs?)
PRIMITIVES = {
    "ecdf": ("ibicus/utils/_math_utils.py", [("x", None), ("y", None), ("method", "'step_function'")], False),
    "iecdf": ("ibicus/utils/_math_utils.py", [("x", None), ("p", None), ("method", "'inverted_cdf'")], True),
    "quantile_map_non_parametically_with_constant_extrapolation": (
        "ibicus/utils/_math_utils.py",
        [("x", None), ("y", None), ("vals", None), ("ecdf_method", "'step_function'"), ("iecdf_method", "'inverted_cdf'")], True),
    "threshold_cdf_vals": ("ibicus/utils/_utils.py", [("cdf_vals", None), ("cdf_threshold", "1e-10")], False),
    "interp_sorted_cdf_vals_on_given_length": ("ibicus/utils/_utils.py", [("cdf_vals", None), ("interpolation_length", None)], False),
}
UTILS_IMPORT = ("..utils", 2)  # `from ..utils import …` (module "utils", level 2)

NP_UN = {"mean": "mean", "abs": "abs", "sign": "sign", "sort": "sort", "argsort": "argsort", "logical_not": "lnot"}
BINOPS = {ast.Add: "add", ast.Sub: "sub", ast.Mult: "mul", ast.Div: "div"}
CMPOPS = {ast.Lt: "lt", ast.LtE: "le", ast.Gt: "gt", ast.GtE: "ge", ast.Eq: "eq"}


# ------------------------------------------------------------------ module facts
class Module:
    def __init__(self, repo, rel):
        self.rel = rel
        self.tree = ast.parse(open(os.path.join(repo, rel)).read())
        self.imported = {}  # local name -> (module, level, original name) | ("import", module)
        rebound = set()
        for n in self.tree.body:
            if isinstance(n, ast.ImportFrom):
                for a in n.names:
                    self.imported[a.asname or a.name] = (n.module, n.level, a.name)
            elif isinstance(n, ast.Import):
                for a in n.names:
                    self.imported[a.asname or a.name.split(".")[0]] = ("import", a.name)
            elif isinstance(n, (ast.FunctionDef, ast.ClassDef)):
                rebound.add(n.name)
            elif isinstance(n, (ast.Assign, ast.AnnAssign, ast.AugAssign)):
                for t in (n.targets if isinstance(n, ast.Assign) else [n.target]):
                    for m in ast.walk(t):
                        if isinstance(m, ast.Name):
                            rebound.add(m.id)
        self.rebound = rebound

    def cls(self, name):
        for n in self.tree.body:
            if isinstance(n, ast.ClassDef) and n.name == name:
                return n
        raise Untranslatable(f"{self.rel}: class {name} not found")

    def is_numpy(self, name):
        return name == "np" and self.imported.get("np") == ("import", "numpy") and "np" not in self.rebound

    def is_util(self, name):
        return self.imported.get(name) == ("utils", 2, name) and name not in self.rebound

    def is_detrend(self, name):
        return name == "detrend" and self.imported.get(name) == ("scipy.signal", 0, "detrend") and name not in self.rebound


def check_primitive_signature(repo, name):
    rel, want, want_kw = PRIMITIVES[name]
    tree = ast.parse(open(os.path.join(repo, rel)).read())
    fns = [n for n in tree.body if isinstance(n, ast.FunctionDef) and n.name == name]
    if len(fns) != 1:
        raise Untranslatable(f"{rel}: expected exactly one def {name}")
    a = fns[0].args
    if a.posonlyargs or a.kwonlyargs or a.vararg:
        raise Untranslatable(f"{name}: unexpected signature shape")
    names = [x.arg for x in a.args]
    defaults = [None] * (len(names) - len(a.defaults)) + [ast.unparse(d) for d in a.defaults]
    got = list(zip(names, defaults))
    if got != want or bool(a.kwarg) != want_kw:
        raise Untranslatable(f"{name}: signature {got} (kwargs={bool(a.kwarg)}) is not the one the model denotes {want}")
    return [p for p, _ in want]


# ------------------------------------------------------------------ symbolic state
class St:
    def __init__(self):
        self.frames = [{}]
        self.binds = []
        self.conds = []
        self.known_str = {}  # setting -> literal it equals
        self.not_str = {}  # setting -> set of literals it is known not to equal
        self.known_flag = {}
        self.ndraws = 0
        self.nlocs = 0

    def fork(self):
        return copy.deepcopy(self)


REF = ("arg", "loc")


class Extractor:
    def __init__(self, repo, spec):
        self.repo = repo
        self.mod = Module(repo, spec["file"])
        self.cls = self.mod.cls(spec["cls"])
        self.spec = spec
        self.depth = 0
        self.prim_params = {}

    # ---- helpers
    def method(self, name):
        hits = [n for n in self.cls.body if isinstance(n, ast.FunctionDef) and n.name == name]
        if len(hits) != 1:
            raise Untranslatable(f"{self.cls.name}.{name}: expected exactly one definition")
        return hits[0]

    def fn_params(self, fn):
        a = fn.args
        if a.posonlyargs or a.kwonlyargs or a.vararg:
            raise Untranslatable(f"{fn.name}: unexpected signature shape")
        decos = [ast.unparse(d) for d in fn.decorator_list]
        if decos == ["staticmethod"]:
            static = True
        elif decos == []:
            static = False
        else:
            raise Untranslatable(f"{fn.name}: unexpected decorators {decos}")
        names = [x.arg for x in a.args]
        if not static:
            if not names or names[0] != "self":
                raise Untranslatable(f"{fn.name}: first parameter is not self")
            names = names[1:]
        return names, static

    def prim(self, name):
        if name not in self.prim_params:
            self.prim_params[name] = check_primitive_signature(self.repo, name)
        return self.prim_params[name]

    @staticmethod
    def bind_call(params, call, where, required=None):
        """positional + keyword arguments of `call` bound to `params`; returns {param: node}"""
        if any(isinstance(a, ast.Starred) for a in call.args) or any(k.arg is None for k in call.keywords):
            raise Untranslatable(f"{where}: * / ** argument")
        if len(call.args) > len(params):
            raise Untranslatable(f"{where}: too many positional arguments")
        got = dict(zip(params, call.args))
        for k in call.keywords:
            if k.arg not in params or k.arg in got:
                raise Untranslatable(f"{where}: unexpected keyword {k.arg}")
            got[k.arg] = k.value
        for r in required if required is not None else params:
            if r not in got:
                raise Untranslatable(f"{where}: argument {r} missing")
        return got

    # ---- outcomes: ("val", st, v) | ("raise", st, cls)
    @staticmethod
    def bind(outs, f):
        res = []
        for o in outs:
            if o[0] == "val":
                res += f(o[1], o[2])
            else:
                res.append(o)
        return res

    def ev_list(self, nodes, st):
        outs = [("val", st, [])]
        for n in nodes:
            outs = self.bind(outs, lambda s, acc, n=n: self.bind(self.ev(n, s), lambda s2, v: [("val", s2, acc + [v])]))
        return outs

    def ev_args(self, nodes, st, f):
        """evaluate `nodes` in order and apply the pure constructor `f(*values)`"""
        return self.bind(self.ev_list(nodes, st), lambda s, vs: [("val", s, f(*vs))])

    @staticmethod
    def need_expr(v, where):
        if not (isinstance(v, tuple) and v and isinstance(v[0], str) and v[0] not in ("pytuple", "self", "setting", "dist", "lit")):
            raise Untranslatable(f"{where}: not a DSL value ({v!r:.60})")
        return v

    def self_attr(self, node):
        """`self.<name>` -> name (None if `node` is not of that shape)"""
        if isinstance(node, ast.Attribute) and isinstance(node.value, ast.Name) and node.value.id == "self":
            return node.attr
        return None

    def meth_of(self, node):
        if node is None:
            return ("default",)
        s = self.self_attr(node)
        if s is not None:
            return ("setting", s)
        if isinstance(node, ast.Constant) and isinstance(node.value, str):
            return ("lit", node.value)
        raise Untranslatable(f"method keyword of unexpected shape: {ast.unparse(node)}")

    # ---- expressions
    def ev(self, node, st):
        E = self.need_expr
        if isinstance(node, ast.Name):
            fr = st.frames[-1]
            if node.id not in fr:
                raise Untranslatable(f"name {node.id} read before assignment")
            return [("val", st, fr[node.id])]
        if isinstance(node, ast.Constant):
            if isinstance(node.value, bool) or not isinstance(node.value, (int, float)):
                raise Untranslatable(f"constant {node.value!r}")
            return [("val", st, ("num", Fraction(repr(node.value))))]
        if isinstance(node, ast.Tuple):
            return self.bind(self.ev_list(node.elts, st), lambda s, vs: [("val", s, ("pytuple", vs))])
        if isinstance(node, ast.BinOp):
            if type(node.op) not in BINOPS:
                raise Untranslatable(f"operator {type(node.op).__name__}")
            op = BINOPS[type(node.op)]
            return self.ev_args([node.left, node.right], st, lambda a, b: ("bin", op, E(a, "operand"), E(b, "operand")))
        if isinstance(node, ast.UnaryOp):
            if not isinstance(node.op, ast.USub):
                raise Untranslatable(f"unary operator {type(node.op).__name__}")
            return self.ev_args([node.operand], st, lambda a: ("un", "neg", E(a, "operand")))
        if isinstance(node, ast.Compare):
            if len(node.ops) != 1 or type(node.ops[0]) not in CMPOPS:
                raise Untranslatable(f"comparison {ast.unparse(node)}")
            op = CMPOPS[type(node.ops[0])]
            return self.ev_args([node.left, node.comparators[0]], st, lambda a, b: ("bin", op, E(a, "operand"), E(b, "operand")))
        if isinstance(node, ast.BoolOp):
            if not isinstance(node.op, ast.Or):
                raise Untranslatable(f"boolean operator {type(node.op).__name__}")

            def fold(*vs):
                acc = E(vs[0], "operand")
                for v in vs[1:]:
                    acc = ("bin", "or", acc, E(v, "operand"))
                return acc

            return self.ev_args(node.values, st, fold)
        if isinstance(node, ast.IfExp):
            # the one data-dependent conditional: `X.min() if X.size > 0 else 0`
            t, b, o = node.test, node.body, node.orelse
            ok = (isinstance(b, ast.Call) and isinstance(b.func, ast.Attribute) and b.func.attr == "min" and not b.args and not b.keywords
                  and isinstance(t, ast.Compare) and len(t.ops) == 1 and isinstance(t.ops[0], ast.Gt)
                  and isinstance(t.left, ast.Attribute) and t.left.attr == "size"
                  and ast.unparse(t.left.value) == ast.unparse(b.func.value)
                  and isinstance(t.comparators[0], ast.Constant) and t.comparators[0].value == 0 and not isinstance(t.comparators[0].value, bool)
                  and isinstance(o, ast.Constant) and o.value == 0 and not isinstance(o.value, bool))
            if not ok:
                raise Untranslatable(f"conditional expression {ast.unparse(node)}")
            return self.ev_args([b.func.value], st, lambda a: ("un", "minOr0", E(a, "operand")))
        if isinstance(node, ast.Attribute):
            s = self.self_attr(node)
            if s is not None:
                if s == "distribution":
                    raise Untranslatable("self.distribution used as a value")
                return [("val", st, ("setNum", s))]
            if node.attr == "size":
                return self.ev_args([node.value], st, lambda a: ("un", "size", E(a, "operand")))
            raise Untranslatable(f"attribute {ast.unparse(node)}")
        if isinstance(node, ast.Subscript):
            if isinstance(node.slice, ast.Constant) and isinstance(node.slice.value, int) and not isinstance(node.slice.value, bool):
                i = node.slice.value
                if i < 0:
                    raise Untranslatable("negative tuple index")
                return self.ev_args([node.value], st, lambda a: ("parIdx", E(a, "operand"), i))
            if isinstance(node.slice, ast.Slice):
                sl = node.slice
                if sl.lower is None or sl.upper is not None or sl.step is not None:
                    raise Untranslatable(f"slice {ast.unparse(node)} (only x[k:] is read)")
                return self.ev_args([node.value, sl.lower], st, lambda a, k: ("sliceFrom", E(a, "operand"), E(k, "slice bound")))
            if isinstance(node.slice, ast.Tuple):
                raise Untranslatable(f"slice {ast.unparse(node)}")
            return self.ev_args([node.value, node.slice], st, lambda a, b: ("bin", "getitem", E(a, "operand"), E(b, "index")))
        if isinstance(node, ast.Call):
            return self.ev_call(node, st)
        raise Untranslatable(f"expression {type(node).__name__}: {ast.unparse(node):.80}")

    def ev_call(self, node, st):
        E = self.need_expr
        f = node.func
        where = ast.unparse(f)
        # ---- <mask>.sum()  /  round(<x>)
        if isinstance(f, ast.Attribute) and f.attr == "sum" and not node.args and not node.keywords and self.self_attr(f.value) is None \
                and not (isinstance(f.value, ast.Name) and f.value.id in ("np", "self", self.cls.name)):
            return self.ev_args([f.value], st, lambda a: ("un", "sum", E(a, where)))
        if isinstance(f, ast.Name) and f.id == "round" and f.id not in st.frames[-1] and "round" not in self.mod.imported \
                and "round" not in self.mod.rebound:
            if len(node.args) != 1 or node.keywords or isinstance(node.args[0], ast.Starred):
                raise Untranslatable("round with more than one argument")
            return self.ev_args(node.args, st, lambda a: ("un", "round", E(a, where)))
        # ---- np.<f>
        if isinstance(f, ast.Attribute) and isinstance(f.value, ast.Name) and self.mod.is_numpy(f.value.id):
            if f.attr in NP_UN:
                got = self.bind_call(["a"], node, where)
                return self.ev_args([got["a"]], st, lambda a: ("un", NP_UN[f.attr], E(a, where)))
            if f.attr == "maximum":
                got = self.bind_call(["x1", "x2"], node, where)
                return self.ev_args([got["x1"], got["x2"]], st, lambda a, b: ("bin", "maximum", E(a, where), E(b, where)))
            if f.attr == "where":
                got = self.bind_call(["condition", "x", "y"], node, where)
                return self.ev_args([got["condition"], got["x"], got["y"]], st,
                                    lambda c, a, b: ("where", E(c, where), E(a, where), E(b, where)))
            if f.attr == "concatenate":
                got = self.bind_call(["arrays"], node, where)
                if not isinstance(got["arrays"], ast.List) or len(got["arrays"].elts) != 3:
                    raise Untranslatable("np.concatenate of something else than a list of three arrays")
                return self.ev_args(got["arrays"].elts, st, lambda a, b, c: ("concat3", E(a, where), E(b, where), E(c, where)))
            raise Untranslatable(f"numpy function {where}")
        # ---- np.random.uniform
        if where == "np.random.uniform" and self.mod.is_numpy("np"):
            got = self.bind_call(["low", "high", "size"], node, where)

            def mk(s, vs):
                k = s.ndraws
                s.ndraws += 1
                return [("val", s, ("uniform", k, E(vs[0], where), E(vs[1], where), E(vs[2], where)))]

            return self.bind(self.ev_list([got["low"], got["high"], got["size"]], st), mk)
        # ---- self.distribution.fit / cdf / ppf
        if isinstance(f, ast.Attribute) and self.self_attr(f.value) == "distribution":
            if f.attr == "fit" and len(node.keywords) == 1 and node.keywords[0].arg is None and self.self_attr(node.keywords[0].value):
                if len(node.args) != 1 or isinstance(node.args[0], ast.Starred):
                    raise Untranslatable(f"{where}: expected fit(<data>, **self.<kwargs>)")
                kw = self.self_attr(node.keywords[0].value)
                return self.ev_args(node.args, st, lambda a: ("fitKw", E(a, where), kw))
            if node.keywords:
                raise Untranslatable(f"{where}: keyword arguments")
            if f.attr == "fit":
                if len(node.args) != 1 or isinstance(node.args[0], ast.Starred):
                    raise Untranslatable(f"{where}: expected fit(<data>)")
                return self.ev_args(node.args, st, lambda a: ("fit", E(a, where)))
            if f.attr in ("cdf", "ppf"):
                if len(node.args) != 2 or isinstance(node.args[0], ast.Starred) or not isinstance(node.args[1], ast.Starred):
                    raise Untranslatable(f"{where}: expected {f.attr}(<values>, *<fit>)")
                return self.ev_args([node.args[0], node.args[1].value], st, lambda a, p: (f.attr, E(a, where), E(p, where)))
            raise Untranslatable(f"distribution method {f.attr}")
        # ---- toolkit / detrend
        if isinstance(f, ast.Name) and f.id not in st.frames[-1]:
            if f.id in PRIMITIVES and self.mod.is_util(f.id):
                params = self.prim(f.id)
                if f.id in ("ecdf", "iecdf"):
                    got = self.bind_call(params, node, where, required=params[:2])
                    m = self.meth_of(got.get("method"))
                    return self.ev_args([got[params[0]], got[params[1]]], st, lambda a, b: (f.id, E(a, where), E(b, where), m))
                if f.id == "threshold_cdf_vals":
                    got = self.bind_call(params, node, where, required=params[:1])
                    if "cdf_threshold" in got:
                        return self.ev_args([got["cdf_vals"], got["cdf_threshold"]], st, lambda a, t: ("thresh", E(a, where), E(t, where)))
                    return self.ev_args([got["cdf_vals"]], st, lambda a: ("threshD", E(a, where)))
                if f.id == "interp_sorted_cdf_vals_on_given_length":
                    got = self.bind_call(params, node, where)
                    return self.ev_args([got[p] for p in params], st, lambda a, n: ("interpLen", E(a, where), E(n, where)))
                if f.id == "quantile_map_non_parametically_with_constant_extrapolation":
                    got = self.bind_call(params[:3], node, where)  # any method keyword is rejected: the denotation is the default pair
                    return self.ev_args([got[p] for p in params[:3]], st, lambda a, b, c: ("qmapExtrap", E(a, where), E(b, where), E(c, where)))
            if self.mod.is_detrend(f.id):
                if len(node.args) != 1 or [(k.arg, ast.unparse(k.value)) for k in node.keywords] != [("type", "'constant'")]:
                    raise Untranslatable(f"detrend: expected detrend(<x>, type='constant'), got {ast.unparse(node)}")
                return self.ev_args(node.args, st, lambda a: ("un", "detrendConst", E(a, where)))
            raise Untranslatable(f"call of {f.id} (not an imported primitive of the toolkit)")
        # ---- methods of the same class, inlined
        if isinstance(f, ast.Attribute) and isinstance(f.value, ast.Name) and f.value.id in ("self", self.cls.name):
            fn = self.method(f.attr)
            params, static = self.fn_params(fn)
            if static != (f.value.id == self.cls.name):
                raise Untranslatable(f"{where}: static / instance call mismatch")
            got = self.bind_call(params, node, where)
            return self.bind(self.ev_list([got[p] for p in params], st), lambda s, vs: self.inline(fn, params, vs, s))
        raise Untranslatable(f"call {where}")

    def inline(self, fn, params, vals, st):
        self.depth += 1
        if self.depth > 4:
            raise Untranslatable("call depth")
        st.frames.append(dict(zip(params, vals)))
        outs = self.exec_block(fn.body, st)
        res = []
        for o in outs:
            if o[0] == "fall":
                raise Untranslatable(f"{fn.name}: a path ends without return")
            o[1].frames.pop()
            res.append(("val", o[1], o[2]) if o[0] == "ret" else o)
        self.depth -= 1
        return res

    # ---- statements: outcomes ("fall", st) | ("ret", st, v) | ("raise", st, cls)
    def exec_block(self, stmts, st):
        if not stmts:
            return [("fall", st)]
        res = []
        for o in self.exec_stmt(stmts[0], st):
            if o[0] == "fall":
                res += self.exec_block(stmts[1:], o[1])
            else:
                res.append(o)
        return res

    @staticmethod
    def new_loc(st, v):
        st.binds.append(("let", v))
        st.nlocs += 1
        return ("loc", st.nlocs - 1)

    def assign_name(self, st, name, v):
        if isinstance(v, tuple) and v and v[0] in REF:
            st.frames[-1][name] = v  # alias
        else:
            self.need_expr(v, f"value assigned to {name}")
            st.frames[-1][name] = self.new_loc(st, v)

    def exec_stmt(self, s, st):
        if isinstance(s, ast.Expr) and isinstance(s.value, ast.Constant) and isinstance(s.value.value, str):
            return [("fall", st)]
        if isinstance(s, ast.Pass):
            return [("fall", st)]
        if isinstance(s, ast.Return):
            if s.value is None:
                raise Untranslatable("bare return")
            return [("ret", o[1], o[2]) if o[0] == "val" else o for o in self.ev(s.value, st)]
        if isinstance(s, ast.Raise):
            if not (isinstance(s.exc, ast.Call) and isinstance(s.exc.func, ast.Name)) or s.cause is not None:
                raise Untranslatable(f"raise of unexpected shape: {ast.unparse(s):.60}")
            return [("raise", st, s.exc.func.id)]
        if isinstance(s, ast.Assign):
            if len(s.targets) != 1:
                raise Untranslatable("chained assignment")
            t = s.targets[0]
            if isinstance(t, ast.Name):
                def fin(s2, v, t=t):
                    self.assign_name(s2, t.id, v)
                    return [("fall", s2)]
                return self.bind_fall(self.ev(s.value, st), fin)
            if isinstance(t, ast.Tuple) and all(isinstance(e, ast.Name) for e in t.elts):
                def fin(s2, v, t=t):
                    if not (isinstance(v, tuple) and v and v[0] == "pytuple" and len(v[1]) == len(t.elts)):
                        raise Untranslatable("tuple assignment of a value that is not a tuple of that length")
                    for e, x in zip(t.elts, v[1]):
                        self.assign_name(s2, e.id, x)
                    return [("fall", s2)]
                return self.bind_fall(self.ev(s.value, st), fin)
            if isinstance(t, ast.Subscript) and isinstance(t.value, ast.Name) and not isinstance(t.slice, (ast.Slice, ast.Tuple, ast.Constant)):
                def fin(s2, vs, t=t):
                    m, v = vs
                    cur = s2.frames[-1].get(t.value.id)
                    if not (cur and cur[0] == "loc"):
                        raise Untranslatable(f"in-place assignment into {t.value.id}, which is not a local array")
                    if sum(1 for fr in s2.frames for x in fr.values() if x == cur) != 1:
                        raise Untranslatable(f"in-place assignment into the aliased array {t.value.id}")
                    s2.frames[-1][t.value.id] = self.new_loc(s2, ("setMask", cur, self.need_expr(m, "mask"), self.need_expr(v, "assigned value")))
                    return [("fall", s2)]
                return self.bind_fall(self.ev_list([t.slice, s.value], st), fin)
            if isinstance(t, ast.Subscript) and isinstance(t.value, ast.Name) and isinstance(t.slice, ast.Slice) and t.slice.step is None \
                    and (t.slice.lower is None) != (t.slice.upper is None):
                # `x[:k] = v` / `x[k:] = y` on an unaliased local array
                to = t.slice.lower is None
                def fin(s2, vs, t=t, to=to):
                    k, v = vs
                    cur = s2.frames[-1].get(t.value.id)
                    if not (cur and cur[0] == "loc"):
                        raise Untranslatable(f"in-place assignment into {t.value.id}, which is not a local array")
                    if sum(1 for fr in s2.frames for x in fr.values() if x == cur) != 1:
                        raise Untranslatable(f"in-place assignment into the aliased array {t.value.id}")
                    s2.frames[-1][t.value.id] = self.new_loc(s2, ("setSliceTo" if to else "setSliceFrom", cur, self.need_expr(k, "slice bound"),
                                                                  self.need_expr(v, "assigned value")))
                    return [("fall", s2)]
                return self.bind_fall(self.ev_list([t.slice.upper if to else t.slice.lower, s.value], st), fin)
            raise Untranslatable(f"assignment target {ast.unparse(t)}")
        if isinstance(s, ast.If):
            return self.exec_if(s, st)
        raise Untranslatable(f"statement {type(s).__name__}: {ast.unparse(s):.80}")

    @staticmethod
    def bind_fall(outs, f):
        res = []
        for o in outs:
            if o[0] == "val":
                res += f(o[1], o[2])
            else:
                res.append(o)
        return res

    def exec_if(self, s, st):
        t = s.test
        # `self.<setting> == "<literal>"`
        if (isinstance(t, ast.Compare) and len(t.ops) == 1 and isinstance(t.ops[0], ast.Eq) and self.self_attr(t.left) is not None
                and isinstance(t.comparators[0], ast.Constant) and isinstance(t.comparators[0].value, str)):
            name, lit = self.self_attr(t.left), t.comparators[0].value
            if name in st.known_str:
                return self.exec_block(s.body if st.known_str[name] == lit else s.orelse, st)
            if lit in st.not_str.get(name, set()):
                return self.exec_block(s.orelse, st)
            a, b = st.fork(), st
            a.conds.append(("strEq", name, lit))
            a.known_str[name] = lit
            b.not_str.setdefault(name, set()).add(lit)
            return self.exec_block(s.body, a) + self.exec_block(s.orelse, b)
        # `self.<flag>`
        name = self.self_attr(t)
        if name is not None:
            if name in st.known_flag:
                return self.exec_block(s.body if st.known_flag[name] else s.orelse, st)
            a, b = st.fork(), st
            a.conds.append(("flag", name, True))
            a.known_flag[name] = True
            b.conds.append(("flag", name, False))
            b.known_flag[name] = False
            return self.exec_block(s.body, a) + self.exec_block(s.orelse, b)
        # a test on DATA (no setting is read): `if <cond>: raise Cls(...)`  or  `if <cond>: [logger statements]; name = <expr>`
        if not any(self.self_attr(n) is not None for n in ast.walk(t)) and not s.orelse:
            body = [b for b in s.body if not self.is_logging(b)]
            if len(body) == 1 and isinstance(body[0], ast.Raise):
                r = body[0]
                if not (isinstance(r.exc, ast.Call) and isinstance(r.exc.func, ast.Name)) or r.cause is not None:
                    raise Untranslatable(f"raise of unexpected shape: {ast.unparse(r):.60}")

                def fin(s2, c, r=r):
                    s2.binds.append(("raiseIf", self.need_expr(c, "condition"), r.exc.func.id))
                    return [("fall", s2)]
                return self.bind_fall(self.ev(t, st), fin)
            if len(body) == 1 and isinstance(body[0], ast.Assign) and len(body[0].targets) == 1 and isinstance(body[0].targets[0], ast.Name):
                nm = body[0].targets[0].id

                def fin(s2, vs, nm=nm):
                    c, v = vs
                    old = s2.frames[-1].get(nm)
                    if old is None:
                        raise Untranslatable(f"conditional assignment of the unbound name {nm}")
                    self.assign_name(s2, nm, ("ite", self.need_expr(c, "condition"), self.need_expr(v, "value"), self.need_expr(old, "value")))
                    return [("fall", s2)]
                return self.bind_fall(self.ev_list([t, body[0].value], st), fin)
        raise Untranslatable(f"if-test of unexpected shape: {ast.unparse(t):.80}")

    @staticmethod
    def is_logging(b):
        """`logger = get_library_logger()` / `logger.warning(...)`: not part of the dataflow"""
        if isinstance(b, ast.Assign) and len(b.targets) == 1 and isinstance(b.targets[0], ast.Name) and b.targets[0].id == "logger":
            return ast.unparse(b.value) == "get_library_logger()"
        if isinstance(b, ast.Expr) and isinstance(b.value, ast.Call) and isinstance(b.value.func, ast.Attribute):
            return isinstance(b.value.func.value, ast.Name) and b.value.func.value.id == "logger" and b.value.func.attr in ("warning", "info", "debug")
        return False

    # ---- entry
    def run(self):
        fn = self.method(self.spec["func"])
        params, static = self.fn_params(fn)
        st = St()
        st.frames = [{p: ("arg", i) for i, p in enumerate(params)}]
        paths = []
        for o in self.exec_block(fn.body, st):
            if o[0] == "fall":
                raise Untranslatable(f"{fn.name}: a path ends without return")
            if o[0] == "raise":
                paths.append(dict(conds=o[1].conds, binds=o[1].binds, result=[], raises=o[2]))
            else:
                v = o[2]
                vals = v[1] if (isinstance(v, tuple) and v and v[0] == "pytuple") else [v]
                paths.append(dict(conds=o[1].conds, binds=o[1].binds, result=[self.need_expr(x, "result") for x in vals], raises=None))
        return dict(params=params, paths=paths)


# ------------------------------------------------------------------ emission
def lstr(s):
    return '"' + s.replace("\\", "\\\\").replace('"', '\\"') + '"'


def lrat(q):
    return f"{q.numerator}" if q.denominator == 1 else f"({q.numerator}/{q.denominator})"


def lmeth(m):
    return {"setting": lambda: f"(.setting {lstr(m[1])})", "lit": lambda: f"(.lit {lstr(m[1])})", "default": lambda: ".default"}[m[0]]()


def lexpr(e):
    k = e[0]
    if k == "arg":
        return f"(.arg {e[1]})"
    if k == "loc":
        return f"(.loc {e[1]})"
    if k == "num":
        return f"(.num {lrat(e[1])})"
    if k == "setNum":
        return f"(.setNum {lstr(e[1])})"
    if k == "un":
        return f"(.un .{e[1]} {lexpr(e[2])})"
    if k == "bin":
        return f"(.bin .{e[1]} {lexpr(e[2])} {lexpr(e[3])})"
    if k in ("ecdf", "iecdf"):
        return f"(.{k} {lexpr(e[1])} {lexpr(e[2])} {lmeth(e[3])})"
    if k in ("qmapExtrap", "setMask", "concat3", "ite", "setSliceTo", "setSliceFrom"):
        return f"(.{k} {lexpr(e[1])} {lexpr(e[2])} {lexpr(e[3])})"
    if k == "where":
        return f"(.where_ {lexpr(e[1])} {lexpr(e[2])} {lexpr(e[3])})"
    if k == "fitKw":
        return f"(.fitKw {lexpr(e[1])} {lstr(e[2])})"
    if k in ("thresh", "interpLen", "cdf", "ppf", "sliceFrom"):
        return f"(.{k} {lexpr(e[1])} {lexpr(e[2])})"
    if k in ("threshD", "fit"):
        return f"(.{k} {lexpr(e[1])})"
    if k == "parIdx":
        return f"(.parIdx {lexpr(e[1])} {e[2]})"
    if k == "uniform":
        return f"(.uniform {e[1]} {lexpr(e[2])} {lexpr(e[3])} {lexpr(e[4])})"
    raise Untranslatable(f"emission of {k}")


PYOPS = {"or": "or", "add": "+", "sub": "-", "mul": "*", "div": "/", "lt": "<", "le": "<=", "gt": ">", "ge": ">=", "eq": "=="}


def pexpr(e, params):
    """a readable rendering (comment only)"""
    k = e[0]
    r = lambda x: pexpr(x, params)  # noqa: E731
    if k == "arg":
        return params[e[1]]
    if k == "loc":
        return f"v{e[1]}"
    if k == "num":
        return str(e[1])
    if k == "setNum":
        return f"self.{e[1]}"
    if k == "un":
        return f"{e[1]}({r(e[2])})"
    if k == "bin":
        if e[1] == "getitem":
            return f"{r(e[2])}[{r(e[3])}]"
        if e[1] == "maximum":
            return f"maximum({r(e[2])}, {r(e[3])})"
        return f"({r(e[2])} {PYOPS[e[1]]} {r(e[3])})"
    if k in ("ecdf", "iecdf"):
        m = e[3]
        ms = {"setting": lambda: f"self.{m[1]}", "lit": lambda: repr(m[1]), "default": lambda: "<default>"}[m[0]]()
        return f"{k}({r(e[1])}, {r(e[2])}, method={ms})"
    if k == "parIdx":
        return f"{r(e[1])}[{e[2]}]"
    if k == "uniform":
        return f"uniform#{e[1]}({r(e[2])}, {r(e[3])}, {r(e[4])})"
    if k == "fitKw":
        return f"fit({r(e[1])}, **self.{e[2]})"
    return f"{k}(" + ", ".join(r(x) for x in e[1:]) + ")"


def lcond(c):
    if c[0] == "strEq":
        return f".strEq {lstr(c[1])} {lstr(c[2])}"
    return f".flag {lstr(c[1])} {'true' if c[2] else 'false'}"


def emit_prog(lean, spec, prog):
    out = [f"/-- `{spec['cls']}.{spec['func']}` ({spec['file']}) -/", f"def {lean} : Prog :=", "  { params := [" + ", ".join(lstr(p) for p in prog["params"]) + "],", "    paths := ["]
    rows = []
    for p in prog["paths"]:
        r = []
        r.append("      { conds := [" + ", ".join(lcond(c) for c in p["conds"]) + "],")
        r.append("        binds := [")
        bl = []
        k = 0
        for b in p["binds"]:
            if b[0] == "let":
                bl.append(f"          -- v{k} := {pexpr(b[1], prog['params'])}\n          .let_ {lexpr(b[1])}")
                k += 1
            else:
                bl.append(f"          -- if {pexpr(b[1], prog['params'])}: raise {b[2]}\n          .raiseIf {lexpr(b[1])} {lstr(b[2])}")
        r.append(",\n".join(bl) + ("\n" if bl else "") + "        ],")
        r.append("        result := [" + ", ".join(lexpr(x) for x in p["result"]) + "],")
        for x in p["result"]:
            r.append(f"          -- return {pexpr(x, prog['params'])}")
        r.append("        raises := " + (f"some {lstr(p['raises'])}" if p["raises"] else "none") + " }")
        rows.append("\n".join(r))
    out.append(",\n".join(rows))
    out.append("    ] }")
    return "\n".join(out) + "\n"


def generate(repo):
    errors = []
    out = ["", "import IbicusModel.Model.NpDeb", "", "namespace Gen.DebWin", "open Model.NpDeb", ""]
    for spec in SPECS:
        try:
            prog = Extractor(repo, spec).run()
            out.append(emit_prog(spec["lean"], spec, prog))
        except (Untranslatable, OSError, SyntaxError) as ex:
            errors.append(f"untranslatable:{spec['cls']}.{spec['func']}: {type(ex).__name__} {ex}")
            out.append(f"-- {spec['lean']}: not translatable ({type(ex).__name__}: {str(ex)[:200]})\n")
    out.append("end Gen.DebWin")
    return "\n".join(out) + "\n", errors


if __name__ == "__main__":
    import sys

    text, errs = generate(sys.argv[1] if len(sys.argv) > 1 else os.environ.get("IBICUS_REPO", "/repo"))
    print(text)
    print(errs)
