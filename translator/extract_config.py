"""
Tier-A extractor for C15 (configuration): regenerates *tables* from /repo's current AST.

  varKeys             ibicus/variables.py: str_to_variable_class  (key -> name of the Variable object)
  mapVariableShape    structure of map_variable_str_to_variable_class (lower() first, ValueError if unknown, lookup)
  fromVariableShape   structure of Debiaser._from_variable (string mapping, default -> experimental+warning -> ValueError, merge order)
  defaultVars / experimentalVars   per debiaser: the keys of the dictionaries its from_variable passes on
  fromVariableBody / forPrecipitation   per debiaser: "plain" or the text of the detour / of the constructor call
  docColumns / docRows    the support table in the docstring of ibicus/debias/__init__.py
  fields              per debiaser: resolved attrs field list (name, default text, validators, converter)
  isimipDefaults / isimipDocDefaults   code and documented defaults of the four ISIMIP bound attributes (extended reals)
  postInit            per debiaser: the flattened rule list of __attrs_post_init__
  applyRederives      per `apply` method: whether its first statement is `self.__attrs_post_init__()`
  has_*               the ISIMIP bound / threshold properties, translated over an extended-real type

Anything not recognised is an error (a broken tie); nothing is guessed.
"""
import ast
import os
import re

DEBIASERS = [  # (class, file) in the column order of the support table
    ("LinearScaling", "_linear_scaling.py"), ("DeltaChange", "_delta_change.py"), ("QuantileMapping", "_quantile_mapping.py"),
    ("ScaledDistributionMapping", "_scaled_distribution_mapping.py"), ("CDFt", "_cdft.py"), ("ECDFM", "_ecdfm.py"),
    ("QuantileDeltaMapping", "_quantile_delta_mapping.py"), ("ISIMIP", "_isimip.py"),
]
BASES = {"Debiaser": "_debiaser.py", "RunningWindowDebiaser": "_running_window_debiaser.py"}
DIST = "(scipy.stats.rv_continuous, scipy.stats.rv_discrete, scipy.stats.rv_histogram, StatisticalModel)"
DIST_NONE = "(scipy.stats.rv_continuous, scipy.stats.rv_discrete, scipy.stats.rv_histogram, StatisticalModel, type(None))"
INSTANCE = {"bool": ".instBool", "int": ".instInt", "float": ".instFloat", "str": ".instStr", "dict": ".instDict",
            "(float, type(None))": ".instFloatOrNone", DIST: ".instDistribution", DIST_NONE: ".instDistributionOrNone"}


class Unrecognised(Exception):
    pass


def lstr(s):
    return '"' + s.replace("\\", "\\\\").replace('"', '\\"') + '"'


def lbool(b):
    return "true" if b else "false"


def llist(items):
    return "[" + ", ".join(items) + "]"


def parse(repo, *parts):
    return ast.parse(open(os.path.join(repo, "ibicus", *parts)).read())


def find_class(tree, name):
    for n in tree.body:
        if isinstance(n, ast.ClassDef) and n.name == name:
            return n
    raise Unrecognised(f"class {name} not found")


def find_method(cls, name):
    for n in cls.body:
        if isinstance(n, ast.FunctionDef) and n.name == name:
            return n
    return None


def strip_doc(body):
    if body and isinstance(body[0], ast.Expr) and isinstance(body[0].value, ast.Constant) and isinstance(body[0].value.value, str):
        return body[1:]
    return body


def module_dict(tree, name):
    for n in tree.body:
        if isinstance(n, ast.Assign) and len(n.targets) == 1 and isinstance(n.targets[0], ast.Name) and n.targets[0].id == name:
            if isinstance(n.value, ast.Dict):
                return n.value
    return None


def norm(s):
    return " ".join(s.split())


# ------------------------------------------------------------------ variables.py
def var_keys(repo):
    tree = parse(repo, "variables.py")
    d = module_dict(tree, "str_to_variable_class")
    if d is None:
        raise Unrecognised("str_to_variable_class is not a dict literal")
    out = []
    for k, v in zip(d.keys, d.values):
        if not (isinstance(k, ast.Constant) and isinstance(k.value, str) and isinstance(v, ast.Name)):
            raise Unrecognised("str_to_variable_class entry")
        out.append((k.value, v.id))
    return out


def map_variable_shape(repo):
    tree = parse(repo, "variables.py")
    fn = next((n for n in tree.body if isinstance(n, ast.FunctionDef) and n.name == "map_variable_str_to_variable_class"), None)
    if fn is None:
        raise Unrecognised("map_variable_str_to_variable_class not found")
    body = strip_doc(fn.body)
    p = fn.args.args[0].arg
    lower_first = bool(body) and norm(ast.unparse(body[0])) == f"{p} = {p}.lower()"
    raises = any(isinstance(s, ast.If) and norm(ast.unparse(s.test)) in (f"{p} not in str_to_variable_class.keys()", f"{p} not in str_to_variable_class")
                 and len(s.body) == 1 and isinstance(s.body[0], ast.Raise) and ast.unparse(s.body[0].exc).startswith("ValueError(") for s in body)
    ret = bool(body) and isinstance(body[-1], ast.Return) and norm(ast.unparse(body[-1].value)) in (
        f"str_to_variable_class.get({p})", f"str_to_variable_class[{p}]")
    other = len(body) - (1 if lower_first else 0) - (1 if raises else 0) - (1 if ret else 0)
    return f"⟨{lbool(lower_first)}, {lbool(raises)}, {lbool(ret)}, {other}⟩"


# ------------------------------------------------------------------ _from_variable
def from_variable_shape(repo):
    deb = find_class(parse(repo, "debias", "_debiaser.py"), "Debiaser")
    fn = find_method(deb, "_from_variable")
    if fn is None:
        raise Unrecognised("_from_variable not found")
    maps = lookup = exp_warns = raises = False
    merge = []
    for st in strip_doc(fn.body):
        if isinstance(st, ast.If):
            t = norm(ast.unparse(st.test))
            if t == "not isinstance(variable, Variable)":
                maps = (len(st.body) == 1 and norm(ast.unparse(st.body[0])) == "variable_object = map_variable_str_to_variable_class(variable)"
                        and len(st.orelse) == 1 and norm(ast.unparse(st.orelse[0])) == "variable_object = variable")
            elif t in ("variable_object in default_settings_variable.keys()", "variable_object in default_settings_variable"):
                lookup = len(st.body) == 1 and norm(ast.unparse(st.body[0])) == "variable_settings = default_settings_variable[variable_object]"
                inner = st.orelse[0] if len(st.orelse) == 1 and isinstance(st.orelse[0], ast.If) else None
                if inner is not None and norm(ast.unparse(inner.test)) in (
                        "variable_object in experimental_default_setting_variable.keys()", "variable_object in experimental_default_setting_variable"):
                    b = inner.body
                    exp_warns = (len(b) == 2 and isinstance(b[0], ast.Expr) and isinstance(b[0].value, ast.Call)
                                 and ast.unparse(b[0].value.func) == "warnings.warn" and "experimental" in ast.unparse(b[0].value.args[0])
                                 and norm(ast.unparse(b[1])) == "variable_settings = experimental_default_setting_variable[variable_object]")
                    raises = (len(inner.orelse) == 1 and isinstance(inner.orelse[0], ast.Raise)
                              and ast.unparse(inner.orelse[0].exc).startswith("ValueError("))
        if isinstance(st, ast.Assign) and ast.unparse(st.targets[0]) == "parameters" and isinstance(st.value, ast.Dict):
            for k, v in zip(st.value.keys, st.value.values):
                merge.append(k.value if k is not None else "**" + ast.unparse(v))
        if isinstance(st, ast.Return):
            if norm(ast.unparse(st.value)) == "child_class(**{**parameters, **kwargs})":
                merge += ["**kwargs"]
            else:
                merge += ["?" + norm(ast.unparse(st.value))]
    return f"⟨{lbool(maps)}, {lbool(lookup)}, {lbool(exp_warns)}, {lbool(raises)}, {llist(lstr(m) for m in merge)}⟩"


# ------------------------------------------------------------------ per debiaser: dictionaries, detours
def dict_keys(repo, tree, name):
    d = module_dict(tree, name)
    if d is None:  # imported from a sibling module
        for n in tree.body:
            if isinstance(n, ast.ImportFrom) and n.level == 1 and any(a.name == name for a in n.names):
                d = module_dict(parse(repo, "debias", n.module.lstrip(".") + ".py"), name)
    if d is None:
        raise Unrecognised(f"dictionary {name} not found")
    keys = []
    for k in d.keys:
        if not isinstance(k, ast.Name):
            raise Unrecognised(f"key of {name}: {ast.unparse(k)}")
        keys.append(k.id)
    return keys


def from_variable_call(fn):
    """the `super()._from_variable(...)` call that ends from_variable -> (default dict name, experimental dict name | None)"""
    last = strip_doc(fn.body)[-1]
    if not (isinstance(last, ast.Return) and isinstance(last.value, ast.Call) and ast.unparse(last.value.func) == "super()._from_variable"):
        raise Unrecognised("from_variable does not end with super()._from_variable(...)")
    c = last.value
    pos = [ast.unparse(a) for a in c.args]
    kw = {k.arg: ast.unparse(k.value) for k in c.keywords if k.arg}
    if not any(k.arg is None and ast.unparse(k.value) == "kwargs" for k in c.keywords):
        raise Unrecognised("from_variable does not pass **kwargs on")
    if (pos[:1] != ["cls"]) or (pos[1:2] != ["variable"] and kw.get("variable") != "variable"):
        raise Unrecognised(f"from_variable arguments {pos} {kw}")
    default = pos[2] if len(pos) > 2 else kw.get("default_settings_variable")
    experimental = pos[3] if len(pos) > 3 else kw.get("experimental_default_setting_variable")
    if default is None:
        raise Unrecognised("no default settings dictionary passed")
    return default, experimental


def debiaser_tables(repo):
    defaults, experimental, bodies, forpr = [], [], [], []
    for cls, file in DEBIASERS:
        tree = parse(repo, "debias", file)
        c = find_class(tree, cls)
        fn = find_method(c, "from_variable")
        if fn is None:
            raise Unrecognised(f"{cls}.from_variable not found")
        dn, en = from_variable_call(fn)
        defaults.append((cls, dict_keys(repo, tree, dn)))
        experimental.append((cls, dict_keys(repo, tree, en) if en else []))
        pre = strip_doc(fn.body)[:-1]
        bodies.append((cls, "plain" if not pre else "; ".join(norm(ast.unparse(s)) for s in pre)))
        fp = find_method(c, "for_precipitation")
        if fp is not None:
            last = strip_doc(fp.body)[-1]
            if not isinstance(last, ast.Return):
                raise Unrecognised(f"{cls}.for_precipitation does not end with return")
            forpr.append((cls, norm(ast.unparse(last.value))))
    return defaults, experimental, bodies, forpr


# ------------------------------------------------------------------ the documented support table
def doc_table(repo):
    tree = parse(repo, "debias", "__init__.py")
    doc = ast.get_docstring(tree, clean=False) or ""
    rows = [ln.strip() for ln in doc.split("\n") if ln.strip().startswith("|") and ln.strip().endswith("|")]
    if not rows:
        raise Unrecognised("no table rows in the module docstring")
    cells = [[c.strip() for c in r.strip("|").split("|")] for r in rows]
    header, body = cells[0], cells[1:]
    if header[0] != "Variable":
        raise Unrecognised(f"table header {header[:2]}")
    cols = []
    for h in header[1:]:
        m = re.fullmatch(r":py:class:`(\w+)`", h)
        if not m:
            raise Unrecognised(f"column header {h}")
        cols.append(m.group(1))
    out = []
    for r in body:
        if len(r) != len(header):
            raise Unrecognised(f"row width {r[0]}")
        marks = []
        for c in r[1:]:
            c = c.replace(".. centered::", "").strip()
            if c not in ("x", "(x)", ""):
                raise Unrecognised(f"cell {c!r} in row {r[0]}")
            marks.append(c)
        out.append((r[0], marks))
    return cols, out


# ------------------------------------------------------------------ attrs fields
def validator_kinds(v):
    if v is None:
        return []
    if isinstance(v, ast.List):
        out = []
        for e in v.elts:
            out += validator_kinds(e)
        return out
    if isinstance(v, ast.Call) and ast.unparse(v.func).startswith("attrs.validators."):
        kind = v.func.attr
        arg = norm(ast.unparse(v.args[0])) if v.args else ""
        if kind == "instance_of":
            if arg not in INSTANCE:
                raise Unrecognised(f"instance_of({arg})")
            return [INSTANCE[arg]]
        if kind == "gt" and arg == "0":
            return [".gt0"]
        if kind == "in_" and isinstance(v.args[0], ast.List) and all(isinstance(e, ast.Constant) and isinstance(e.value, str) for e in v.args[0].elts):
            return [".oneOf " + llist(lstr(e.value) for e in v.args[0].elts)]
    raise Unrecognised(f"validator {ast.unparse(v)[:60]}")


def own_fields(cls):
    out, custom = [], set()
    for n in cls.body:
        if isinstance(n, ast.FunctionDef):
            for dec in n.decorator_list:
                if isinstance(dec, ast.Attribute) and dec.attr == "validator" and isinstance(dec.value, ast.Name):
                    custom.add(dec.value.id)
    for n in cls.body:
        if isinstance(n, ast.AnnAssign) and isinstance(n.target, ast.Name) and isinstance(n.value, ast.Call) and ast.unparse(n.value.func) == "attrs.field":
            kw = {k.arg: k.value for k in n.value.keywords}
            default = norm(ast.unparse(kw["default"])) if "default" in kw else None
            vals = validator_kinds(kw.get("validator"))
            if n.target.id in custom:
                vals.append(".custom")
            conv = norm(ast.unparse(kw["converter"])) if "converter" in kw else ""
            extra = set(kw) - {"default", "validator", "converter", "eq"}
            if extra:
                raise Unrecognised(f"attrs.field option {sorted(extra)} of {n.target.id}")
            out.append((n.target.id, default, vals, conv))
        elif isinstance(n, ast.AnnAssign) and isinstance(n.target, ast.Name):
            raise Unrecognised(f"field {n.target.id} is not an attrs.field(...)")
    return out


def class_and_bases(repo, cls, file):
    """[base-most ..., cls] as ClassDef nodes"""
    chain = []
    name, f = cls, file
    while True:
        c = find_class(parse(repo, "debias", f), name)
        chain.append(c)
        bases = [b.id for b in c.bases if isinstance(b, ast.Name)]
        nxt = next((b for b in bases if b in BASES), None)
        if nxt is None:
            break
        name, f = nxt, BASES[nxt]
    return list(reversed(chain))


def resolved_fields(repo, cls, file):
    fields = {}
    for c in class_and_bases(repo, cls, file):
        for name, default, vals, conv in own_fields(c):
            fields.pop(name, None)  # attrs: a redefined field replaces the inherited one (and moves to the end)
            fields[name] = (default, vals, conv)
    return [(n,) + v for n, v in fields.items()]


def field_lean(f):
    name, default, vals, conv = f
    d = "none" if default is None else f"some {lstr(default)}"
    return f"⟨{lstr(name)}, {d}, {llist(vals)}, {lstr(conv)}⟩"


# ------------------------------------------------------------------ ISIMIP bound defaults
BOUNDS = ["lower_bound", "lower_threshold", "upper_bound", "upper_threshold"]


def ext_of_text(t):
    t = t.replace(" ", "")
    if t in ("-np.inf", "-numpy.inf", "-math.inf", "float('-inf')", "-inf"):
        return ".negInf"
    if t in ("np.inf", "numpy.inf", "math.inf", "float('inf')", "inf", "+np.inf"):
        return ".posInf"
    try:
        from fractions import Fraction
        fr = Fraction(t)
        return f".fin (({fr.numerator} : Rat) / {fr.denominator})"
    except (ValueError, ZeroDivisionError):
        raise Unrecognised(f"bound default {t}")


def isimip_defaults(repo):
    c = find_class(parse(repo, "debias", "_isimip.py"), "ISIMIP")
    fields = {f[0]: f for f in own_fields(c)}
    code = []
    for b in BOUNDS:
        if b not in fields or fields[b][1] is None:
            raise Unrecognised(f"ISIMIP.{b} has no default")
        code.append((b, ext_of_text(fields[b][1])))
    doc = ast.get_docstring(c, clean=False) or ""
    docd = []
    for b in BOUNDS:
        m = re.search(r"^\s*" + b + r" : float\s*\n(.*?)$", doc, re.M)
        if not m:
            raise Unrecognised(f"documentation of ISIMIP.{b} not found")
        d = re.search(r"Default: ``([^`]+)``", m.group(1))
        if not d:
            raise Unrecognised(f"documented default of ISIMIP.{b} not found")
        docd.append((b, ext_of_text(d.group(1))))
    return code, docd


# ------------------------------------------------------------------ __attrs_post_init__
def self_attr(e):
    return e.attr if isinstance(e, ast.Attribute) and isinstance(e.value, ast.Name) and e.value.id == "self" else None


def rules_of(repo, cls, file, chain=None):
    chain = chain or class_and_bases(repo, cls, file)
    c = chain[-1]
    fn = find_method(c, "__attrs_post_init__")
    if fn is None:
        return rules_of(repo, None, None, chain[:-1]) if len(chain) > 1 else None
    out = []
    for st in strip_doc(fn.body):
        txt = norm(ast.unparse(st))
        if isinstance(st, ast.Pass):
            continue
        if txt == "super().__attrs_post_init__()":
            base = rules_of(repo, None, None, chain[:-1]) if len(chain) > 1 else None
            if base is None:
                raise Unrecognised(f"{c.name}: super().__attrs_post_init__() has no target")
            out += base
            continue
        if isinstance(st, ast.If) and not st.orelse and len(st.body) == 1:
            t, b = st.test, st.body[0]
            # if self.A > self.B: raise ValueError
            if (isinstance(t, ast.Compare) and len(t.ops) == 1 and isinstance(t.ops[0], ast.Gt) and self_attr(t.left) and self_attr(t.comparators[0])
                    and isinstance(b, ast.Raise) and ast.unparse(b.exc).startswith("ValueError(")):
                out.append(f".raiseIfGt {lstr(self_attr(t.left))} {lstr(self_attr(t.comparators[0]))}")
                continue
            # if self.F: self.T = Cls(k=self.S, ...)
            if (self_attr(t) and isinstance(b, ast.Assign) and len(b.targets) == 1 and self_attr(b.targets[0]) and isinstance(b.value, ast.Call)
                    and isinstance(b.value.func, ast.Name) and not b.value.args and all(self_attr(k.value) for k in b.value.keywords)):
                srcs = [self_attr(k.value) for k in b.value.keywords]
                out.append(f".build {lstr(self_attr(b.targets[0]))} {lstr(self_attr(t))} {llist(lstr(s) for s in srcs)} {lstr(b.value.func.id)}")
                continue
            # if self.T is None: self.T = 1 / (self.A * self.B + 1)
            if (isinstance(t, ast.Compare) and len(t.ops) == 1 and isinstance(t.ops[0], ast.Is) and self_attr(t.left)
                    and isinstance(t.comparators[0], ast.Constant) and t.comparators[0].value is None and isinstance(b, ast.Assign)
                    and self_attr(b.targets[0]) == self_attr(t.left)):
                m = re.fullmatch(r"1 / \(self\.(\w+) \* self\.(\w+) \+ 1\)", norm(ast.unparse(b.value)))
                if m:
                    out.append(f".fillNone {lstr(self_attr(t.left))} {lstr(m.group(1))} {lstr(m.group(2))}")
                    continue
            # if self.A is None and not self.B: raise ValueError
            m = re.fullmatch(r"self\.(\w+) is None and \(?not self\.(\w+)\)?", norm(ast.unparse(t)))
            if m and isinstance(b, ast.Raise) and ast.unparse(b.exc).startswith("ValueError("):
                out.append(f".raiseIfNoneAndNot {lstr(m.group(1))} {lstr(m.group(2))}")
                continue
        raise Unrecognised(f"{c.name}.__attrs_post_init__: {txt[:70]}")
    return out


# ------------------------------------------------------------------ has_* over extended reals
def translate_has(repo):
    c = find_class(parse(repo, "debias", "_isimip.py"), "ISIMIP")
    names = ["has_lower_threshold", "has_lower_bound", "has_upper_threshold", "has_upper_bound", "has_bound", "has_threshold"]
    out = []
    done = []

    def ext(e):
        if isinstance(e, ast.UnaryOp) and isinstance(e.op, ast.USub):
            return f"(ExtRat.neg {ext(e.operand)})"
        if isinstance(e, ast.Attribute) and ast.unparse(e) in ("np.inf", "numpy.inf", "math.inf"):
            return "ExtRat.posInf"
        a = self_attr(e)
        if a in BOUNDS:
            return "self_" + a
        if isinstance(e, ast.Constant) and isinstance(e.value, (int, float)) and not isinstance(e.value, bool):
            from fractions import Fraction
            fr = Fraction(repr(e.value))
            return f"(ExtRat.fin (({fr.numerator} : Rat) / {fr.denominator}))"
        raise Unrecognised(f"extended-real operand {ast.unparse(e)}")

    def cond(e):
        if isinstance(e, ast.BoolOp):
            op = " && " if isinstance(e.op, ast.And) else " || "
            return "(" + op.join(cond(v) for v in e.values) + ")"
        if isinstance(e, ast.UnaryOp) and isinstance(e.op, ast.Not):
            return f"(!{cond(e.operand)})"
        if isinstance(e, ast.Compare) and len(e.ops) == 1:
            op, l, r = e.ops[0], e.left, e.comparators[0]
            if isinstance(op, ast.IsNot) and isinstance(r, ast.Constant) and r.value is None and self_attr(l) in BOUNDS:
                return "true"  # the attrs converter `float` makes None unrepresentable for these attributes
            o = {ast.Lt: "ExtRat.lt", ast.Gt: "ExtRat.gt", ast.LtE: "ExtRat.le", ast.GtE: "ExtRat.ge"}.get(type(op))
            if o:
                return f"({o} {ext(l)} {ext(r)})"
        a = self_attr(e)
        if a in done:
            return f"({a} self_lower_bound self_lower_threshold self_upper_bound self_upper_threshold)"
        raise Unrecognised(f"condition {ast.unparse(e)[:60]}")

    def boolean(e):
        if isinstance(e, ast.Constant) and isinstance(e.value, bool):
            return lbool(e.value)
        return cond(e)

    sig = " ".join(f"(self_{b} : ExtRat)" for b in BOUNDS)
    for n in names:
        fn = find_method(c, n)
        if fn is None or not any(ast.unparse(d) == "property" for d in fn.decorator_list):
            raise Unrecognised(f"ISIMIP.{n} is not a property")
        body = strip_doc(fn.body)
        if len(body) == 1 and isinstance(body[0], ast.Return):
            expr = boolean(body[0].value)
        elif (len(body) == 1 and isinstance(body[0], ast.If) and len(body[0].body) == 1 and len(body[0].orelse) == 1
              and isinstance(body[0].body[0], ast.Return) and isinstance(body[0].orelse[0], ast.Return)):
            expr = f"if {cond(body[0].test)} then {boolean(body[0].body[0].value)} else {boolean(body[0].orelse[0].value)}"
        else:
            raise Unrecognised(f"body of ISIMIP.{n}")
        out.append(f"/-- generated from `ibicus/debias/_isimip.py`: `ISIMIP.{n}` -/\ndef {n} {sig} : Bool :=\n  {expr}\n")
        done.append(n)
    # the bound attributes really have converter=float (the reason `is not None` is `true`)
    fields = {f[0]: f for f in own_fields(c)}
    for b in BOUNDS:
        if fields[b][3] != "float":
            raise Unrecognised(f"ISIMIP.{b} has no converter=float: `is not None` cannot be discharged")
    return "\n".join(out)


# ------------------------------------------------------------------ group entry point
def table(name, typ, rows, doc):
    return f"/-- {doc} -/\ndef {name} : {typ} := [\n" + ",\n".join("  " + r for r in rows) + "]\n"


def generate(repo):
    import extract_contract

    errors = []
    out = ["", "import IbicusModel.Model.Config", "", "set_option linter.unusedVariables false", "", "namespace Gen.Config", "open Model.Config", ""]

    def section(label, fn):
        try:
            out.append(fn())
        except (Unrecognised, OSError, SyntaxError, KeyError, IndexError, AttributeError) as ex:
            errors.append(f"untranslatable:{label}: {type(ex).__name__} {ex}")

    section("str_to_variable_class", lambda: table("varKeys", "List (String × String)", [f"({lstr(k)}, {lstr(v)})" for k, v in var_keys(repo)],
                                                   "generated from `ibicus/variables.py`: `str_to_variable_class` (key, Variable object)"))
    section("map_variable_str_to_variable_class", lambda: "/-- generated from `ibicus/variables.py`: `map_variable_str_to_variable_class` -/\n"
            f"def mapVariableShape : MapVariableShape := {map_variable_shape(repo)}\n")
    section("_from_variable", lambda: "/-- generated from `ibicus/debias/_debiaser.py`: `Debiaser._from_variable` -/\n"
            f"def fromVariableShape : FromVariableShape := {from_variable_shape(repo)}\n")

    def deb():
        d, e, b, f = debiaser_tables(repo)
        return "\n".join([
            table("defaultVars", "List (String × List String)", [f"({lstr(c)}, {llist(lstr(k) for k in ks)})" for c, ks in d],
                  "per debiaser: keys of the default-settings dictionary its `from_variable` passes to `_from_variable`"),
            table("experimentalVars", "List (String × List String)", [f"({lstr(c)}, {llist(lstr(k) for k in ks)})" for c, ks in e],
                  "per debiaser: keys of the experimental-default-settings dictionary (empty if none is passed)"),
            table("fromVariableBody", "List (String × String)", [f"({lstr(c)}, {lstr(t)})" for c, t in b],
                  "per debiaser: what `from_variable` does before the `_from_variable` call (`plain` = nothing)"),
            table("forPrecipitation", "List (String × String)", [f"({lstr(c)}, {lstr(t)})" for c, t in f],
                  "debiasers with a `for_precipitation` constructor and the expression it returns"),
        ])

    section("debiaser tables", deb)

    def doc():
        cols, rows = doc_table(repo)
        return (f"/-- generated from the docstring of `ibicus/debias/__init__.py`: column classes of the support table -/\n"
                f"def docColumns : List String := {llist(lstr(c) for c in cols)}\n\n"
                + table("docRows", "List (String × List String)", [f"({lstr(v)}, {llist(lstr(m) for m in ms)})" for v, ms in rows],
                        "rows of the support table: variable label, one mark per column (`x`, `(x)` or empty)"))

    section("support table", doc)

    def flds():
        rows = []
        for cls, file in DEBIASERS:
            fs = resolved_fields(repo, cls, file)
            rows.append(f"({lstr(cls)}, [\n    " + ",\n    ".join(field_lean(f) for f in fs) + "])")
        return table("fields", "List (String × List Field)", rows, "per debiaser: resolved attrs fields (inherited ones included; a redefinition replaces)")

    section("attrs fields", flds)

    def isi():
        code, docd = isimip_defaults(repo)
        return (table("isimipDefaults", "List (String × ExtRat)", [f"({lstr(k)}, {v})" for k, v in code], "code defaults of the ISIMIP bound attributes")
                + "\n" + table("isimipDocDefaults", "List (String × ExtRat)", [f"({lstr(k)}, {v})" for k, v in docd],
                               "defaults of the ISIMIP bound attributes as documented in the class docstring"))

    section("ISIMIP defaults", isi)

    def post():
        rows = []
        for cls, file in DEBIASERS:
            r = rules_of(repo, cls, file)
            if r is None:
                raise Unrecognised(f"{cls} has no __attrs_post_init__ (apply calls it)")
            rows.append(f"({lstr(cls)}, {llist(r)})")
        return table("postInit", "List (String × List Rule)", rows, "per debiaser: `__attrs_post_init__`, `super()` calls inlined")

    section("__attrs_post_init__", post)

    def rederive():
        shapes = extract_contract.all_apply_shapes(repo)
        rows = []
        for s in shapes:
            m = re.match(r'⟨"(\w+)", (true|false),', s)
            rows.append(f"({lstr(m.group(1))}, {m.group(2)})")
        return table("applyRederives", "List (String × Bool)", rows, "every `apply` method: is its first statement `self.__attrs_post_init__()`?")

    def define_opts():
        rows = []
        for cls, file in [("Debiaser", BASES["Debiaser"]), ("RunningWindowDebiaser", BASES["RunningWindowDebiaser"])] + DEBIASERS:
            c = find_class(parse(repo, "debias", file), cls)
            decs = [d for d in c.decorator_list if ast.unparse(d.func if isinstance(d, ast.Call) else d) in ("attrs.define", "attrs.mutable", "attr.s", "attrs.frozen")]
            if len(decs) != 1:
                raise Unrecognised(f"{cls}: attrs decorator")
            d = decs[0]
            opts = [f"{k.arg}={norm(ast.unparse(k.value))}" for k in d.keywords] if isinstance(d, ast.Call) else []
            if ast.unparse(d.func if isinstance(d, ast.Call) else d) != "attrs.define":
                opts.insert(0, "decorator=" + ast.unparse(d.func if isinstance(d, ast.Call) else d))
            if any(isinstance(n, ast.FunctionDef) and n.name in ("__setattr__", "__getattr__", "__getattribute__") for n in c.body):
                opts.append("custom-attribute-access")
            rows.append(f"({lstr(cls)}, {llist(lstr(o) for o in opts)})")
        return table("defineOptions", "List (String × List String)", rows,
                     "options of the `@attrs.define(...)` decorator of every class of the hierarchy (attribute assignment converts + validates by default)")

    section("attrs.define", define_opts)
    section("apply", rederive)
    section("has_*", lambda: translate_has(repo))
    out.append("end Gen.Config")
    return "\n".join(out) + "\n", errors
