"""
Tier-A extractor for C14 (input contract): regenerates *data* from /repo's current AST.

  checkSteps      ordered (kind, argument, action) list of Debiaser._check_inputs_and_convert_if_possible
  outputSteps     the same for Debiaser._check_output
  helperDefs      source text of the helper predicates the kinds stand for
  applyShapes     order facts of every `apply` method defined in ibicus/debias (checks before the map, ...)
  timeSites       where the lengths of the time arrays are checked, under which guard, before the computation
  check_time_information   translation of utils/_utils.py: check_time_information_and_raise_error

Anything the extractor does not recognise is reported as an error (a broken tie); it never guesses.
"""
import ast
import glob
import os

DEB = "ibicus/debias/_debiaser.py"
UTILS = "ibicus/utils/_utils.py"

ARGS = {"obs": ".obs", "cm_hist": ".cmHist", "cm_future": ".cmFuture", "output": ".output"}
# helper -> (kind, polarity): polarity True = the `if` must test `not helper(x)`, False = `helper(x)`
HELPERS = {
    "_is_correct_type": ("isNdarray", True),
    "_has_float_dtype": ("floatDtype", True),
    "_has_correct_shape": ("ndim3", True),
    "_have_same_shape": ("sameSpatialShape", True),
    "_contains_inf_nan": ("infNan", False),
    "_not_if_or_nan_vals_outside_reasonable_physical_range": ("outOfRange", False),
    "_is_masked_array": ("masked", False),
}
CONVERTERS = {"floatDtype": "_convert_to_float_dtype", "masked": "_fill_masked_array_with_nan"}
HELPER_ORDER = [
    "_is_correct_type", "_has_correct_shape", "_have_same_shape", "_contains_inf_nan",
    "_not_if_or_nan_vals_outside_reasonable_physical_range", "_has_float_dtype", "_is_masked_array",
    "_masked_array_contains_invalid_values", "_convert_to_float_dtype", "_fill_masked_array_with_nan",
]
COMPUTE = {  # per-window computations whose first call a time check must precede
    "apply_location": ("apply_on_window", "_apply_on_within_year_window", "_apply_on_window", "step1"),
    "apply_on_window": ("_apply_debiasing_steps",),
}


class Unrecognised(Exception):
    pass


def lstr(s):
    return '"' + s.replace("\\", "\\\\").replace('"', '\\"') + '"'


def lbool(b):
    return "true" if b else "false"


def find_class(tree, name):
    for n in tree.body:
        if isinstance(n, ast.ClassDef) and n.name == name:
            return n
    raise Unrecognised(f"class {name} not found")


def find_method(cls, name):
    for n in cls.body:
        if isinstance(n, ast.FunctionDef) and n.name == name:
            return n
    return None


def strip_doc(body):
    if body and isinstance(body[0], ast.Expr) and isinstance(body[0].value, ast.Constant) and isinstance(body[0].value.value, str):
        return body[1:]
    return body


def helper_call(test):
    """`[not] (Debiaser|self).<helper>(args)` -> (helper, negated, [arg names])"""
    neg = False
    if isinstance(test, ast.UnaryOp) and isinstance(test.op, ast.Not):
        neg, test = True, test.operand
    if not (isinstance(test, ast.Call) and isinstance(test.func, ast.Attribute) and isinstance(test.func.value, ast.Name)
            and test.func.value.id in ("Debiaser", "self") and not test.keywords):
        raise Unrecognised(f"condition {ast.unparse(test)[:70]}")
    names = []
    for a in test.args:
        if not isinstance(a, ast.Name):
            raise Unrecognised(f"argument of {test.func.attr}: {ast.unparse(a)[:40]}")
        names.append(a.id)
    return test.func.attr, neg, names


def is_warn(st):
    return (isinstance(st, ast.Expr) and isinstance(st.value, ast.Call) and ast.unparse(st.value.func) == "warnings.warn")


def warn_mentions(st, name):
    msg = st.value.args[0] if st.value.args else None
    txt = ast.unparse(msg) if msg is not None else ""
    return name in txt or name == "output"


def step_of(st):
    """one top-level `if` of the check function -> (kind, arg, action)"""
    if not isinstance(st, ast.If) or st.orelse:
        raise Unrecognised(f"statement {ast.unparse(st)[:70]}")
    helper, neg, names = helper_call(st.test)
    if helper not in HELPERS:
        raise Unrecognised(f"unknown predicate {helper}")
    kind, want_neg = HELPERS[helper]
    if neg != want_neg:
        raise Unrecognised(f"polarity of {helper} is inverted")
    if kind == "sameSpatialShape":
        if names != ["obs", "cm_hist", "cm_future"]:
            raise Unrecognised(f"{helper} called on {names}")
        arg = ".all"
        aname = None
    else:
        if len(names) != 1 or names[0] not in ARGS:
            raise Unrecognised(f"{helper} called on {names}")
        aname = names[0]
        arg = ARGS[aname]
    body = st.body
    # raise X(...)
    if len(body) == 1 and isinstance(body[0], ast.Raise):
        exc = body[0].exc
        cls = exc.func.id if isinstance(exc, ast.Call) and isinstance(exc.func, ast.Name) else ast.unparse(exc)
        if cls == "TypeError":
            return kind, arg, ".raiseTypeError"
        if cls == "ValueError":
            return kind, arg, ".raiseValueError"
        raise Unrecognised(f"raises {cls}")
    # warn only
    if len(body) == 1 and is_warn(body[0]):
        if aname and not warn_mentions(body[0], aname):
            raise Unrecognised(f"warning of the {kind} check on {aname} names another argument")
        return kind, arg, ".warn"
    # warn (+ the masked either/or warning) then x = convert(x)
    if len(body) == 2 and isinstance(body[1], ast.Assign):
        w, asg = body
        if kind == "masked":
            ok = (isinstance(w, ast.If) and len(w.body) == 1 and len(w.orelse) == 1 and is_warn(w.body[0]) and is_warn(w.orelse[0]))
            if ok:
                h2, neg2, n2 = helper_call(w.test)
                ok = h2 == "_masked_array_contains_invalid_values" and not neg2 and n2 == [aname]
                ok = ok and "invalid data" in ast.unparse(w.body[0]) and "no invalid data" in ast.unparse(w.orelse[0])
            if not ok:
                raise Unrecognised("masked-array step: warning structure")
        elif not is_warn(w):
            raise Unrecognised(f"{kind} step: first statement is not a warning")
        conv = CONVERTERS.get(kind)
        want = f"{aname} = Debiaser.{conv}({aname})"
        if conv is None or ast.unparse(asg) != want:
            raise Unrecognised(f"{kind} step: conversion `{ast.unparse(asg)[:60]}` (expected `{want}`)")
        return kind, arg, ".warnAndConvert"
    raise Unrecognised(f"body of the {kind} step on {aname}")


def extract_steps(fn, allow_return):
    steps, errors = [], []
    returns_ok = not allow_return
    for st in strip_doc(fn.body):
        if isinstance(st, ast.Return):
            returns_ok = allow_return and ast.unparse(st.value) in ("(obs, cm_hist, cm_future)", "obs, cm_hist, cm_future")
            continue
        try:
            steps.append(step_of(st))
        except Unrecognised as ex:
            errors.append(f"untranslatable:{fn.name}: {ex}")
    return steps, returns_ok, errors


def helper_text(cls, name):
    fn = find_method(cls, name)
    if fn is None:
        return "<missing>"
    body = strip_doc(fn.body)
    if len(body) == 1 and isinstance(body[0], ast.Return):
        return ast.unparse(body[0].value)
    if name == "_convert_to_float_dtype" and len(body) == 1 and isinstance(body[0], ast.Try):
        t = body[0]
        try:
            h = t.handlers[0]
            exc = h.body[0].exc
            return (f"try: {ast.unparse(t.body[0])}; except {ast.unparse(h.type)}: raise "
                    f"{exc.func.id if isinstance(exc, ast.Call) else ast.unparse(exc)}")
        except Exception:  # noqa: BLE001
            return ast.unparse(t).replace("\n", "; ")
    return "; ".join(" ".join(ast.unparse(s).split()) for s in body)


# ------------------------------------------------------------------ apply methods
def calls_in(node):
    return [n for n in ast.walk(node) if isinstance(n, ast.Call)]


def apply_shape(clsname, fn):
    body = strip_doc(fn.body)
    post_first = bool(body) and ast.unparse(body[0]) == "self.__attrs_post_init__()"
    idx_check = idx_map = idx_out = idx_ret = None
    bound_ok = False
    map_args_ok = True
    out_sizes = []
    for k, st in enumerate(body):
        for c in calls_in(st):
            f = ast.unparse(c.func)
            if f == "self._check_inputs_and_convert_if_possible" and idx_check is None:
                idx_check = k
                bound_ok = (isinstance(st, ast.Assign) and ast.unparse(st.targets[0]) in ("(obs, cm_hist, cm_future)", "obs, cm_hist, cm_future")
                            and [ast.unparse(a) for a in c.args] == ["obs", "cm_hist", "cm_future"])
            if f in ("Debiaser.map_over_locations", "Debiaser.parallel_map_over_locations", "self.map_over_locations", "self.parallel_map_over_locations"):
                if idx_map is None:
                    idx_map = k
                kw = {x.arg: ast.unparse(x.value) for x in c.keywords if x.arg}
                out_sizes.append(f.split(".")[-1] + ":" + kw.get("output_size", ast.unparse(c.args[1]) if len(c.args) > 1 else "?"))
                if not (kw.get("obs") == "obs" and kw.get("cm_hist") == "cm_hist" and kw.get("cm_future") == "cm_future"):
                    map_args_ok = False
                if not (c.args and ast.unparse(c.args[0]) == "self.apply_location"):
                    map_args_ok = False
            if f == "self._check_output" and [ast.unparse(a) for a in c.args] == ["output"]:
                idx_out = k
        if isinstance(st, ast.Return):
            idx_ret = k
            if ast.unparse(st.value) != "output":
                idx_ret = -1
    # no other use of apply_location / rebinding of the inputs between the checks and the map
    rebinding = False
    if idx_check is not None and idx_map is not None:
        for st in body[idx_check + 1: idx_map]:
            for n in ast.walk(st):
                if isinstance(n, (ast.Assign, ast.AugAssign)):
                    tg = n.targets if isinstance(n, ast.Assign) else [n.target]
                    if any(isinstance(x, ast.Name) and x.id in ("obs", "cm_hist", "cm_future") for t in tg for x in ast.walk(t)):
                        rebinding = True
    before = idx_check is not None and idx_map is not None and idx_check < idx_map
    used = bound_ok and map_args_ok and not rebinding
    outchk = idx_out is not None and idx_map is not None and idx_ret is not None and idx_map < idx_out < idx_ret
    sizes = "[" + ", ".join(lstr(x) for x in out_sizes) + "]"
    return f"⟨{lstr(clsname)}, {lbool(post_first)}, {lbool(before)}, {lbool(used)}, {lbool(outchk)}, {sizes}⟩"


def all_apply_shapes(repo):
    out = []
    for path in sorted(glob.glob(os.path.join(repo, "ibicus", "debias", "_*.py"))):
        tree = ast.parse(open(path).read())
        for n in tree.body:
            if isinstance(n, ast.ClassDef):
                fn = find_method(n, "apply")
                if fn is not None:
                    out.append((n.name, apply_shape(n.name, fn)))
    order = {"Debiaser": 0, "DeltaChange": 1}
    out.sort(key=lambda x: (order.get(x[0], 9), x[0]))
    return [s for _, s in out]


DEBIASER_FILES = [("LinearScaling", "_linear_scaling.py"), ("DeltaChange", "_delta_change.py"), ("QuantileMapping", "_quantile_mapping.py"),
                  ("ScaledDistributionMapping", "_scaled_distribution_mapping.py"), ("CDFt", "_cdft.py"), ("ECDFM", "_ecdfm.py"),
                  ("QuantileDeltaMapping", "_quantile_delta_mapping.py"), ("ISIMIP", "_isimip.py")]
BASE_FILES = {"Debiaser": "_debiaser.py", "RunningWindowDebiaser": "_running_window_debiaser.py"}


def method_owners(repo, method):
    """for each of the eight debiasers: the first class along its (single-inheritance) base chain that defines `method`"""
    out = []
    for cls, file in DEBIASER_FILES:
        name, f = cls, file
        while True:
            c = find_class(ast.parse(open(os.path.join(repo, "ibicus", "debias", f)).read()), name)
            if find_method(c, method) is not None:
                out.append((cls, name))
                break
            nxt = next((b.id for b in c.bases if isinstance(b, ast.Name) and b.id in BASE_FILES), None)
            if nxt is None:
                raise Unrecognised(f"{cls}: no class in its base chain defines {method}")
            name, f = nxt, BASE_FILES[nxt]
    return out


# ------------------------------------------------------------------ time-check sites
def first_index(stmts, pred):
    for k, st in enumerate(stmts):
        if any(pred(n) for n in ast.walk(st)):
            return k
    return None


def site_in(clsname, fn, stmts, guard):
    """look for a time-length check directly in `stmts` (a method body or the body of a guarding `if self.<attr>:`)"""
    found = []
    compute = COMPUTE.get(fn.name, ())

    def is_compute(n):
        return isinstance(n, ast.Call) and isinstance(n.func, ast.Attribute) and n.func.attr in compute

    kc = first_index(stmts, is_compute)

    def infer_before(k):
        """how omitted time arrays are filled in by the statements before statement k"""
        found_inf = ""
        for st in stmts[:k]:
            if not isinstance(st, ast.If) or st.orelse:
                continue
            t = " ".join(ast.unparse(st.test).split())
            for b in st.body:
                if not isinstance(b, ast.Assign):
                    continue
                txt = " ".join(ast.unparse(b).split())
                call = "infer_and_create_time_arrays_if_not_given(obs, cm_hist, cm_future, time_obs, time_cm_hist, time_cm_future)"
                if (t == "time_obs is None or time_cm_hist is None or time_cm_future is None"
                        and txt in ("(time_obs, time_cm_hist, time_cm_future) = " + call, "time_obs, time_cm_hist, time_cm_future = " + call)):
                    found_inf = "all3-if-any-none"
                elif t == "time_cm_future is None" and txt == "time_cm_future = create_array_of_consecutive_dates(cm_future.size)":
                    found_inf = "future-if-none"
                elif "time_" in txt.split("=")[0]:
                    return "?" + txt[:60]  # some other rebinding of a time array before the check
        return found_inf

    for k, st in enumerate(stmts):
        kind = None
        if (isinstance(st, ast.Expr) and isinstance(st.value, ast.Call) and ast.unparse(st.value.func) == "check_time_information_and_raise_error"
                and [ast.unparse(a) for a in st.value.args] == ["obs", "cm_hist", "cm_future", "time_obs", "time_cm_hist", "time_cm_future"]):
            kind = "all3"
        elif (isinstance(st, ast.If) and ast.unparse(st.test) in ("np.size(time_cm_future) != cm_future.size", "time_cm_future.size != cm_future.size")
              and len(st.body) == 1 and isinstance(st.body[0], ast.Raise) and ast.unparse(st.body[0].exc).startswith("ValueError(")):
            kind = "future"
        if kind:
            found.append(f"⟨{lstr(clsname)}, {lstr(fn.name)}, {lstr(guard)}, {lstr(kind)}, {lbool(kc is None or k < kc)}, {lstr(infer_before(k))}⟩")
    return found


def time_sites(repo):
    out = []
    wanted = [("_running_window_debiaser.py", "RunningWindowDebiaser", "apply_location"), ("_delta_change.py", "DeltaChange", "apply_location"),
              ("_isimip.py", "ISIMIP", "apply_location"), ("_cdft.py", "CDFt", "apply_on_window"),
              ("_quantile_delta_mapping.py", "QuantileDeltaMapping", "apply_on_window")]
    # any further class in ibicus/debias that calls the check is listed as well (would change the table)
    seen = set()
    for file, cls, meth in wanted:
        tree = ast.parse(open(os.path.join(repo, "ibicus", "debias", file)).read())
        fn = find_method(find_class(tree, cls), meth)
        seen.add((cls, meth))
        if fn is None:
            continue
        body = strip_doc(fn.body)
        out += site_in(cls, fn, body, "")
        for st in body:
            if isinstance(st, ast.If) and isinstance(st.test, ast.Attribute) and ast.unparse(st.test.value) == "self":
                out += site_in(cls, fn, st.body, st.test.attr)
    for path in sorted(glob.glob(os.path.join(repo, "ibicus", "debias", "_*.py"))):
        tree = ast.parse(open(path).read())
        for c in tree.body:
            if not isinstance(c, ast.ClassDef):
                continue
            for fn in c.body:
                if isinstance(fn, ast.FunctionDef) and (c.name, fn.name) not in seen:
                    if any(isinstance(n, ast.Call) and ast.unparse(n.func) == "check_time_information_and_raise_error" for n in ast.walk(fn)):
                        out.append(f"⟨{lstr(c.name)}, {lstr(fn.name)}, \"?\", \"all3\", false, \"?\"⟩")
    return out


# ------------------------------------------------------------------ check_time_information_and_raise_error
def translate_check_time(repo):
    """`if a.size != b.size or ...: raise ValueError(...)` -> Lean over the six sizes"""
    tree = ast.parse(open(os.path.join(repo, UTILS)).read())
    fn = next((n for n in tree.body if isinstance(n, ast.FunctionDef) and n.name == "check_time_information_and_raise_error"), None)
    if fn is None:
        raise Unrecognised("check_time_information_and_raise_error not found")
    params = [a.arg for a in fn.args.args]
    if params != ["obs", "cm_hist", "cm_future", "time_obs", "time_cm_hist", "time_cm_future"]:
        raise Unrecognised(f"parameters {params}")
    body = strip_doc(fn.body)
    if not (len(body) == 1 and isinstance(body[0], ast.If) and not body[0].orelse and len(body[0].body) == 1
            and isinstance(body[0].body[0], ast.Raise)):
        raise Unrecognised("body is not a single `if ...: raise`")
    exc = body[0].body[0].exc
    cls = exc.func.id if isinstance(exc, ast.Call) and isinstance(exc.func, ast.Name) else ast.unparse(exc)

    def size(e):
        if isinstance(e, ast.Attribute) and e.attr == "size" and isinstance(e.value, ast.Name) and e.value.id in params:
            return e.value.id
        raise Unrecognised(f"operand {ast.unparse(e)}")

    def cond(e):
        if isinstance(e, ast.BoolOp):
            op = " ∨ " if isinstance(e.op, ast.Or) else " ∧ "
            return "(" + op.join(cond(v) for v in e.values) + ")"
        if isinstance(e, ast.UnaryOp) and isinstance(e.op, ast.Not):
            return f"(¬ {cond(e.operand)})"
        if isinstance(e, ast.Compare) and len(e.ops) == 1:
            o = {ast.NotEq: "≠", ast.Eq: "=", ast.Lt: "<", ast.Gt: ">", ast.LtE: "≤", ast.GtE: "≥"}.get(type(e.ops[0]))
            if o is None:
                raise Unrecognised("comparison operator")
            return f"({size(e.left)} {o} {size(e.comparators[0])})"
        raise Unrecognised(f"condition {ast.unparse(e)[:60]}")

    c = cond(body[0].test)
    sig = " ".join(f"({p} : Int)" for p in params)
    return (f"/-- generated from `{UTILS}`: `check_time_information_and_raise_error` (arguments = the `.size` of each array) -/\n"
            f"def check_time_information {sig} : Except String Unit :=\n  if {c} then (.error {lstr(cls)}) else (.ok ())\n")


def translate_infer_time(repo):
    """`if <None-tests>: t = create_array_of_consecutive_dates(s.size)` ... `return time_obs, time_cm_hist, time_cm_future`
    -> Lean over sizes, time sizes as `Option Int` (none = not given)"""
    tree = ast.parse(open(os.path.join(repo, UTILS)).read())
    fn = next((n for n in tree.body if isinstance(n, ast.FunctionDef) and n.name == "infer_and_create_time_arrays_if_not_given"), None)
    if fn is None:
        raise Unrecognised("infer_and_create_time_arrays_if_not_given not found")
    params = [a.arg for a in fn.args.args]
    series, times = ["obs", "cm_hist", "cm_future"], ["time_obs", "time_cm_hist", "time_cm_future"]
    if params != series + times:
        raise Unrecognised(f"parameters {params}")

    def cond(e):
        if isinstance(e, ast.BoolOp):
            op = " || " if isinstance(e.op, ast.Or) else " && "
            return "(" + op.join(cond(v) for v in e.values) + ")"
        if isinstance(e, ast.UnaryOp) and isinstance(e.op, ast.Not):
            return f"(!{cond(e.operand)})"
        if (isinstance(e, ast.Compare) and len(e.ops) == 1 and isinstance(e.comparators[0], ast.Constant) and e.comparators[0].value is None
                and isinstance(e.left, ast.Name) and e.left.id in times):
            if isinstance(e.ops[0], ast.Is):
                return f"({e.left.id}).isNone"
            if isinstance(e.ops[0], ast.IsNot):
                return f"({e.left.id}).isSome"
        raise Unrecognised(f"condition {ast.unparse(e)[:60]}")

    body = []
    returned = False
    for k, st in enumerate(strip_doc(fn.body)):
        if isinstance(st, ast.If) and not st.orelse:
            body.append(f"  let c_{k} : Bool := {cond(st.test)}")
            for b in st.body:
                ok = (isinstance(b, ast.Assign) and len(b.targets) == 1 and isinstance(b.targets[0], ast.Name) and b.targets[0].id in times
                      and isinstance(b.value, ast.Call) and ast.unparse(b.value.func) == "create_array_of_consecutive_dates" and len(b.value.args) == 1
                      and not b.value.keywords and isinstance(b.value.args[0], ast.Attribute) and b.value.args[0].attr == "size"
                      and isinstance(b.value.args[0].value, ast.Name) and b.value.args[0].value.id in series)
                if not ok:
                    raise Unrecognised(f"statement {ast.unparse(b)[:60]}")
                body.append(f"  let {b.targets[0].id} : Option Int := if c_{k} then some {b.value.args[0].value.id} else {b.targets[0].id}")
        elif isinstance(st, ast.Return) and " ".join(ast.unparse(st.value).split()) in ("(time_obs, time_cm_hist, time_cm_future)", "time_obs, time_cm_hist, time_cm_future"):
            body.append("  (time_obs, time_cm_hist, time_cm_future)")
            returned = True
        else:
            raise Unrecognised(f"statement {ast.unparse(st)[:60]}")
    if not returned:
        raise Unrecognised("no `return time_obs, time_cm_hist, time_cm_future`")
    sig = " ".join(f"({p} : Int)" for p in series) + " " + " ".join(f"({p} : Option Int)" for p in times)
    return (f"/-- generated from `{UTILS}`: `infer_and_create_time_arrays_if_not_given` (series as their `.size`, time arrays as the size "
            f"they were given with, `none` = not given) -/\ndef infer_time {sig} : Option Int × Option Int × Option Int :=\n" + "\n".join(body) + "\n")


# ------------------------------------------------------------------ group entry point
def generate(repo):
    errors = []
    out = ["", "import IbicusModel.Model.Contract", "", "namespace Gen.Contract", "open Model.Contract", ""]
    tree = ast.parse(open(os.path.join(repo, DEB)).read())
    deb = find_class(tree, "Debiaser")

    def emit_steps(name, fn_name, allow_return):
        fn = find_method(deb, fn_name)
        if fn is None:
            errors.append(f"untranslatable:{fn_name}: not found")
            steps, ret = [], False
        else:
            steps, ret, errs = extract_steps(fn, allow_return)
            errors.extend(errs)
        out.append(f"/-- generated from `{DEB}`: `Debiaser.{fn_name}` (ordered) -/")
        out.append(f"def {name} : List Step := [")
        out.append(",\n".join(f"  ⟨.{k}, {a}, {act}⟩" for k, a, act in steps) + "]")
        out.append("")
        return ret

    ret_ok = emit_steps("checkSteps", "_check_inputs_and_convert_if_possible", True)
    out.append("/-- the check function returns `obs, cm_hist, cm_future` (the converted arrays, in this order) -/")
    out.append(f"def returnsConverted : Bool := {lbool(ret_ok)}")
    out.append("")
    emit_steps("outputSteps", "_check_output", False)

    out.append("/-- source text of the helper predicates / converters -/")
    out.append("def helperDefs : List (String × String) := [")
    out.append(",\n".join(f"  ({lstr(h)}, {lstr(helper_text(deb, h))})" for h in HELPER_ORDER) + "]")
    out.append("")

    try:
        shapes = all_apply_shapes(repo)
    except (Unrecognised, OSError, SyntaxError) as ex:
        errors.append(f"untranslatable:apply: {ex}")
        shapes = []
    out.append("/-- every `apply` method defined in ibicus/debias/_*.py -/")
    out.append("def applyShapes : List ApplyShape := [\n" + ",\n".join("  " + s for s in shapes) + "]")
    out.append("")

    try:
        sites = time_sites(repo)
    except (Unrecognised, OSError, SyntaxError) as ex:
        errors.append(f"untranslatable:time_sites: {ex}")
        sites = []
    out.append("/-- where time-array lengths are checked -/")
    out.append("def timeSites : List TimeSite := [\n" + ",\n".join("  " + s for s in sites) + "]")
    out.append("")

    try:
        owners = method_owners(repo, "apply_location")
    except (Unrecognised, OSError, SyntaxError) as ex:
        errors.append(f"untranslatable:apply_location owners: {ex}")
        owners = []
    out.append("/-- per debiaser: the class (own or inherited) whose `apply_location` it runs -/")
    out.append("def applyLocationOwner : List (String × String) := [\n" + ",\n".join(f"  ({lstr(c)}, {lstr(o)})" for c, o in owners) + "]")
    out.append("")

    try:
        out.append(translate_check_time(repo))
    except (Unrecognised, OSError, SyntaxError) as ex:
        errors.append(f"untranslatable:check_time_information_and_raise_error: {ex}")
    try:
        out.append(translate_infer_time(repo))
    except (Unrecognised, OSError, SyntaxError) as ex:
        errors.append(f"untranslatable:infer_and_create_time_arrays_if_not_given: {ex}")
    out.append("end Gen.Contract")
    return "\n".join(out) + "\n", errors
