"""
Tier-A extractor for C05 / C13 ("grid tier A, semantic"): the *structure* of the grid map, as data regenerated from /repo's
current AST in the DSL of lean/IbicusModel/Model/GridLoops.lean.

  catchSpec       Debiaser._run_func_on_location_and_catch_error  (try / caught class / failsafe flag -> NaN or re-raise)
  serialSpec      Debiaser.map_over_locations                     (allocation, iteration, per-cell slices, call, write)
  parallelSpec    Debiaser.parallel_map_over_locations            (index list, pool, argument tuples, write-back loop)
  applyDebiaser   Debiaser.apply                                  (post-init, input check, branch calls, output check, return)
  applyDeltaChange DeltaChange.apply

How a function is read.  It is evaluated *symbolically*, statement by statement: every local name is bound to its ROLE.
Parameters get their role from their POSITION in the current signature (wrapper: data argument 0/1/2, func, flag; map
functions: func, output_size, the arrays obs / hist / fut; apply: self, obs, hist, fut) — parameters with a default are
interface names (`failsafe`, `parallel`, `progressbar`, `nr_processes`).  A call of one of these functions is bound to the
callee's *current* signature the way Python binds it (positional by position, keywords by name, the rest to `**kwargs`), so
the spec says which role reaches which parameter position, not which names were used.  Locals (`output`, `indices`, `i`,
`j`, `k`, `index`, `result`, `pool`, …) are resolved to what they denote: the buffer, a cell enumeration (its defining
expression), a component of the current cell, the position in the enumeration, the result list.

Part of the identity: allocation (function, size expression, dtype source), what the loops run over (including which shape
axes), the loop-target order, every slice (array, index order), which wrapper parameter each slice / flag / func reaches,
whether `**kwargs` is forwarded, the caught exception class, both exits of the handler, the pool construction / map method /
chunksize, over what the argument list and the write-back run and that the written value is the result at the same position,
write targets, the order post-init -> input check -> dispatch -> output check -> return, which array sizes the output.
NOT part of the identity: names of locals and parameters (as long as binding still works), docstrings, comments, formatting,
`warnings.warn(...)`, logging (`logger = get_library_logger()`, `logger.<x>(...)`), the verification hook
`_verif_mark_unassigned(...)`, the progress bar (`if progressbar: indices = tqdm(indices, ...)`), `if …: warnings.warn(...)`.

Anything that does not have the expected syntactic shape raises `Shape` (a broken tie); the extractor never guesses.
"""
import ast
import os

DEB_FILE = "ibicus/debias/_debiaser.py"
DC_FILE = "ibicus/debias/_delta_change.py"
WRAPPER = "_run_func_on_location_and_catch_error"
SERIAL = "map_over_locations"
PARALLEL = "parallel_map_over_locations"
SERIES = ("obs", "hist", "fut")
AXES = ("t", "x", "y")
IGNORED_CALLS = {"warnings.warn", "_verif_mark_unassigned"}
LOGGER_FACTORIES = {"get_library_logger"}


class Shape(ValueError):
    pass


def lstr(s):
    return '"' + s.replace("\\", "\\\\").replace('"', '\\"').replace("\n", " ") + '"'


def src(node, n=70):
    return ast.unparse(node)[:n]


def find_class(tree, name):
    hits = [n for n in tree.body if isinstance(n, ast.ClassDef) and n.name == name]
    if len(hits) != 1:
        raise Shape(f"class {name}: expected exactly one definition, found {len(hits)}")
    return hits[0]


def find_method(cls, name):
    hits = [n for n in cls.body if isinstance(n, ast.FunctionDef) and n.name == name]
    if len(hits) != 1:
        raise Shape(f"{cls.name}.{name}: expected exactly one definition, found {len(hits)}")
    return hits[0]


def is_docstring(st):
    return isinstance(st, ast.Expr) and isinstance(st.value, ast.Constant) and isinstance(st.value.value, str)


class Fn:
    """a function under symbolic evaluation: the environment name -> role, and the set of logger names"""

    def __init__(self, where, fn):
        self.where = where
        self.fn = fn
        self.env = {}
        self.loggers = set()
        self.locals = {}

    def fail(self, msg):
        raise Shape(f"{self.where}: {msg}")

    def bind(self, name, role):
        self.env[name] = role
        self.locals.setdefault(role_name(role), [])
        if name not in self.locals[role_name(role)]:
            self.locals[role_name(role)].append(name)

    # ---- statements that are not part of the identity
    def ignored(self, st):
        if is_docstring(st) or isinstance(st, ast.Pass):
            return True
        if isinstance(st, ast.Assign) and len(st.targets) == 1 and isinstance(st.targets[0], ast.Name) \
                and isinstance(st.value, ast.Call) and ast.unparse(st.value.func) in LOGGER_FACTORIES and not st.value.args and not st.value.keywords:
            self.loggers.add(st.targets[0].id)
            return True
        if isinstance(st, ast.Expr) and isinstance(st.value, ast.Call):
            f = st.value.func
            if ast.unparse(f) in IGNORED_CALLS:
                return True
            if isinstance(f, ast.Attribute) and isinstance(f.value, ast.Name) and f.value.id in self.loggers and f.value.id not in self.env:
                return True
        if isinstance(st, ast.If) and not st.orelse and st.body and all(
                isinstance(s, ast.Expr) and isinstance(s.value, ast.Call) and ast.unparse(s.value.func) == "warnings.warn" for s in st.body):
            self.ev_test_is_pure(st.test)
            return True
        return False

    def ev_test_is_pure(self, t):
        """the test of an ignored `if …: warnings.warn(…)` must be a plain parameter name (no call, no assignment expression)"""
        if not isinstance(t, ast.Name) or t.id not in self.env:
            self.fail(f"unexpected test of a warning-only `if`: `{src(t)}`")

    def stmts(self, body):
        return [s for s in body if not self.ignored(s)]

    # ---- signature
    def signature(self, n_required, first_self=False):
        """positional parameters without default (exactly n_required), parameters with default {name: constant}, **kwargs name"""
        a = self.fn.args
        if a.posonlyargs or a.kwonlyargs or a.vararg or a.kw_defaults:
            self.fail(f"unexpected signature ({src(a, 120)})")
        names = [p.arg for p in a.args]
        nd = len(a.defaults)
        req, opt = names[: len(names) - nd], names[len(names) - nd:]
        if len(req) != n_required:
            self.fail(f"expected {n_required} parameters without default, found {req}")
        if first_self and req[0] != "self":
            self.fail("first parameter is not self")
        defaults = {}
        for n, d in zip(opt, a.defaults):
            if not isinstance(d, ast.Constant):
                self.fail(f"default of {n} is not a constant")
            defaults[n] = d.value
        if a.kwarg is None:
            self.fail("no **kwargs parameter")
        return req, opt, defaults, a.kwarg.arg

    def static(self):
        if [ast.unparse(d) for d in self.fn.decorator_list] != ["staticmethod"]:
            self.fail("expected a plain @staticmethod")

    # ---- expressions -> roles
    def ev(self, node):
        if isinstance(node, ast.Name):
            if node.id not in self.env:
                self.fail(f"unknown name `{node.id}`")
            return self.env[node.id]
        if isinstance(node, ast.Tuple):
            return ("tuple", [self.ev(e) for e in node.elts])
        if isinstance(node, ast.Attribute):
            base = self.ev(node.value)
            if node.attr == "shape" and base[0] == "arr":
                return ("shape", ("ofArr", base[1]))
            if node.attr == "dtype" and base[0] == "arr":
                return ("dtype", base[1])
            if node.attr == "apply_location" and base == ("self",):
                return ("applyLocation",)
            self.fail(f"unexpected attribute `{src(node)}`")
        if isinstance(node, ast.Subscript):
            base = self.ev(node.value)
            sl = node.slice
            if base[0] == "shape":
                if isinstance(sl, ast.Constant) and isinstance(sl.value, int) and not isinstance(sl.value, bool) and 0 <= sl.value <= 2:
                    return ("dim", base[1], sl.value)
                if isinstance(sl, ast.Slice) and sl.upper is None and sl.step is None and isinstance(sl.lower, ast.Constant) and sl.lower.value == 1:
                    return ("shapeTail", base[1])
                self.fail(f"unexpected index into a shape `{src(node)}`")
            if base[0] in ("arr", "buffer"):
                if not (isinstance(sl, ast.Tuple) and len(sl.elts) == 3):
                    self.fail(f"unexpected index `{src(node)}` (expected `[:, i, j]`)")
                t, i, j = sl.elts
                if not (isinstance(t, ast.Slice) and t.lower is None and t.upper is None and t.step is None):
                    self.fail(f"the time index of `{src(node)}` is not `:`")
                ci, cj = self.ev(i), self.ev(j)
                if ci[0] != "comp" or cj[0] != "comp":
                    self.fail(f"`{src(node)}` is not indexed by components of the current cell")
                return ("col", base, ci[1], cj[1])
            if base[0] == "cell":
                if isinstance(sl, ast.Constant) and sl.value in (0, 1) and not isinstance(sl.value, bool):
                    return ("comp", sl.value)
                self.fail(f"unexpected component `{src(node)}`")
            if base[0] == "results":
                if self.ev(sl) != ("pos",):
                    self.fail(f"`{src(node)}`: the result list is not indexed by the position in the enumeration")
                return ("resultAtPos", base[1])
            self.fail(f"unexpected subscript `{src(node)}`")
        if isinstance(node, ast.ListComp):
            return self.comprehension(node)
        if isinstance(node, ast.Call):
            f = ast.unparse(node.func)
            if f == "np.ndindex" and not node.keywords:
                if len(node.args) == 1 and isinstance(node.args[0], ast.Starred):
                    a = self.ev(node.args[0].value)
                    if a[0] == "shapeTail":
                        return ("cells", ("ndindexTail", a[1]))
                elif len(node.args) == 1:
                    a = self.ev(node.args[0])
                    if a[0] == "shapeTail":
                        return ("cells", ("ndindexTail", a[1]))
                    if a[0] == "tuple" and len(a[1]) == 2 and all(x[0] == "dim" for x in a[1]):
                        return ("cells", ("ndindexDims", a[1][0], a[1][1]))
                elif len(node.args) == 2:
                    a = [self.ev(x) for x in node.args]
                    if all(x[0] == "dim" for x in a):
                        return ("cells", ("ndindexDims", a[0], a[1]))
                self.fail(f"unexpected np.ndindex call `{src(node)}`")
            if f == "list" and len(node.args) == 1 and not node.keywords:
                a = self.ev(node.args[0])
                if a[0] == "cells":
                    return a
                self.fail(f"unexpected list(...) `{src(node)}`")
        self.fail(f"unexpected expression `{src(node)}`")

    def comprehension(self, node):
        """`[(i, j) for i in range(D0) for j in range(D1)]` -> cells"""
        if len(node.generators) != 2:
            self.fail(f"unexpected comprehension `{src(node)}`")
        dims, names = [], []
        for g in node.generators:
            if g.ifs or g.is_async or not isinstance(g.target, ast.Name):
                self.fail(f"unexpected generator in `{src(node)}`")
            it = g.iter
            if not (isinstance(it, ast.Call) and ast.unparse(it.func) == "range" and len(it.args) == 1 and not it.keywords):
                self.fail(f"generator of `{src(node)}` does not run over range(<dimension>)")
            d = self.ev(it.args[0])
            if d[0] != "dim":
                self.fail(f"`{src(it)}`: not a dimension of a shape")
            dims.append(d)
            names.append(g.target.id)
        if names[0] == names[1] or any(n in self.env for n in names):
            self.fail(f"comprehension variables of `{src(node)}` shadow a name")
        e = node.elt
        if not (isinstance(e, ast.Tuple) and len(e.elts) == 2 and all(isinstance(x, ast.Name) and x.id in names for x in e.elts)):
            self.fail(f"element of `{src(node)}` is not a pair of the two loop variables")
        return ("cells", ("comprehension", dims[0], dims[1], names.index(e.elts[0].id), names.index(e.elts[1].id)))

    def bind_cell_target(self, t):
        """loop target for one cell: `(i, j)` or a single name"""
        if isinstance(t, ast.Tuple) and len(t.elts) == 2 and all(isinstance(x, ast.Name) for x in t.elts) and t.elts[0].id != t.elts[1].id:
            self.bind(t.elts[0].id, ("comp", 0))
            self.bind(t.elts[1].id, ("comp", 1))
        elif isinstance(t, ast.Name):
            self.bind(t.id, ("cell",))
        else:
            self.fail(f"unexpected loop target `{src(t)}`")


def role_name(r):
    if r[0] == "arr":
        return r[1]
    if r[0] == "comp":
        return f"cell[{r[1]}]"
    if r[0] == "cells":
        return "cells"
    if r[0] == "opt":
        return f"param {r[1]}"
    if r[0] == "warg":
        return f"data argument {r[1]}"
    return r[0]


def bind_call(where, call, sig, prebound=None):
    """bind the arguments of `call` to the parameters of signature `sig` = (required, optional, defaults, kwarg) the way Python
    does; returns ({parameter name: ast node}, star_kwargs_node or None).  `prebound`: (positional nodes, {name: node}, star) of
    an enclosing functools.partial"""
    req, opt, _defaults, _kw = sig
    params = req + opt
    bound = {}
    pos = []
    star = None
    if prebound:
        pos += prebound[0]
        for k, v in prebound[1].items():
            bound[k] = v
        star = prebound[2]
    pos += list(call["args"])
    if len(pos) > len(params):
        raise Shape(f"{where}: too many positional arguments")
    for p, a in zip(params, pos):
        if p in bound:
            raise Shape(f"{where}: parameter {p} bound twice")
        bound[p] = a
    for k, v in call["keywords"].items():
        if k not in params:
            raise Shape(f"{where}: keyword `{k}` is not a parameter of the callee (it would end up in **kwargs)")
        if k in bound:
            raise Shape(f"{where}: parameter {k} bound twice")
        bound[k] = v
    if call["star"] is not None:
        if star is not None:
            raise Shape(f"{where}: ** forwarded twice")
        star = call["star"]
    for p in req:
        if p not in bound:
            raise Shape(f"{where}: required parameter {p} of the callee is not bound")
    return bound, star


def split_call(where, c, skip_first=False):
    if any(isinstance(a, ast.Starred) for a in c.args):
        raise Shape(f"{where}: unexpected * argument")
    kws, star = {}, None
    for k in c.keywords:
        if k.arg is None:
            if star is not None:
                raise Shape(f"{where}: two ** arguments")
            star = k.value
        else:
            if k.arg in kws:
                raise Shape(f"{where}: keyword {k.arg} twice")
            kws[k.arg] = k.value
    return dict(args=list(c.args[1:] if skip_first else c.args), keywords=kws, star=star)


# ------------------------------------------------------------------------------------------------ the catch wrapper
def extract_catch(deb):
    f = Fn(f"Debiaser.{WRAPPER}", find_method(deb, WRAPPER))
    f.static()
    req, opt, defaults, kw = f.signature(4)
    if len(opt) != 1 or defaults[opt[0]] is not False:
        f.fail(f"expected exactly one parameter with default False (the failsafe flag), found {defaults}")
    for k in range(3):
        f.bind(req[k], ("warg", k))
    f.bind(req[3], ("func",))
    f.bind(opt[0], ("flag",))
    f.bind(kw, ("kwargs",))
    body = f.stmts(f.fn.body)
    if len(body) != 1 or not isinstance(body[0], ast.Try) or body[0].orelse or body[0].finalbody or len(body[0].handlers) != 1:
        f.fail("expected a single try / except")
    tr, h = body[0], body[0].handlers[0]
    # ---- try: return func(a, b, c, **kwargs)
    tb = f.stmts(tr.body)
    if len(tb) != 1 or not isinstance(tb[0], ast.Return) or not isinstance(tb[0].value, ast.Call):
        f.fail("the try body is not a single `return <call>`")
    c = tb[0].value
    if f.ev(c.func) != ("func",):
        f.fail(f"the try body does not call the func parameter: `{src(c)}`")
    parts = split_call(f.where, c)
    if parts["keywords"]:
        f.fail(f"unexpected keyword arguments in `{src(c)}`")
    args = [f.ev(a) for a in parts["args"]]
    if len(args) != 3 or any(a[0] != "warg" for a in args):
        f.fail(f"func is not called with three of the data parameters: `{src(c)}`")
    star = parts["star"] is not None
    if star and f.ev(parts["star"]) != ("kwargs",):
        f.fail(f"unexpected ** argument in `{src(c)}`")
    # ---- except <class> [as e]:
    if h.type is None:
        exc = ".baseException"
    elif isinstance(h.type, ast.Name):
        exc = {"Exception": ".exception", "BaseException": ".baseException"}.get(h.type.id, f".named {lstr(h.type.id)}")
    else:
        f.fail(f"unexpected exception class `{src(h.type)}`")
    if h.name:
        f.bind(h.name, ("exc",))
    hb = f.stmts(h.body)
    if len(hb) != 1 or not isinstance(hb[0], ast.If) or not hb[0].orelse:
        f.fail("the handler is not a single `if <flag>: … else: …`")
    if not isinstance(hb[0].test, ast.Name) or f.ev(hb[0].test) != ("flag",):
        f.fail(f"the handler does not test the failsafe parameter: `{src(hb[0].test)}`")

    def exit_of(stmts, which):
        ss = f.stmts(stmts)
        if len(ss) != 1:
            f.fail(f"the {which} branch of the handler is not a single exit statement")
        s = ss[0]
        if isinstance(s, ast.Raise) and s.cause is None and (s.exc is None or (isinstance(s.exc, ast.Name) and f.ev(s.exc) == ("exc",))):
            return ".reraise"
        if isinstance(s, ast.Return) and s.value is not None and ast.unparse(s.value) in ("np.nan", "numpy.nan", "float('nan')", "np.NaN"):
            return ".returnNan"
        f.fail(f"unexpected exit of the handler: `{src(s)}`")

    spec = dict(tryArgs=[a[1] for a in args], star=star, exc=exc, flagDefault=False,
                onTrue=exit_of(hb[0].body, "failsafe"), onFalse=exit_of(hb[0].orelse, "else"))
    sig = (req, opt, defaults, kw)
    return spec, sig, f


# ------------------------------------------------------------------------------------------------ calls through the wrapper
def wrapper_call(f, bound, star, wsig):
    """the arguments bound to the wrapper's parameters -> WrapCall fields"""
    req, opt, _d, _kw = wsig
    cols = []
    for k in range(3):
        r = f.ev(bound[req[k]])
        if r[0] != "col" or r[1][0] != "arr":
            f.fail(f"data parameter {k} of the wrapper receives `{src(bound[req[k]])}`, not a column of an input array")
        cols.append((r[1][1], r[2], r[3]))
    if f.ev(bound[req[3]]) != ("func",):
        f.fail(f"the wrapper's func parameter receives `{src(bound[req[3]])}`, not the map function's func parameter")
    if opt[0] in bound:
        n = bound[opt[0]]
        if isinstance(n, ast.Constant) and isinstance(n.value, bool):
            flag = f".const {'true' if n.value else 'false'}"
        elif f.ev(n) == ("opt", "failsafe"):
            flag = ".param"
        else:
            f.fail(f"the wrapper's flag receives `{src(n)}`")
    else:
        flag = ".omitted"
    st = star is not None
    if st and f.ev(star) != ("kwargs",):
        f.fail(f"unexpected ** argument `{src(star)}`")
    return dict(cols=cols, flag=flag, star=st)


def is_wrapper_ref(node):
    return ast.unparse(node) == f"Debiaser.{WRAPPER}"


def map_signature(f):
    """(func, output_size, obs, cm_hist, cm_future, <defaulted…>, **kwargs): roles by position; `failsafe` must be among the defaulted"""
    f.static()
    req, opt, defaults, kw = f.signature(5)
    f.bind(req[0], ("func",))
    f.bind(req[1], ("shape", ("outputSize",)))
    for k in range(3):
        f.bind(req[2 + k], ("arr", SERIES[k]))
    if "failsafe" not in defaults or defaults["failsafe"] is not False:
        f.fail("no parameter `failsafe=False`")
    for n in opt:
        f.bind(n, ("opt", n))
    f.bind(kw, ("kwargs",))
    return (req, opt, defaults, kw)


def alloc_of(f, st):
    """`X = np.empty(<output_size>, dtype=<arr>.dtype)`"""
    if not (isinstance(st, ast.Assign) and len(st.targets) == 1 and isinstance(st.targets[0], ast.Name) and isinstance(st.value, ast.Call)):
        return None
    c = st.value
    fn = ast.unparse(c.func)
    if fn not in ("np.empty", "np.zeros", "np.ones", "np.full", "np.empty_like", "np.zeros_like"):
        return None
    if fn != "np.empty":
        f.fail(f"the buffer is allocated with {fn}")
    parts = split_call(f.where, c)
    if len(parts["args"]) != 1 or set(parts["keywords"]) != {"dtype"} or parts["star"] is not None:
        f.fail(f"unexpected allocation `{src(c)}`")
    size = f.ev(parts["args"][0])
    dt = f.ev(parts["keywords"]["dtype"])
    if size[0] != "shape" or dt[0] != "dtype":
        f.fail(f"unexpected allocation `{src(c)}`")
    f.bind(st.targets[0].id, ("buffer",))
    return dict(fn=fn, size=size[1], dtype=dt[1])


def is_progressbar_wrap(f, st):
    """`if progressbar: indices = tqdm(indices, total=…)` — the iterable is passed through unchanged"""
    if not (isinstance(st, ast.If) and not st.orelse and isinstance(st.test, ast.Name) and f.env.get(st.test.id) == ("opt", "progressbar")):
        return False
    if len(st.body) != 1:
        f.fail("unexpected progress-bar statement")
    s = st.body[0]
    if not (isinstance(s, ast.Assign) and len(s.targets) == 1 and isinstance(s.targets[0], ast.Name) and isinstance(s.value, ast.Call)
            and ast.unparse(s.value.func) == "tqdm" and len(s.value.args) == 1 and isinstance(s.value.args[0], ast.Name)
            and s.value.args[0].id == s.targets[0].id and f.env.get(s.targets[0].id, ("?",))[0] == "cells"
            and all(k.arg in ("total", "desc", "disable", "leave") for k in s.value.keywords)):
        f.fail(f"unexpected progress-bar statement `{src(s)}`")
    return True


def write_target(f, t):
    if not isinstance(t, ast.Subscript):
        f.fail(f"unexpected assignment target `{src(t)}`")
    r = f.ev(t)
    if r[0] != "col" or r[1] != ("buffer",):
        f.fail(f"write into something that is not a column of the result buffer: `{src(t)}`")
    return (r[2], r[3])


def returns_buffer(f, st):
    if not (isinstance(st, ast.Return) and st.value is not None and isinstance(st.value, ast.Name) and f.ev(st.value) == ("buffer",)):
        f.fail(f"expected `return <buffer>`, found `{src(st)}`")


# ------------------------------------------------------------------------------------------------ the serial map
def extract_serial(deb, wsig):
    f = Fn(f"Debiaser.{SERIAL}", find_method(deb, SERIAL))
    sig = map_signature(f)
    alloc = cells = call = target = None
    state = "pre"
    for st in f.stmts(f.fn.body):
        if state == "done":
            f.fail(f"statement after the return: `{src(st)}`")
        if state == "post":
            returns_buffer(f, st)
            state = "done"
            continue
        if is_progressbar_wrap(f, st):
            continue
        a = alloc_of(f, st)
        if a is not None:
            if alloc is not None:
                f.fail("two allocations")
            alloc = a
            continue
        if isinstance(st, ast.Assign) and len(st.targets) == 1 and isinstance(st.targets[0], ast.Name):
            f.bind(st.targets[0].id, f.ev(st.value))
            continue
        if isinstance(st, ast.Assign) and len(st.targets) == 1 and isinstance(st.targets[0], ast.Tuple) and isinstance(st.value, ast.Tuple) \
                and len(st.targets[0].elts) == len(st.value.elts) and all(isinstance(x, ast.Name) for x in st.targets[0].elts):
            vals = [f.ev(v) for v in st.value.elts]
            for x, v in zip(st.targets[0].elts, vals):
                f.bind(x.id, v)
            continue
        if isinstance(st, ast.For):
            if st.orelse or alloc is None:
                f.fail("unexpected loop (no buffer yet, or a for-else)")
            it = f.ev(st.iter)
            if it[0] != "cells":
                f.fail(f"the loop does not run over a cell enumeration: `{src(st.iter)}`")
            cells = it[1]
            f.bind_cell_target(st.target)
            body = f.stmts(st.body)
            if len(body) != 1 or not (isinstance(body[0], ast.Assign) and len(body[0].targets) == 1):
                f.fail("the loop body is not a single assignment")
            asg = body[0]
            target = write_target(f, asg.targets[0])
            v = asg.value
            if not (isinstance(v, ast.Call) and is_wrapper_ref(v.func)):
                f.fail(f"the written value is not a call of Debiaser.{WRAPPER}: `{src(v)}`")
            bound, star = bind_call(f.where, split_call(f.where, v), wsig)
            call = wrapper_call(f, bound, star, wsig)
            state = "post"
            continue
        f.fail(f"unexpected statement `{src(st)}`")
    if state != "done":
        f.fail("no loop followed by the return of the buffer was found")
    return dict(failsafeDefault=False, alloc=alloc, cells=cells, call=call, target=target), sig, f


# ------------------------------------------------------------------------------------------------ the parallel map
def extract_parallel(deb, wsig):
    f = Fn(f"Debiaser.{PARALLEL}", find_method(deb, PARALLEL))
    sig = map_signature(f)
    alloc = pool = args_over = call = write_over = target = None
    state = "pre"
    for st in f.stmts(f.fn.body):
        if state == "done":
            f.fail(f"statement after the return: `{src(st)}`")
        if state == "post":
            returns_buffer(f, st)
            state = "done"
            continue
        a = alloc_of(f, st)
        if a is not None:
            if alloc is not None:
                f.fail("two allocations")
            alloc = a
            continue
        if isinstance(st, ast.Assign) and len(st.targets) == 1 and isinstance(st.targets[0], ast.Name):
            f.bind(st.targets[0].id, f.ev(st.value))
            continue
        if isinstance(st, ast.Assign) and len(st.targets) == 1 and isinstance(st.targets[0], ast.Tuple) and isinstance(st.value, ast.Tuple) \
                and len(st.targets[0].elts) == len(st.value.elts) and all(isinstance(x, ast.Name) for x in st.targets[0].elts):
            vals = [f.ev(v) for v in st.value.elts]
            for x, v in zip(st.targets[0].elts, vals):
                f.bind(x.id, v)
            continue
        if isinstance(st, ast.With):
            if pool is not None:
                f.fail("two with statements")
            pool, args_over, call = pool_block(f, st, wsig)
            continue
        if isinstance(st, ast.For):
            if st.orelse or alloc is None or pool is None:
                f.fail("unexpected loop (before the pool / the allocation, or a for-else)")
            write_over = writeback_iter(f, st)
            body = f.stmts(st.body)
            if len(body) != 1 or not (isinstance(body[0], ast.Assign) and len(body[0].targets) == 1):
                f.fail("the write-back loop body is not a single assignment")
            asg = body[0]
            target = write_target(f, asg.targets[0])
            v = f.ev(asg.value)
            if v[0] != "resultAtPos":
                f.fail(f"the written value is not the result at the position of the enumeration: `{src(asg.value)}`")
            if v[1] != args_over:
                f.fail("internal: result list of another argument list")
            state = "post"
            continue
        f.fail(f"unexpected statement `{src(st)}`")
    if state != "done":
        f.fail("no write-back loop followed by the return of the buffer was found")
    return dict(failsafeDefault=False, pool=pool, argsOver=args_over, call=call, alloc=alloc, writeOver=write_over, target=target), sig, f


def pool_block(f, st, wsig):
    """`with Pool(processes=<nr_processes>) as pool: result = pool.starmap(partial(wrapper, …), [(…) for (i, j) in indices])`"""
    if len(st.items) != 1 or st.items[0].optional_vars is None or not isinstance(st.items[0].optional_vars, ast.Name):
        f.fail("unexpected with statement")
    ctx = st.items[0].context_expr
    if not (isinstance(ctx, ast.Call) and ast.unparse(ctx.func) == "Pool"):
        f.fail(f"the context manager is not Pool(...): `{src(ctx)}`")
    parts = split_call(f.where, ctx)
    if parts["star"] is not None or len(parts["args"]) + len(parts["keywords"]) != 1 or (parts["keywords"] and "processes" not in parts["keywords"]):
        f.fail(f"unexpected Pool arguments `{src(ctx)}`")
    pn = parts["args"][0] if parts["args"] else parts["keywords"]["processes"]
    if isinstance(pn, ast.Constant) and isinstance(pn.value, int) and not isinstance(pn.value, bool):
        procs = f".literal {lstr(str(pn.value))}"
    else:
        r = f.ev(pn)
        if r[0] != "opt":
            f.fail(f"unexpected number of processes `{src(pn)}`")
        procs = f".param {lstr(r[1])}"
    f.bind(st.items[0].optional_vars.id, ("pool",))
    body = f.stmts(st.body)
    if len(body) != 1 or not (isinstance(body[0], ast.Assign) and len(body[0].targets) == 1 and isinstance(body[0].targets[0], ast.Name)
                              and isinstance(body[0].value, ast.Call)):
        f.fail("the with body is not a single `result = pool.<map>(…)`")
    c = body[0].value
    if not (isinstance(c.func, ast.Attribute) and isinstance(c.func.value, ast.Name) and f.ev(c.func.value) == ("pool",)):
        f.fail(f"the map is not a method of the pool: `{src(c.func)}`")
    method = c.func.attr
    if method != "starmap":
        f.fail(f"the pool method is `{method}`, not starmap (other methods have another argument / ordering contract)")
    parts = split_call(f.where, c)
    if parts["star"] is not None or len(parts["args"]) != 2 or set(parts["keywords"]) - {"chunksize"}:
        f.fail(f"unexpected starmap arguments `{src(c, 200)}`")
    chunk = "none"
    if "chunksize" in parts["keywords"]:
        n = parts["keywords"]["chunksize"]
        if isinstance(n, ast.Constant) and n.value is None:
            chunk = "none"
        elif isinstance(n, ast.Constant) and isinstance(n.value, int) and not isinstance(n.value, bool) and n.value >= 0:
            chunk = f"some {n.value}"
        else:
            f.fail(f"unexpected chunksize `{src(n)}`")
    # ---- partial(wrapper, func=…, failsafe=…, **kwargs)
    p, lst = parts["args"]
    if not (isinstance(p, ast.Call) and ast.unparse(p.func) in ("partial", "functools.partial") and p.args and is_wrapper_ref(p.args[0])):
        f.fail(f"the mapped function is not partial(Debiaser.{WRAPPER}, …): `{src(p)}`")
    pp = split_call(f.where, p, skip_first=True)
    # ---- [(a, b, c) for (i, j) in indices]
    if not (isinstance(lst, ast.ListComp) and len(lst.generators) == 1 and not lst.generators[0].ifs and not lst.generators[0].is_async):
        f.fail(f"the argument list is not a plain list comprehension: `{src(lst)}`")
    g = lst.generators[0]
    over = f.ev(g.iter)
    if over[0] != "cells":
        f.fail(f"the argument list does not run over a cell enumeration: `{src(g.iter)}`")
    saved = dict(f.env)
    f.bind_cell_target(g.target)
    if not isinstance(lst.elt, ast.Tuple):
        f.fail(f"the elements of the argument list are not tuples: `{src(lst.elt)}`")
    tup = dict(args=list(lst.elt.elts), keywords={}, star=None)
    if any(isinstance(a, ast.Starred) for a in tup["args"]):
        f.fail("unexpected * in the argument tuple")
    bound, star = bind_call(f.where, tup, wsig, prebound=(pp["args"], pp["keywords"], pp["star"]))
    call = wrapper_call(f, bound, star, wsig)
    f.env = saved
    f.bind(body[0].targets[0].id, ("results", over[1]))
    return dict(processes=procs, method=method, chunksize=chunk), over[1], call


def writeback_iter(f, st):
    """`for k, index in enumerate(indices)` or `for (i, j), r in zip(indices, results)`: binds the targets, returns the cells"""
    it = st.iter
    if not (isinstance(it, ast.Call) and not it.keywords and isinstance(st.target, ast.Tuple) and len(st.target.elts) == 2):
        f.fail(f"unexpected write-back loop `for {src(st.target)} in {src(it)}`")
    fn = ast.unparse(it.func)
    if fn == "enumerate" and len(it.args) == 1:
        cells = f.ev(it.args[0])
        if cells[0] != "cells" or not isinstance(st.target.elts[0], ast.Name):
            f.fail(f"unexpected write-back loop `for {src(st.target)} in {src(it)}`")
        f.bind(st.target.elts[0].id, ("pos",))
        f.bind_cell_target(st.target.elts[1])
        return cells[1]
    if fn == "zip" and len(it.args) == 2:
        roles = [f.ev(a) for a in it.args]
        kinds = [r[0] for r in roles]
        if sorted(kinds) != ["cells", "results"]:
            f.fail(f"zip of something else than the cell enumeration and the result list: `{src(it)}`")
        ci, ri = kinds.index("cells"), kinds.index("results")
        f.bind_cell_target(st.target.elts[ci])
        if not isinstance(st.target.elts[ri], ast.Name):
            f.fail(f"unexpected write-back target `{src(st.target)}`")
        f.bind(st.target.elts[ri].id, ("resultAtPos", roles[ri][1]))
        return roles[ci][1]
    f.fail(f"unexpected write-back loop `for {src(st.target)} in {src(it)}`")


# ------------------------------------------------------------------------------------------------ apply
def extract_apply(cls, cname, sigs):
    f = Fn(f"{cname}.apply", find_method(cls, "apply"))
    if f.fn.decorator_list:
        f.fail("unexpected decorator")
    req, opt, defaults, kw = f.signature(4, first_self=True)
    f.bind(req[0], ("self",))
    for k in range(3):
        f.bind(req[1 + k], ("arr", SERIES[k]))
    for n in ("parallel", "failsafe"):
        if n not in defaults or defaults[n] is not False:
            f.fail(f"no parameter `{n}=False`")
    for n in opt:
        f.bind(n, ("opt", n))
    f.bind(kw, ("kwargs",))
    pre, post, branches = [], [], None
    state = "pre"
    for st in f.stmts(f.fn.body):
        if state == "done":
            f.fail(f"statement after the return: `{src(st)}`")
        if isinstance(st, ast.Expr) and isinstance(st.value, ast.Call) and isinstance(st.value.func, ast.Attribute) \
                and isinstance(st.value.func.value, ast.Name) and f.env.get(st.value.func.value.id) == ("self",):
            m = st.value.func.attr
            parts = split_call(f.where, st.value)
            if m == "__attrs_post_init__" and state == "pre" and not pre and not parts["args"] and not parts["keywords"] and parts["star"] is None:
                pre.append(".postInit")
                continue
            if m == "_check_output" and state == "dispatched" and not post and not parts["keywords"] and parts["star"] is None \
                    and len(parts["args"]) == 1 and f.ev(parts["args"][0]) == ("buffer",):
                post.append(".checkOutput")
                continue
            f.fail(f"unexpected call `{src(st)}` at this point")
        if isinstance(st, ast.Assign) and state == "pre" and len(st.targets) == 1 and isinstance(st.targets[0], ast.Tuple):
            v = st.value
            if not (pre == [".postInit"] and isinstance(v, ast.Call) and isinstance(v.func, ast.Attribute) and isinstance(v.func.value, ast.Name)
                    and f.env.get(v.func.value.id) == ("self",) and v.func.attr == "_check_inputs_and_convert_if_possible"):
                f.fail(f"unexpected statement `{src(st)}`")
            parts = split_call(f.where, v)
            roles = [f.ev(a) for a in parts["args"]]
            tg = st.targets[0].elts
            if parts["keywords"] or parts["star"] is not None or len(roles) != 3 or any(r[0] != "arr" for r in roles) or len(tg) != 3 \
                    or not all(isinstance(x, ast.Name) for x in tg):
                f.fail(f"unexpected input check `{src(st, 120)}`")
            for x, r in zip(tg, roles):
                f.bind(x.id, r)
            pre.append(f".checkInputs .{roles[0][1]} .{roles[1][1]} .{roles[2][1]}")
            continue
        if isinstance(st, ast.If) and state == "pre":
            if pre[:1] != [".postInit"] or len(pre) != 2:
                f.fail("the dispatch is not preceded by post-init and the input check")
            if not (isinstance(st.test, ast.Name) and f.ev(st.test) == ("opt", "parallel")):
                f.fail(f"the dispatch does not test the `parallel` parameter: `{src(st.test)}`")
            branches = (branch_call(f, st.body, sigs, "parallel branch"), branch_call(f, st.orelse, sigs, "serial branch"))
            state = "dispatched"
            continue
        if isinstance(st, ast.Return) and state == "dispatched":
            if post != [".checkOutput"]:
                f.fail("the output is returned without the output check")
            returns_buffer(f, st)
            state = "done"
            continue
        f.fail(f"unexpected statement `{src(st)}`")
    if state != "done":
        f.fail("no dispatch followed by the return of the output was found")
    return dict(cls=cname, pre=pre, parallelBranch=branches[0], serialBranch=branches[1], post=post), f


def branch_call(f, stmts, sigs, which):
    body = f.stmts(stmts)
    if len(body) != 1 or not (isinstance(body[0], ast.Assign) and len(body[0].targets) == 1 and isinstance(body[0].targets[0], ast.Name)
                              and isinstance(body[0].value, ast.Call)):
        f.fail(f"{which}: not a single `output = <call>`")
    c = body[0].value
    fn = ast.unparse(c.func)
    if fn == f"Debiaser.{SERIAL}":
        callee = "serial"
    elif fn == f"Debiaser.{PARALLEL}":
        callee = "parallel"
    else:
        f.fail(f"{which}: unexpected callee `{fn}`")
    sig = sigs[callee]
    req, opt, _d, _kw = sig
    bound, star = bind_call(f"{f.where} {which}", split_call(f.where, c), sig)
    if f.ev(bound[req[0]]) != ("applyLocation",):
        f.fail(f"{which}: the location function is `{src(bound[req[0]])}`, not self.apply_location")
    size = f.ev(bound[req[1]])
    if size[0] != "shape" or size[1][0] != "ofArr":
        f.fail(f"{which}: unexpected output_size `{src(bound[req[1]])}`")
    arrs = []
    for k in range(3):
        r = f.ev(bound[req[2 + k]])
        if r[0] != "arr":
            f.fail(f"{which}: array parameter {k} receives `{src(bound[req[2 + k]])}`")
        arrs.append(r[1])
    flag = ".omitted"
    opts = []
    for n in opt:
        if n not in bound:
            if n != "failsafe":
                opts.append((n, ".omitted"))
            continue
        v = bound[n]
        if isinstance(v, ast.Constant):
            how = ("const", v.value)
        else:
            r = f.ev(v)
            if r[0] != "opt":
                f.fail(f"{which}: parameter {n} receives `{src(v)}`")
            how = ("param", r[1])
        if n == "failsafe":
            if how == ("param", "failsafe"):
                flag = ".param"
            elif how[0] == "const" and isinstance(how[1], bool):
                flag = f".const {'true' if how[1] else 'false'}"
            else:
                f.fail(f"{which}: failsafe receives `{src(v)}`")
        else:
            opts.append((n, f".param {lstr(how[1])}" if how[0] == "param" else f".literal {lstr(repr(how[1]))}"))
    st = star is not None
    if st and f.ev(star) != ("kwargs",):
        f.fail(f"{which}: unexpected ** argument")
    out = body[0].targets[0].id
    if f.env.get(out, ("buffer",)) != ("buffer",):
        f.fail(f"{which}: the result is assigned to `{out}`, which already has another role")
    f.bind(out, ("buffer",))
    return dict(callee=callee, outputSizeOf=size[1][1], arrs=arrs, flag=flag, star=st, opts=opts)


# ------------------------------------------------------------------------------------------------ Lean text
def b(x):
    return "true" if x else "false"


def shape_term(s):
    return f".ofArr .{s[1]}" if s[0] == "ofArr" else ".outputSize"


def dim_term(d):
    return f"⟨{shape_term(d[1])}, .{AXES[d[2]]}⟩"


def cells_term(c):
    if c[0] == "ndindexTail":
        return f".ndindexTail ({shape_term(c[1])})"
    if c[0] == "ndindexDims":
        return f".ndindexDims {dim_term(c[1])} {dim_term(c[2])}"
    if c[0] == "comprehension":
        return f".comprehension {dim_term(c[1])} {dim_term(c[2])} .c{c[3]} .c{c[4]}"
    raise Shape(f"no term for {c}")


def col_term(c):
    return f"⟨.{c[0]}, .c{c[1]}, .c{c[2]}⟩"


def call_term(c):
    return (f"{{ d0 := {col_term(c['cols'][0])}, d1 := {col_term(c['cols'][1])}, d2 := {col_term(c['cols'][2])}, "
            f"failsafe := {c['flag']}, starKw := {b(c['star'])} }}")


def alloc_term(a):
    return f"⟨{lstr(a['fn'])}, {shape_term(a['size'])}, .{a['dtype']}⟩"


def locals_comment(f):
    return "-- locals by role (not part of the identity): " + "; ".join(f"{k} = {', '.join(v)}" for k, v in sorted(f.locals.items()))


def catch_lean(s, f):
    return "\n".join([
        f"/-- `Debiaser.{WRAPPER}` ({DEB_FILE}) -/",
        "def catchSpec : CatchSpec where",
        f"  tryArgs := (.a{s['tryArgs'][0]}, .a{s['tryArgs'][1]}, .a{s['tryArgs'][2]})",
        f"  tryStarKw := {b(s['star'])}",
        f"  excClass := {s['exc']}",
        f"  flagDefault := {b(s['flagDefault'])}",
        f"  onTrue := {s['onTrue']}",
        f"  onFalse := {s['onFalse']}",
        locals_comment(f)])


def serial_lean(s, f):
    return "\n".join([
        f"/-- `Debiaser.{SERIAL}` ({DEB_FILE}) -/",
        "def serialSpec : SerialSpec where",
        f"  failsafeDefault := {b(s['failsafeDefault'])}",
        f"  alloc := {alloc_term(s['alloc'])}",
        f"  cells := {cells_term(s['cells'])}",
        f"  call := {call_term(s['call'])}",
        f"  target := (.c{s['target'][0]}, .c{s['target'][1]})",
        locals_comment(f)])


def parallel_lean(s, f):
    p = s["pool"]
    return "\n".join([
        f"/-- `Debiaser.{PARALLEL}` ({DEB_FILE}) -/",
        "def parallelSpec : ParallelSpec where",
        f"  failsafeDefault := {b(s['failsafeDefault'])}",
        f"  pool := ⟨{p['processes']}, {lstr(p['method'])}, {p['chunksize']}⟩",
        f"  argsOver := {cells_term(s['argsOver'])}",
        f"  call := {call_term(s['call'])}",
        f"  alloc := {alloc_term(s['alloc'])}",
        f"  writeOver := {cells_term(s['writeOver'])}",
        f"  target := (.c{s['target'][0]}, .c{s['target'][1]})",
        locals_comment(f)])


def branch_term(br):
    opts = ", ".join(f"({lstr(n)}, {v})" for n, v in br["opts"])
    return (f"{{ callee := .{br['callee']}, outputSizeOf := .{br['outputSizeOf']}, obs := .{br['arrs'][0]}, hist := .{br['arrs'][1]}, "
            f"fut := .{br['arrs'][2]}, failsafe := {br['flag']}, starKw := {b(br['star'])}, opts := [{opts}] }}")


def apply_lean(name, rel, s, f):
    return "\n".join([
        f"/-- `{s['cls']}.apply` ({rel}) -/",
        f"def {name} : ApplySpec where",
        f"  cls := {lstr(s['cls'])}",
        f"  pre := [{', '.join(s['pre'])}]",
        f"  parallelBranch := {branch_term(s['parallelBranch'])}",
        f"  serialBranch := {branch_term(s['serialBranch'])}",
        f"  post := [{', '.join(s['post'])}]",
        locals_comment(f)])


def generate(repo):
    errors = []
    out = ["", "import IbicusModel.Model.GridLoops", "", "namespace Gen.GridLoops", "open Model.GridLoops", ""]
    deb = dc = None
    try:
        deb = find_class(ast.parse(open(os.path.join(repo, DEB_FILE)).read()), "Debiaser")
        dc = find_class(ast.parse(open(os.path.join(repo, DC_FILE)).read()), "DeltaChange")
        for n in (WRAPPER, SERIAL, PARALLEL):
            if any(isinstance(x, (ast.FunctionDef, ast.AsyncFunctionDef)) and x.name == n for x in dc.body):
                raise Shape(f"DeltaChange overrides {n}")
    except (OSError, SyntaxError, Shape) as ex:
        errors.append(f"untranslatable:gridloops: {type(ex).__name__} {ex}")
    wsig = None
    sigs = {}
    if deb is not None and dc is not None:
        try:
            s, wsig, f = extract_catch(deb)
            out += [catch_lean(s, f), ""]
        except (Shape, KeyError, IndexError) as ex:
            errors.append(f"untranslatable:gridloops.catchSpec: {type(ex).__name__} {ex}")
        if wsig is not None:
            for key, fn, to_lean in (("serial", extract_serial, serial_lean), ("parallel", extract_parallel, parallel_lean)):
                try:
                    s, sigs[key], f = fn(deb, wsig)
                    out += [to_lean(s, f), ""]
                except (Shape, KeyError, IndexError) as ex:
                    errors.append(f"untranslatable:gridloops.{key}Spec: {type(ex).__name__} {ex}")
        if len(sigs) == 2:
            for name, rel, cls, cname in (("applyDebiaser", DEB_FILE, deb, "Debiaser"), ("applyDeltaChange", DC_FILE, dc, "DeltaChange")):
                try:
                    s, f = extract_apply(cls, cname, sigs)
                    out += [apply_lean(name, rel, s, f), ""]
                except (Shape, KeyError, IndexError) as ex:
                    errors.append(f"untranslatable:gridloops.{name}: {type(ex).__name__} {ex}")
    out.append("end Gen.GridLoops")
    return "\n".join(out) + "\n", errors


if __name__ == "__main__":
    import sys

    text, errs = generate(sys.argv[1] if len(sys.argv) > 1 else "/repo")
    print(text)
    print(errs)
