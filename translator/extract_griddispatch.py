"""
Tier-A extractor for C05 / C13: the dispatch of `Debiaser.apply` / `DeltaChange.apply` onto the two map functions and the
shape of the map functions themselves, as *data* regenerated from /repo's current AST.

  paths   the four call sites (class × branch of `if parallel:`): callee, positional arguments, keyword arguments in source
          order (name, normalised expression text), whether `**kwargs` is forwarded
  facts   (key, normalised source text) of the statements Model/Grid.lean was written from:
          `_run_func_on_location_and_catch_error` (signature, try body, caught class, failsafe return value, else-branch),
          `map_over_locations` (allocation, index iterator, loop target, assignment target, call), and
          `parallel_map_over_locations` (index list, pool, the starmap call with every argument and keyword, allocation,
          write-back loop and assignment)
Statements of the verification hook (`_verif_mark_unassigned`), the progress bar and logging are not part of the identity.
Anything that does not have the expected syntactic shape is reported as an error (a broken tie); the extractor never guesses.
"""
import ast
import os

SOURCES = [("ibicus/debias/_debiaser.py", "Debiaser"), ("ibicus/debias/_delta_change.py", "DeltaChange")]


def lstr(s):
    return '"' + s.replace("\\", "\\\\").replace('"', '\\"').replace("\n", " ") + '"'


def find_class(tree, name):
    for n in tree.body:
        if isinstance(n, ast.ClassDef) and n.name == name:
            return n
    raise ValueError(f"class {name} not found")


def find_method(cls, name):
    for n in cls.body:
        if isinstance(n, ast.FunctionDef) and n.name == name:
            return n
    raise ValueError(f"{cls.name}.{name} not found")


def sig(fn):
    return ast.unparse(fn.args)


def call_site(stmts, where):
    """the single `output = <Call>` of a branch"""
    hits = [s for s in stmts if isinstance(s, ast.Assign) and isinstance(s.value, ast.Call)]
    if len(hits) != 1 or ast.unparse(hits[0].targets[0]) != "output":
        raise ValueError(f"{where}: expected exactly one `output = <call>`")
    c = hits[0].value
    kws = [(k.arg, ast.unparse(k.value)) for k in c.keywords if k.arg is not None]
    stars = [ast.unparse(k.value) for k in c.keywords if k.arg is None]
    if any(s != "kwargs" for s in stars) or len(stars) > 1:
        raise ValueError(f"{where}: unexpected ** argument {stars}")
    if any(isinstance(a, ast.Starred) for a in c.args):
        raise ValueError(f"{where}: unexpected * argument")
    return ast.unparse(c.func), [ast.unparse(a) for a in c.args], kws, bool(stars)


def scan(repo):
    paths, facts = [], []
    trees = {}
    for rel, cname in SOURCES:
        trees[cname] = ast.parse(open(os.path.join(repo, rel)).read())
        cls = find_class(trees[cname], cname)
        ap = find_method(cls, "apply")
        ifs = [s for s in ap.body if isinstance(s, ast.If) and ast.unparse(s.test) == "parallel"]
        if len(ifs) != 1:
            raise ValueError(f"{cname}.apply: expected exactly one `if parallel:`")
        for par, stmts in ((True, ifs[0].body), (False, ifs[0].orelse)):
            callee, pos, kws, star = call_site(stmts, f"{cname}.apply/{'parallel' if par else 'serial'}")
            paths.append((cname, par, callee, pos, kws, star))
        rets = [s for s in ap.body if isinstance(s, ast.Return)]
        facts.append((f"apply.{cname}.signature", sig(ap)))
        facts.append((f"apply.{cname}.returns", ";".join(ast.unparse(r.value) for r in rets)))
        idx = ap.body.index(ifs[0])
        facts.append((f"apply.{cname}.inputs", ";".join(ast.unparse(s) for s in ap.body[:idx] if isinstance(s, ast.Assign) and "obs" in ast.unparse(s.targets[0]))))
    deb = find_class(trees["Debiaser"], "Debiaser")
    # ---- the catch wrapper
    fn = find_method(deb, "_run_func_on_location_and_catch_error")
    body = [s for s in fn.body if not (isinstance(s, ast.Expr) and isinstance(s.value, ast.Constant))]
    if len(body) != 1 or not isinstance(body[0], ast.Try) or len(body[0].handlers) != 1 or body[0].orelse or body[0].finalbody:
        raise ValueError("_run_func_on_location_and_catch_error: expected a single try/except")
    tr, h = body[0], body[0].handlers[0]
    facts.append(("catch.signature", sig(fn)))
    facts.append(("catch.try", ";".join(ast.unparse(s) for s in tr.body)))
    facts.append(("catch.except", ast.unparse(h.type) if h.type is not None else "<bare>"))
    hifs = [s for s in h.body if isinstance(s, ast.If)]
    if len(hifs) != 1 or len(h.body) != 1:
        raise ValueError("_run_func_on_location_and_catch_error: expected `if failsafe: … else: raise` as the whole handler")
    facts.append(("catch.test", ast.unparse(hifs[0].test)))
    facts.append(("catch.failsafe_exits", ";".join(ast.unparse(s) for s in hifs[0].body if isinstance(s, (ast.Return, ast.Raise)))))
    facts.append(("catch.else", ";".join(ast.unparse(s) for s in hifs[0].orelse)))
    # ---- serial map
    fn = find_method(deb, "map_over_locations")
    facts.append(("serial.signature", sig(fn)))
    loops = [s for s in fn.body if isinstance(s, ast.For)]
    if len(loops) != 1 or len(loops[0].body) != 1 or not isinstance(loops[0].body[0], ast.Assign) or loops[0].orelse:
        raise ValueError("map_over_locations: expected one loop with one assignment")
    lp, asg = loops[0], loops[0].body[0]
    for s in fn.body:
        if isinstance(s, ast.Assign) and ast.unparse(s.targets[0]) in ("output", "indices"):
            facts.append((f"serial.{ast.unparse(s.targets[0])}", ast.unparse(s.value)))
    facts.append(("serial.loop", f"for {ast.unparse(lp.target)} in {ast.unparse(lp.iter)}"))
    facts.append(("serial.assign_target", ast.unparse(asg.targets[0])))
    facts.append(("serial.assign_value", ast.unparse(asg.value)))
    facts.append(("serial.returns", ";".join(ast.unparse(s.value) for s in fn.body if isinstance(s, ast.Return))))
    # ---- parallel map
    fn = find_method(deb, "parallel_map_over_locations")
    facts.append(("parallel.signature", sig(fn)))
    withs = [s for s in fn.body if isinstance(s, ast.With)]
    if len(withs) != 1 or len(withs[0].body) != 1 or not isinstance(withs[0].body[0], ast.Assign):
        raise ValueError("parallel_map_over_locations: expected one `with Pool(...)` holding one assignment")
    facts.append(("parallel.pool", ast.unparse(withs[0].items[0].context_expr) + " as " + ast.unparse(withs[0].items[0].optional_vars)))
    sm = withs[0].body[0]
    facts.append(("parallel.result_target", ast.unparse(sm.targets[0])))
    if not isinstance(sm.value, ast.Call):
        raise ValueError("parallel_map_over_locations: result is not a call")
    facts.append(("parallel.map_function", ast.unparse(sm.value.func)))
    for k, a in enumerate(sm.value.args):
        facts.append((f"parallel.map_arg{k}", ast.unparse(a)))
    facts.append(("parallel.map_keywords", ";".join(f"{k.arg}={ast.unparse(k.value)}" for k in sm.value.keywords)))
    for s in fn.body:
        if isinstance(s, ast.Assign) and ast.unparse(s.targets[0]) in ("output", "indices", "result"):
            facts.append((f"parallel.{ast.unparse(s.targets[0])}", ast.unparse(s.value)))
    loops = [s for s in fn.body if isinstance(s, ast.For)]
    if len(loops) != 1 or len(loops[0].body) != 1 or not isinstance(loops[0].body[0], ast.Assign) or loops[0].orelse:
        raise ValueError("parallel_map_over_locations: expected one write-back loop with one assignment")
    lp, asg = loops[0], loops[0].body[0]
    facts.append(("parallel.writeback_loop", f"for {ast.unparse(lp.target)} in {ast.unparse(lp.iter)}"))
    facts.append(("parallel.writeback", ast.unparse(asg)))
    facts.append(("parallel.returns", ";".join(ast.unparse(s.value) for s in fn.body if isinstance(s, ast.Return))))
    return paths, facts


def generate(repo):
    errors = []
    try:
        paths, facts = scan(repo)
    except (OSError, SyntaxError, ValueError) as ex:
        errors.append(f"untranslatable:griddispatch: {type(ex).__name__} {ex}")
        paths, facts = [], []
    out = ["", "import IbicusModel.Model.GridDispatch", "", "namespace Gen.GridDispatch", "open Model.GridDispatch", ""]
    out.append("/-- the four call sites of `Debiaser.apply` / `DeltaChange.apply` -/")
    out.append("def paths : List Path := [")
    rows = []
    for (cname, par, callee, pos, kws, star) in paths:
        kw = ", ".join(f"({lstr(k)}, {lstr(v)})" for k, v in kws)
        rows.append(f"  ⟨{lstr(cname)}, {'true' if par else 'false'}, {lstr(callee)}, [{', '.join(lstr(p) for p in pos)}], [{kw}], {'true' if star else 'false'}⟩")
    out.append(",\n".join(rows) + "\n]")
    out.append("")
    out.append("/-- the statements of the catch wrapper and of the two map functions -/")
    out.append("def facts : List (String × String) := [")
    out.append(",\n".join(f"  ({lstr(k)}, {lstr(v)})" for k, v in facts) + "\n]")
    out.append("")
    out.append("end Gen.GridDispatch")
    return "\n".join(out) + "\n", errors


if __name__ == "__main__":
    import sys

    text, errs = generate(sys.argv[1] if len(sys.argv) > 1 else "/repo")
    print(text)
    print(errs)
