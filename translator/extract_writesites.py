"""
Tier-A extractor for C12 (purity): regenerates *data* from /repo's current AST.

  sites        every in-place write site of the anchored files: subscript assignment `x[...] = v`, augmented
               assignment on a name / subscript / attribute, in-place methods (`.sort()`, `.fill(` ...), `out=` keywords,
               in-place numpy functions (`np.copyto`, `np.put*`, `np.place`, `np.random.shuffle` ...), attribute
               assignment on something that is not `self` (`arr.shape = ...`)
  selfAssigns  every site that changes the state of `self`: `self.<attr> = ...`, `self.<attr> op= ...`,
               `setattr(self, ...)`, `object.__setattr__(self, ...)`, `self.__dict__` / `vars(self)` accesses
  callArgs     the array arguments at the call sites of the per-window functions (`self.apply_on_window(...)`,
               `self._apply_on_within_year_window(...)`, `self._apply_on_window(...)`, `self._apply_debiasing_steps(...)`):
               (file, function, callee, parameter, normalised argument text, syntactic shape) — whether the window
               function receives the caller's array itself (a name), an indexed copy `x[idx]`, or a basic slice (a view)
  rngSites     every call that draws from / re-seeds a random generator: `np.random.<f>(...)`, `numpy.random...`, `random.<f>(...)`,
               `<x>.rvs(...)`, `default_rng` / `RandomState` / `Generator` constructions (file, function, callee text, occurrence)
  globalState  every `global` / `nonlocal` statement, every decorator whose name contains "cache", every assignment
               to an attribute of `cls` / of a class name (state that survives a call outside the instance), every
               Pool / Process / Executor constructed with more than the worker count (initializer, initargs, target ...)

A site is identified line-independently: (file, enclosing function `Class.method[.inner]`, base variable of the target,
kind, key = normalised text of the *target* / call, occurrence number of this key inside the function).  The full
statement text is kept as a Lean comment beside each entry (a changed right-hand side cannot change what is written
into, so it is not part of the identity).

Anything that cannot be classified is reported as an error (a broken tie); the extractor never guesses.
"""
import ast
import glob
import os

FILES_DEBIAS = "ibicus/debias/*.py"
FILES_UTILS = ["ibicus/utils/_utils.py", "ibicus/utils/_math_utils.py", "ibicus/utils/_running_window_mode.py"]

INPLACE_METHODS = {"sort", "fill", "put", "resize", "partition", "itemset", "setfield", "setflags", "__setitem__",
                   "__iadd__", "__isub__", "__imul__", "__itruediv__", "byteswap", "shuffle"}
INPLACE_FUNCS = {"copyto", "put", "put_along_axis", "putmask", "place", "fill_diagonal", "shuffle"}
NP_ROOTS = {"np", "numpy", "scipy", "random"}
WINDOW_CALLEES = {"apply_on_window", "_apply_on_within_year_window", "_apply_on_window", "_apply_debiasing_steps"}


def lstr(s):
    return '"' + s.replace("\\", "\\\\").replace('"', '\\"').replace("\n", "\\n") + '"'


def anchored_files(repo):
    fs = sorted(glob.glob(os.path.join(repo, FILES_DEBIAS)))
    fs += [os.path.join(repo, f) for f in FILES_UTILS]
    return [os.path.relpath(f, repo) for f in fs if os.path.exists(f)]


def root_and_base(node):
    """target expression -> (root Name id | None, base text): strips subscripts; `self.a.b[...]` -> ('self', 'self.a.b')"""
    n = node
    while isinstance(n, (ast.Subscript, ast.Starred)):
        n = n.value
    base = ast.unparse(n)
    r = n
    while isinstance(r, (ast.Attribute, ast.Subscript, ast.Call)):
        r = r.value if not isinstance(r, ast.Call) else r.func
    return (r.id if isinstance(r, ast.Name) else None), base


def flat_targets(t):
    if isinstance(t, (ast.Tuple, ast.List)):
        for e in t.elts:
            yield from flat_targets(e)
    elif isinstance(t, ast.Starred):
        yield from flat_targets(t.value)
    else:
        yield t


class Scan(ast.NodeVisitor):
    def __init__(self, file, class_names):
        self.file = file
        self.scope = []
        self.cls = []
        self.class_names = class_names
        self.sites, self.selfs, self.globs, self.callargs, self.rngs = [], [], [], [], []

    # ---- scopes
    def fn(self):
        return ".".join(self.scope) if self.scope else "<module>"

    def visit_ClassDef(self, node):
        for d in node.decorator_list:
            self.visit(d)
        self.scope.append(node.name)
        self.cls.append(node.name)
        for st in node.body:
            self.visit(st)
        self.cls.pop()
        self.scope.pop()

    def visit_FunctionDef(self, node):
        for d in node.decorator_list:
            txt = ast.unparse(d)
            if "cache" in txt.lower():
                self.globs.append((self.file, ".".join(self.scope + [node.name]), "cacheDecorator", txt))
            self.visit(d)
        self.scope.append(node.name)
        for a in node.args.defaults + [d for d in node.args.kw_defaults if d is not None]:
            self.visit(a)
        for st in node.body:
            self.visit(st)
        self.scope.pop()

    visit_AsyncFunctionDef = visit_FunctionDef

    def visit_Lambda(self, node):
        self.visit(node.body)

    # ---- statements
    def add_site(self, base, kind, key, stmt):
        self.sites.append((self.file, self.fn(), base, kind, key, stmt))

    def add_self(self, attr, kind, stmt):
        cls = self.cls[-1] if self.cls else "<none>"
        method = self.scope[-1] if self.scope else "<module>"
        if len(self.scope) >= 2 and self.scope[-2] != cls:  # nested function inside a method
            method = ".".join(self.scope[self.scope.index(cls) + 1:]) if cls in self.scope else method
        self.selfs.append((self.file, cls, method, attr, kind, stmt))

    def target(self, t, stmt, aug=False):
        txt = ast.unparse(stmt)
        if isinstance(t, ast.Name):
            if aug:
                self.add_site(t.id, "augAssignName", ast.unparse(t), txt)
            return
        root, base = root_and_base(t)
        if isinstance(t, ast.Attribute):
            if root == "self" and isinstance(t.value, ast.Name):
                self.add_self(t.attr, "augAssign" if aug else "assign", txt)
            elif root == "self":
                self.add_self(ast.unparse(t)[5:], "nestedAugAssign" if aug else "nestedAssign", txt)
            elif root == "cls" or root in self.class_names:
                self.globs.append((self.file, self.fn(), "classAttrAssign", ast.unparse(t)))
            else:
                self.add_site(base if base != ast.unparse(t) else ast.unparse(t.value), "augAssignAttr" if aug else "attrAssign", ast.unparse(t), txt)
            return
        if isinstance(t, ast.Subscript):
            if "__dict__" in ast.unparse(t.value) and root == "self":
                self.add_self("__dict__", "dictAccess", txt)
            if root == "cls" or root in self.class_names:
                self.globs.append((self.file, self.fn(), "classAttrSubscript", ast.unparse(t)))
            self.add_site(base, "augAssignSubscript" if aug else "subscriptAssign", ast.unparse(t), txt)
            return
        raise ValueError(f"unclassified assignment target {ast.unparse(t)[:60]}")

    def visit_Assign(self, node):
        for tt in node.targets:
            for t in flat_targets(tt):
                self.target(t, node)
        self.visit(node.value)

    def visit_AnnAssign(self, node):
        if node.value is not None:
            for t in flat_targets(node.target):
                self.target(t, node)
            self.visit(node.value)

    def visit_AugAssign(self, node):
        self.target(node.target, node, aug=True)
        self.visit(node.value)

    def visit_For(self, node):
        for t in flat_targets(node.target):
            if not isinstance(t, ast.Name):
                self.target(t, node.target)
        self.generic_visit(node)

    def visit_With(self, node):
        for it in node.items:
            if it.optional_vars is not None:
                for t in flat_targets(it.optional_vars):
                    if not isinstance(t, ast.Name):
                        self.target(t, it.optional_vars)
        self.generic_visit(node)

    def visit_Delete(self, node):
        for t in node.targets:
            if not isinstance(t, ast.Name):
                root, base = root_and_base(t)
                if root == "self":
                    self.add_self(ast.unparse(t)[5:], "delete", ast.unparse(node))
                else:
                    self.add_site(base, "delete", ast.unparse(t), ast.unparse(node))

    def visit_Global(self, node):
        self.globs.append((self.file, self.fn(), "global", ",".join(node.names)))

    def visit_Nonlocal(self, node):
        self.globs.append((self.file, self.fn(), "nonlocal", ",".join(node.names)))

    # ---- calls
    def call_args(self, node):
        f = node.func
        if not (isinstance(f, ast.Attribute) and isinstance(f.value, ast.Name) and f.value.id == "self" and f.attr in WINDOW_CALLEES):
            return
        items = [(f"arg{k}", a) for k, a in enumerate(node.args)] + [(kw.arg or "**", kw.value) for kw in node.keywords]
        for pname, a in items:
            if isinstance(a, ast.Name):
                shape = "name"
            elif isinstance(a, ast.Subscript) and isinstance(a.value, ast.Name) and isinstance(a.slice, ast.Name):
                shape = "indexByName"
            elif isinstance(a, ast.Subscript) and any(isinstance(n, ast.Slice) for n in ast.walk(a.slice)):
                shape = "basicSlice"
            else:
                shape = "other"
            self.callargs.append((self.file, self.fn(), f.attr, pname, ast.unparse(a), shape))

    def rng_site(self, node):
        ftxt = ast.unparse(node.func)
        parts = ftxt.split(".")
        hit = False
        if len(parts) >= 3 and parts[0] in ("np", "numpy") and parts[1] == "random":
            hit = True
        elif len(parts) >= 2 and parts[0] == "random":
            hit = True
        elif parts[-1] in ("rvs", "default_rng", "RandomState", "Generator", "SeedSequence", "permutation", "shuffle", "choice") and parts[0] not in ("self",):
            hit = True
        elif parts[-1] == "rvs":
            hit = True
        if hit:
            self.rngs.append((self.file, self.fn(), ftxt))

    def pool_site(self, node):
        """a worker pool / process / executor constructed with an initializer (or a target) runs extra code in the workers:
        state outside the instance that the call depends on"""
        ftxt = ast.unparse(node.func)
        last = ftxt.split(".")[-1]
        if last in ("Pool", "ThreadPool", "ProcessPoolExecutor", "ThreadPoolExecutor", "Process", "Thread"):
            kws = sorted(kw.arg or "**" for kw in node.keywords)
            extra = [k for k in kws if k not in ("processes", "max_workers")]
            if extra or len(node.args) > 1:
                self.globs.append((self.file, self.fn(), "poolWithInitializer", f"{ftxt}({', '.join(kws)}; {len(node.args)} positional)"))

    def visit_Call(self, node):
        self.call_args(node)
        self.rng_site(node)
        self.pool_site(node)
        f = node.func
        ftxt = ast.unparse(f)
        txt = ast.unparse(node)
        for kw in node.keywords:
            if kw.arg == "out":
                root, base = root_and_base(kw.value)
                self.add_site(base, "outKeyword", f"{ftxt}(out={ast.unparse(kw.value)})", txt)
            if kw.arg in ("overwrite_data", "overwrite_input", "overwrite_x", "inplace", "copy") and not (
                    isinstance(kw.value, ast.Constant) and kw.value.value in ((False,) if kw.arg != "copy" else (True,))):
                self.add_site(ast.unparse(node.args[0]) if node.args else "?", "overwriteKeyword", f"{ftxt}({kw.arg}={ast.unparse(kw.value)})", txt)
        if isinstance(f, ast.Attribute):
            root, _ = root_and_base(f.value)
            if f.attr in INPLACE_FUNCS and root in NP_ROOTS:
                tgt = ast.unparse(node.args[0]) if node.args else "?"
                _, base = root_and_base(node.args[0]) if node.args else (None, "?")
                self.add_site(base, "npInPlaceFn", f"{ftxt}({tgt})", txt)
            elif f.attr in INPLACE_METHODS and root not in NP_ROOTS:
                rootv, base = root_and_base(f.value)
                if rootv == "self" and "__dict__" in ast.unparse(f.value):
                    self.add_self("__dict__", "dictAccess", txt)
                self.add_site(base, "methodInPlace", f"{ast.unparse(f.value)}.{f.attr}()", txt)
            if f.attr == "__setattr__" and node.args and ast.unparse(node.args[0]) == "self":
                self.add_self(ast.unparse(node.args[1]) if len(node.args) > 1 else "?", "setattr", txt)
            if f.attr in ("update", "setdefault", "pop", "clear") and ast.unparse(f.value) in ("self.__dict__", "vars(self)"):
                self.add_self("__dict__", "dictAccess", txt)
        if isinstance(f, ast.Name) and f.id == "setattr" and node.args and ast.unparse(node.args[0]) == "self":
            self.add_self(ast.unparse(node.args[1]) if len(node.args) > 1 else "?", "setattr", txt)
        self.generic_visit(node)


def scan(repo):
    files = anchored_files(repo)
    trees = {}
    class_names = set()
    for f in files:
        trees[f] = ast.parse(open(os.path.join(repo, f)).read())
        for n in ast.walk(trees[f]):
            if isinstance(n, ast.ClassDef):
                class_names.add(n.name)
    sites, selfs, globs, callargs, rngs = [], [], [], [], []
    for f in files:
        sc = Scan(f, class_names)
        sc.visit(trees[f])
        sites += sc.sites
        selfs += sc.selfs
        globs += sc.globs
        callargs += sc.callargs
        rngs += sc.rngs
    return files, sites, selfs, globs, callargs, rngs


def numbered(sites):
    """append the occurrence number of (file, fn, key) so that identical targets inside a function stay distinct"""
    seen, out = {}, []
    for (file, fn, base, kind, key, stmt) in sites:
        k = (file, fn, kind, key)
        seen[k] = seen.get(k, 0) + 1
        out.append((file, fn, base, kind, key, seen[k], stmt))
    return out


def short(s, n=110):
    s = " ".join(s.split())
    return s if len(s) <= n else s[: n - 3] + "..."


def generate(repo):
    errors = []
    out = ["", "import IbicusModel.Model.Purity", "", "namespace Gen.WriteSites", "open Model.Purity", ""]
    try:
        files, sites, selfs, globs, callargs, rngs = scan(repo)
    except (OSError, SyntaxError, ValueError) as ex:
        errors.append(f"untranslatable:writesites: {type(ex).__name__} {ex}")
        files, sites, selfs, globs, callargs, rngs = [], [], [], [], [], []
    out.append("/-- the anchored files that were scanned -/")
    out.append("def files : List String := [" + ", ".join(lstr(f) for f in files) + "]")
    out.append("")
    out.append("/-- every in-place write site (file, function, base variable, kind, target text, occurrence) -/")
    out.append("def sites : List WriteSite := [")
    rows = []
    for (file, fn, base, kind, key, occ, stmt) in numbered(sites):
        rows.append(f"  ⟨{lstr(file)}, {lstr(fn)}, {lstr(base)}, .{kind}, {lstr(key)}, {occ}⟩  -- {short(stmt)}")
    out.append(_join_rows(rows) + "\n]")
    out.append("")
    out.append("/-- every site that changes the state of `self` (file, class, method, attribute, kind) -/")
    out.append("def selfAssigns : List SelfAssign := [")
    rows = [f"  ⟨{lstr(file)}, {lstr(cls)}, {lstr(m)}, {lstr(attr)}, .{kind}⟩  -- {short(stmt)}" for (file, cls, m, attr, kind, stmt) in selfs]
    out.append(_join_rows(rows) + "\n]")
    out.append("")
    out.append("/-- state outside the instance that could survive a call: global/nonlocal, cache decorators, class attributes -/")
    out.append("def globalState : List GlobalState := [")
    rows = [f"  ⟨{lstr(file)}, {lstr(fn)}, {lstr(kind)}, {lstr(what)}⟩" for (file, fn, kind, what) in globs]
    out.append(_join_rows(rows) + "\n]")
    out.append("")
    out.append("/-- the arguments handed to the per-window functions (file, function, callee, parameter, argument text, shape) -/")
    out.append("def callArgs : List CallArg := [")
    rows = [f"  ⟨{lstr(file)}, {lstr(fn)}, {lstr(callee)}, {lstr(par)}, {lstr(txt)}, .{shape}⟩" for (file, fn, callee, par, txt, shape) in callargs]
    out.append(_join_rows(rows) + "\n]")
    out.append("")
    out.append("/-- every call site that draws from a random generator (file, function, callee, occurrence) -/")
    out.append("def rngSites : List RngSite := [")
    seen, rows = {}, []
    for (file, fn, callee) in rngs:
        seen[(file, fn, callee)] = seen.get((file, fn, callee), 0) + 1
        rows.append(f"  ⟨{lstr(file)}, {lstr(fn)}, {lstr(callee)}, {seen[(file, fn, callee)]}⟩")
    out.append(_join_rows(rows) + "\n]")
    out.append("")
    out.append("end Gen.WriteSites")
    return "\n".join(out) + "\n", errors


def _join_rows(rows):
    """rows are `  <term>  -- comment`; the separating comma must come before the comment"""
    res = []
    for k, r in enumerate(rows):
        if "  -- " in r:
            term, com = r.split("  -- ", 1)
        else:
            term, com = r, None
        if k < len(rows) - 1:
            term += ","
        res.append(term + (f"  -- {com}" if com else ""))
    return "\n".join(res)


if __name__ == "__main__":
    import sys

    text, errs = generate(sys.argv[1] if len(sys.argv) > 1 else "/repo")
    print(text)
    print(errs)
