"""
Tier-A extractor, ISIMIP part 3 (group `IsimipStep6`): the decision structure of
`ISIMIP._step6_adjust_values_between_thresholds`, `ISIMIP.step6`, `_get_values_between_thresholds`, the wrappers
`step2` / `step3` / `step4` / `step5`, and the per-window pipeline `_apply_on_window` (`ibicus/debias/_isimip.py`).

Reading (strict; anything outside the stated shapes raises `Untranslatable` = a broken tie, never guessed).  The function
body is walked **symbolically** and written as ONE Lean term of type `Except String <ret>`:

* statements
    - `x = E`, `a, b = E` (tuple result; `_` ignored), walrus inside a condition (hoisted in front of the `if`; pure only)
    - `x[m] = E` : `E` a bound attribute (`self.lower_bound`, extended real) -> `Model.Isimip.setBound x m E` (may be outside the
      model: an infinite bound written); `E` an array -> `Model.IsimipFreq.fillWhere x m E`
    - `if c: … [else: …]` **with** a `return` / `raise` somewhere inside -> `if c then ⟦body ; rest⟧ else ⟦orelse ; rest⟧`
      (what follows the `if` is read once per branch; after a `return` nothing is read)
    - `if c: … [else: …]` **without** a `return` -> the names assigned in a branch are rebound:
      `let (v…) := if c then ⟦body⟧ else ⟦orelse⟧`  (a branch that does not assign a name keeps its value)
    - `try: f1 = self.distribution.fit(A, **kw); f2 = …; [if np.nan in f1 or np.nan in f2: raise …]`
      `except Exception [as e]: <handler ending in return>` ->
      `match dist_fit A kw.1 kw.2, dist_fit B kw.1 kw.2 with | some f1, some f2 => ⟦rest⟧ | _, _ => ⟦handler⟧`
      (`dist_fit … = none` stands for "the fit raised, or returned nan" — the `np.nan in fit` test is part of that oracle and
      must mention fitted names only); any other handler type, a bare `except`, `else` / `finally` are not read
    - `return E`, `raise T(...)` (-> `.error "T"`)
    - ignored: docstrings, `logger = get_library_logger()`, `logger.<level>(...)` expression statements
* expressions: parameters / locals, `self.<attr>` of the declared table (flags are `Bool`, bounds / thresholds extended reals
  `Model.Isimip.ExtRat` — using one as a number is `ExtRat.toRat`, outside the model when infinite), `None`, integer literals,
  `A if c else B`, `and` / `or` / `not`, comparisons (`.size` is a `Nat`), `+` / `-` (numbers, element-wise on arrays),
  `x[mask]`, `x[index array]`, `x.copy()`, `x.size`, `any(mask)`, `np.zeros_like`, `np.logical_and/or/not`,
  `np.maximum/np.minimum(scalar, array)`, dict displays with the keys `floc` / `fscale` (the `**fixed_args` of `fit`),
  `self.distribution.fit / cdf / ppf`, and the calls of the declared table.  A call is bound to the callee's parameters
  the way Python binds it: for methods of `ISIMIP` the **current signature in the source** is read (positional and
  keyword arguments), for library functions the declared parameter names; required keyword texts
  (`ecdf_method=self.ecdf_method`, `mode=self.mode_non_parametric_qm`, …) are checked literally.
  Callees marked `indexed` get the running number of the call site (0, 1, 2 … in source order) as first argument — the
  per-call oracle (random draws of step 4, significance decision of step 3) is keyed by it.

What is identity: every condition (which flag, which size, which comparison, `and` vs `or`), which array goes into which
argument of which call, what is fitted on what with which fixed arguments, the order of overriding assignments, what each
path returns, the exception class caught / raised, the order of the steps.  What is NOT identity: names of locals
(Lean terms are compared up to renaming of bound variables), docstrings, comments, logging, the text of messages.
"""
import ast
import os
import sys

sys.path.insert(0, os.path.dirname(os.path.abspath(__file__)))
from py2lean import Untranslatable, find_function  # noqa: E402

ISI = "ibicus/debias/_isimip.py"
LR, LB, LN, LI = "List Rat", "List Bool", "List Nat", "List Int"
INT, NAT, RAT, BOOL = "Int", "Nat", "Rat", "Bool"
EXT = "Model.Isimip.ExtRat"
ORAT = "Option Rat"
FIT = "Rat × Rat"
KW = "Option Rat × Option Rat"
NONE = "<None>"


class NeedMonad(Exception):
    pass


def tup(ts):
    return " × ".join(f"({t})" if "×" in t or "→" in t else t for t in ts)


def _is_doc(st):
    return isinstance(st, ast.Expr) and isinstance(st.value, ast.Constant) and isinstance(st.value.value, str)


def _is_logger(st):
    if isinstance(st, ast.Assign) and ast.unparse(st) == "logger = get_library_logger()":
        return True
    return (isinstance(st, ast.Expr) and isinstance(st.value, ast.Call) and isinstance(st.value.func, ast.Attribute)
            and isinstance(st.value.func.value, ast.Name) and st.value.func.value.id == "logger"
            and st.value.func.attr in ("info", "warning", "debug", "error")
            and not any(isinstance(n, ast.NamedExpr) for n in ast.walk(st)))


def _has_exit(stmts):
    return any(isinstance(n, (ast.Return, ast.Raise)) for s in stmts for n in ast.walk(s))


class Sym:
    def __init__(self, sp, node, tree):
        self.sp, self.node, self.tree = sp, node, tree
        self.n = 0
        self.pure = False
        self.site = {}
        self.reserved = set(n for n, _ in sp.get("symbols", [])) | set(v[0] for v in sp.get("attrs", {}).values())

    def fresh(self):
        self.n += 1
        return f"t_{self.n}"

    # ---------------------------------------------------------------- wrapping binds around a tail
    def mwrap(self, binds, tail):
        for b in reversed(binds):
            if b[0] == "let":
                tail = f"let {b[1]} : {b[3]} := {b[2]};\n{tail}"
            else:
                if self.pure:
                    raise NeedMonad()
                tail = f"Except.bind ({b[2]}) (fun {b[1]} =>\n{tail})"
        return tail

    # ---------------------------------------------------------------- coercions
    def coerce(self, binds, s, t, want):
        if t == want:
            return s
        if t == NAT and want == INT:
            return f"(({s} : Nat) : Int)"
        if t == INT and want == RAT:
            return f"(({s} : Int) : Rat)"
        if t == EXT and want == RAT:
            nm = self.fresh()
            binds.append(("bind", nm, f"Model.Isimip.ExtRat.toRat {s}"))
            return nm
        if t == EXT and want == ORAT:
            nm = self.fresh()
            binds.append(("bind", nm, f"Model.Isimip.ExtRat.toRat {s}"))
            return f"(some {nm})"
        if t == RAT and want == ORAT:
            return f"(some {s})"
        if t == NONE and want.startswith("Option"):
            return "none"
        raise Untranslatable(f"a {t} where a {want} is required: `{s[:60]}`")

    # ---------------------------------------------------------------- expressions -> (binds, text, type)
    def ex(self, e, env):
        if not isinstance(e, ast.Name) and ast.unparse(e) in self.sp.get("consts", {}):
            lean, t = self.sp["consts"][ast.unparse(e)]
            return [], lean, t
        if isinstance(e, ast.Tuple):
            binds, parts, ts = [], [], []
            for x in e.elts:
                b, s, t = self.ex(x, env)
                binds += b
                parts.append(s)
                ts.append(t)
            return binds, "(" + ", ".join(parts) + ")", tuple(ts)
        if isinstance(e, ast.Name):
            if e.id not in env:
                raise Untranslatable(f"unbound name `{e.id}`")
            return [], e.id, env[e.id]
        if isinstance(e, ast.Constant):
            if e.value is None:
                return [], "none", NONE
            if isinstance(e.value, bool):
                return [], ("true" if e.value else "false"), BOOL
            if isinstance(e.value, int):
                return [], f"({e.value} : Int)", INT
            raise Untranslatable(f"literal {e.value!r}")
        if isinstance(e, ast.NamedExpr):
            b, s, t = self.ex(e.value, env)
            if any(x[0] == "bind" for x in b):
                raise Untranslatable("walrus over an expression that may raise")
            nm = e.target.id
            self.check_local(nm)
            env[nm] = t
            return b + [("let", nm, s, t)], nm, t
        if isinstance(e, ast.Attribute):
            txt = ast.unparse(e)
            if txt in self.sp.get("attrs", {}):
                lean, t = self.sp["attrs"][txt]
                return [], lean, t
            if e.attr == "size":
                b, s, t = self.ex(e.value, env)
                if t not in (LR, LB, LN, LI):
                    raise Untranslatable(f".size of a {t}")
                return b, f"({s}).length", NAT
            raise Untranslatable(f"attribute `{txt}`")
        if isinstance(e, ast.IfExp):
            bc, c, tc = self.ex(e.test, env)
            if tc != BOOL:
                raise Untranslatable("condition of a conditional expression")
            ba, a, ta = self.ex(e.body, env)
            bb, b, tb = self.ex(e.orelse, env)
            want = ta if ta == tb else None
            if want is None:
                others = {ta, tb} - {NONE}
                if NONE in (ta, tb) and others <= {RAT, EXT}:
                    want = ORAT
                else:
                    raise Untranslatable(f"conditional expression of {ta} / {tb}")
            a = self.coerce(ba, a, ta, want)
            b = self.coerce(bb, b, tb, want)
            if not ba and not bb:
                return bc, f"(if {c} = true then {a} else {b})", want
            nm = self.fresh()
            m = (f"(if {c} = true then\n{self.mwrap(ba, f'Except.ok {a}')}\nelse\n{self.mwrap(bb, f'Except.ok {b}')})")
            return bc + [("bind", nm, m)], nm, want
        if isinstance(e, ast.BoolOp):
            parts, binds = [], []
            for v in e.values:
                b, s, t = self.ex(v, env)
                if t != BOOL:
                    raise Untranslatable(f"`{ast.unparse(v)[:40]}` is not a truth value")
                if any(x[0] == "bind" for x in b):
                    raise Untranslatable("operand of and / or that may raise")
                binds += b
                parts.append(s)
            op = " && " if isinstance(e.op, ast.And) else " || "
            return binds, "(" + op.join(parts) + ")", BOOL
        if isinstance(e, ast.UnaryOp) and isinstance(e.op, ast.Not):
            b, s, t = self.ex(e.operand, env)
            if t != BOOL:
                raise Untranslatable("not of a non-boolean")
            return b, f"(!{s})", BOOL
        if isinstance(e, ast.UnaryOp) and isinstance(e.op, ast.USub):
            b, s, t = self.ex(e.operand, env)
            if t not in (RAT, INT):
                raise Untranslatable("unary minus")
            return b, f"(-{s})", t
        if isinstance(e, ast.Compare):
            if len(e.ops) != 1:
                raise Untranslatable("chained comparison")
            op = {ast.Gt: ">", ast.GtE: "≥", ast.Lt: "<", ast.LtE: "≤", ast.Eq: "="}.get(type(e.ops[0]))
            if op is None:
                raise Untranslatable(f"comparison `{ast.unparse(e)}`")
            ba, a, ta = self.ex(e.left, env)
            r = e.comparators[0]
            if ta == BOOL and op == ">" and isinstance(r, ast.Constant) and r.value == 0 and not isinstance(r.value, bool):
                return ba, a, BOOL  # `any(mask) > 0`
            if ta == NAT and isinstance(r, ast.Constant) and isinstance(r.value, int) and not isinstance(r.value, bool) and r.value >= 0:
                return ba, f"(decide ({a} {op} ({r.value} : Nat)))", BOOL
            bb, b, tb = self.ex(r, env)
            if {ta, tb} == {NAT, INT}:
                a, b = self.coerce(ba, a, ta, INT), self.coerce(bb, b, tb, INT)
            elif ta != tb or ta not in (NAT, INT, RAT):
                raise Untranslatable(f"comparison of {ta} / {tb}")
            return ba + bb, f"(decide ({a} {op} {b}))", BOOL
        if isinstance(e, ast.BinOp) and isinstance(e.op, (ast.Add, ast.Sub)):
            o = "+" if isinstance(e.op, ast.Add) else "-"
            ba, a, ta = self.ex(e.left, env)
            bb, b, tb = self.ex(e.right, env)
            binds = ba + bb
            if ta == LR and tb == LR:
                return binds, f"(List.zipWith (fun a_ b_ => a_ {o} b_) {a} {b})", LR
            if EXT in (ta, tb) and {ta, tb} <= {EXT, RAT}:
                a = self.coerce(binds, a, ta, RAT)
                b = self.coerce(binds, b, tb, RAT)
                return binds, f"({a} {o} {b})", RAT
            if {ta, tb} == {NAT, INT}:
                a, b, ta, tb = self.coerce(binds, a, ta, INT), self.coerce(binds, b, tb, INT), INT, INT
            if ta == tb and ta in (INT, RAT):
                return binds, f"({a} {o} {b})", ta
            raise Untranslatable(f"`{o}` of {ta} / {tb}")
        if isinstance(e, ast.Subscript):
            bv, v, tv = self.ex(e.value, env)
            bi, i, ti = self.ex(e.slice, env)
            if tv in (LR, LI) and ti == LB:
                return bv + bi, f"(Py.selectWhere {v} {i})", tv
            if tv == LR and ti == LN:
                # fancy indexing with an index array (an argsort output): `Model.Stats.takeIdx`
                return bv + bi, f"(Model.Stats.takeIdx {v} {i})", LR
            raise Untranslatable(f"subscript `{ast.unparse(e)[:60]}` ({tv} by {ti})")
        if isinstance(e, ast.Dict):
            keys = [k.value if isinstance(k, ast.Constant) else None for k in e.keys]
            if any(k not in ("floc", "fscale") for k in keys) or len(set(keys)) != len(keys):
                raise Untranslatable(f"dict display `{ast.unparse(e)[:60]}`")
            binds, vals = [], {"floc": "none", "fscale": "none"}
            for k, v in zip(keys, e.values):
                b, s, t = self.ex(v, env)
                vals[k] = self.coerce(b, s, t, ORAT)
                binds += b
            return binds, f"({vals['floc']}, {vals['fscale']})", KW
        if isinstance(e, ast.Call):
            return self.call(e, env)
        raise Untranslatable(f"expression `{ast.unparse(e)[:60]}`")

    def args_of(self, e, names, env, types, required=None):
        """bind the call's arguments to the parameter names the way Python does; -> (binds, [texts])"""
        required = dict(required or {})
        slots = {}
        if any(isinstance(a, ast.Starred) for a in e.args):
            raise Untranslatable(f"starred argument in `{ast.unparse(e)[:60]}`")
        if len(e.args) > len(names):
            raise Untranslatable(f"too many positional arguments: `{ast.unparse(e)[:60]}`")
        for k, a in enumerate(e.args):
            slots[names[k]] = a
        for kw in e.keywords:
            if kw.arg is None:
                raise Untranslatable(f"** argument in `{ast.unparse(e)[:60]}`")
            if kw.arg in required:
                if ast.unparse(kw.value) != required.pop(kw.arg):
                    raise Untranslatable(f"keyword `{kw.arg}` of `{ast.unparse(e.func)}` is `{ast.unparse(kw.value)}`")
                continue
            if kw.arg not in names or kw.arg in slots:
                raise Untranslatable(f"keyword `{kw.arg}` of `{ast.unparse(e.func)}`")
            slots[kw.arg] = kw.value
        if required:
            raise Untranslatable(f"`{ast.unparse(e.func)}`: keywords {sorted(required)} required")
        if set(slots) != set(names):
            raise Untranslatable(f"`{ast.unparse(e.func)}`: arguments {sorted(set(names) - set(slots))} missing")
        binds, out = [], []
        for nm, want in zip(names, types):
            if want == "<dist>":
                if ast.unparse(slots[nm]) != "self.distribution":
                    raise Untranslatable(f"`{ast.unparse(e.func)}`: the distribution argument is `{ast.unparse(slots[nm])}`")
                continue
            b, s, t = self.ex(slots[nm], env)
            s = self.coerce(b, s, t, want)
            binds += b
            out.append(s)
        return binds, out

    def callee_params(self, f):
        name = f.split(".", 1)[1]
        node = find_function(self.tree, "ISIMIP", name)
        a = node.args
        if a.vararg or a.kwarg or a.kwonlyargs or a.posonlyargs:
            raise Untranslatable(f"signature of `{name}`")
        ps = [x.arg for x in a.args]
        deco = [ast.unparse(d) for d in node.decorator_list]
        if f.startswith("self."):
            if "staticmethod" in deco:
                return ps
            if not ps or ps[0] != "self":
                raise Untranslatable(f"`{name}` called on self but has no self parameter")
            return ps[1:]
        # ISIMIP.f(...): a plain function of the class
        if ps and ps[0] == "self":
            raise Untranslatable(f"`{name}` called on the class but has a self parameter")
        return ps

    def call(self, e, env):
        f = ast.unparse(e.func)
        kws = [(k.arg, ast.unparse(k.value)) for k in e.keywords]
        tab = self.sp.get("calls", {})
        if f in tab:
            c = tab[f]
            if f.startswith("self.") or f.startswith("ISIMIP."):
                names = self.callee_params(f)
                if len(names) != len(c["args"]):
                    raise Untranslatable(f"`{f}` has {len(names)} parameters (declared {len(c['args'])})")
            else:
                names = c["params"]
            head = c["lean"]
            if "by_type" in c and len(e.args) == 1 and not e.keywords:
                _, _, t0 = self.ex(e.args[0], dict(env))
                if t0 in c["by_type"]:
                    head = c["by_type"][t0]
                    c = dict(c, args=[t0])
            binds, args = self.args_of(e, names, env, c["args"], c.get("required"))
            if c.get("indexed"):
                k = self.site.get(f, 0)
                self.site[f] = k + 1
                head = f"{head} {k}"
            if c.get("map"):
                if len(args) != 1:
                    raise Untranslatable(f"`{f}`: one array expected")
                return binds, f"(({args[0]}).map {head})", c["ret"]
            txt = "(" + " ".join([head] + args) + ")"
            if c.get("monadic"):
                nm = self.fresh()
                return binds + [("bind", nm, txt)], nm, c["ret"]
            return binds, txt, c["ret"]
        if f == "any" and len(e.args) == 1 and not kws:
            b, s, t = self.ex(e.args[0], env)
            if t != LB:
                raise Untranslatable("any() of a non-mask")
            return b, f"(({s}).any id)", BOOL
        if f == "np.zeros_like" and len(e.args) == 1 and not kws:
            b, s, t = self.ex(e.args[0], env)
            if t != LR:
                raise Untranslatable("np.zeros_like")
            return b, f"(({s}).map (fun _ => (0 : Rat)))", LR
        if f in ("np.logical_and", "np.logical_or") and len(e.args) == 2 and not kws:
            ba, a, ta = self.ex(e.args[0], env)
            bb, b, tb = self.ex(e.args[1], env)
            if ta != LB or tb != LB:
                raise Untranslatable(f"{f} of {ta} / {tb}")
            o = "&&" if f.endswith("and") else "||"
            return ba + bb, f"(List.zipWith (fun a_ b_ => a_ {o} b_) {a} {b})", LB
        if f == "np.logical_not" and len(e.args) == 1 and not kws:
            b, s, t = self.ex(e.args[0], env)
            if t != LB:
                raise Untranslatable("np.logical_not of a non-mask")
            return b, f"(({s}).map (fun a_ => !a_))", LB
        if f in ("np.maximum", "np.minimum") and len(e.args) == 2 and not kws:
            ba, a, ta = self.ex(e.args[0], env)
            bb, b, tb = self.ex(e.args[1], env)
            o = "max" if f == "np.maximum" else "min"
            if ta == RAT and tb == LR:
                return ba + bb, f"(({b}).map (fun a_ => {o} {a} a_))", LR
            raise Untranslatable(f"{f} of {ta} / {tb}")
        if isinstance(e.func, ast.Attribute) and e.func.attr == "copy" and not e.args and not kws:
            b, s, t = self.ex(e.func.value, env)
            if t not in (LR, LB):
                raise Untranslatable(".copy() of a non-array")
            return b, s, t  # values only: aliasing is not modelled
        if f == "self.distribution.fit":
            return self.fit_call(e, env)
        if f in ("self.distribution.cdf", "self.distribution.ppf"):
            if len(e.args) != 2 or kws or not isinstance(e.args[1], ast.Starred):
                raise Untranslatable(f"`{ast.unparse(e)[:60]}`: expected (array, *fit)")
            ba, a, ta = self.ex(e.args[0], env)
            bb, b, tb = self.ex(e.args[1].value, env)
            if ta != LR or tb != FIT:
                raise Untranslatable(f"{f} of {ta} / {tb}")
            return ba + bb, f"(({a}).map (dist_{f.rsplit('.', 1)[1]} {b}))", LR
        raise Untranslatable(f"call `{f}`")

    def fit_call(self, e, env, as_option=False):
        """`self.distribution.fit(data[, **kw | floc=…, fscale=…])` -> `dist_fit data floc fscale : Option (Rat × Rat)`"""
        if len(e.args) != 1 or isinstance(e.args[0], ast.Starred):
            raise Untranslatable(f"`{ast.unparse(e)[:60]}`: one positional argument expected")
        binds, d, td = self.ex(e.args[0], env)
        if td != LR:
            raise Untranslatable("fit on a non-array")
        floc, fscale = "none", "none"
        ks = e.keywords
        if len(ks) == 1 and ks[0].arg is None:
            b, s, t = self.ex(ks[0].value, env)
            if t != KW:
                raise Untranslatable("** of something that is not the fixed-arguments dict")
            binds += b
            floc, fscale = f"({s}).1", f"({s}).2"
        elif ks:
            raise Untranslatable(f"keywords of `{ast.unparse(e)[:60]}`")
        txt = f"(dist_fit {d} {floc} {fscale})"
        if as_option:
            return binds, txt, FIT
        nm = self.fresh()
        m = f'(match {txt} with | some v_ => Except.ok v_ | none => Except.error "ValueError")'
        return binds + [("bind", nm, m)], nm, FIT

    # ---------------------------------------------------------------- statements
    def check_local(self, nm):
        if nm in self.reserved or nm.startswith("t_") or nm in ("a_", "b_", "v_"):
            raise Untranslatable(f"local name `{nm}` clashes with a generated name")

    def assigned(self, stmts):
        out = []

        def add(n):
            if n != "_" and n not in out:
                out.append(n)
        for s in stmts:
            for n in ast.walk(s):
                if isinstance(n, ast.Assign):
                    for t in n.targets:
                        if isinstance(t, ast.Name):
                            add(t.id)
                        elif isinstance(t, ast.Tuple):
                            for x in t.elts:
                                if isinstance(x, ast.Name):
                                    add(x.id)
                        elif isinstance(t, ast.Subscript) and isinstance(t.value, ast.Name):
                            add(t.value.id)
                elif isinstance(n, ast.NamedExpr):
                    add(n.target.id)
        return out

    def blk(self, stmts, env, tail=None):
        """text of type `Except String ret` (monadic mode) / of the tail's type (pure mode)"""
        env = dict(env)
        if not stmts:
            if tail is None:
                raise Untranslatable("path without return")
            return tail(env)
        st, rest = stmts[0], list(stmts[1:])
        if _is_doc(st) or _is_logger(st) or isinstance(st, ast.Pass):
            return self.blk(rest, env, tail)
        if isinstance(st, ast.Return):
            if tail is not None or st.value is None:
                raise Untranslatable("return inside a branch that is read as an assignment")
            b, s, t = self.ex(st.value, env)
            s = self.coerce_ret(b, s, t)
            return self.mwrap(b, s if self.sp.get("pure") else f"Except.ok {s}")
        if isinstance(st, ast.Raise):
            if tail is not None:
                raise Untranslatable("raise inside a branch that is read as an assignment")
            exc = st.exc.func.id if isinstance(st.exc, ast.Call) and isinstance(st.exc.func, ast.Name) else None
            if exc is None:
                raise Untranslatable("raise shape")
            return f'Except.error "{exc}"'
        if isinstance(st, ast.Assign) and len(st.targets) == 1:
            tg, v = st.targets[0], st.value
            if isinstance(tg, ast.Name):
                self.check_local(tg.id) if tg.id not in self.sp["params"] else None
                b, s, t = self.ex(v, env)
                if t == NONE:
                    raise Untranslatable(f"`{tg.id} = None`")
                env[tg.id] = t
                return self.mwrap(b + [("let", tg.id, s, t)], self.blk(rest, env, tail))
            if isinstance(tg, ast.Tuple) and all(isinstance(x, ast.Name) for x in tg.elts):
                b, s, t = self.ex(v, env)
                if not isinstance(t, tuple) or len(t) != len(tg.elts):
                    raise Untranslatable(f"tuple assignment from a {t}")
                r = self.fresh()
                lets = [("let", r, s, tup(t))]
                for k, (x, tx) in enumerate(zip(tg.elts, t)):
                    if x.id == "_":
                        continue
                    self.check_local(x.id) if x.id not in self.sp["params"] else None
                    proj = ".2" * k + (".1" if k < len(t) - 1 else "")
                    lets.append(("let", x.id, f"{r}{proj}", tx))
                    env[x.id] = tx
                return self.mwrap(b + lets, self.blk(rest, env, tail))
            if isinstance(tg, ast.Subscript) and isinstance(tg.value, ast.Name) and tg.value.id in env:
                x = tg.value.id
                bm, m, tm = self.ex(tg.slice, env)
                b, s, t = self.ex(v, env)
                if env[x] != LR or tm != LB:
                    raise Untranslatable(f"assignment `{ast.unparse(tg)[:60]} = …`")
                if t == EXT:
                    return self.mwrap(bm + b + [("bind", x, f"Model.Isimip.setBound {x} {m} {s}")], self.blk(rest, env, tail))
                if t == LR:
                    return self.mwrap(bm + b + [("let", x, f"Model.IsimipFreq.fillWhere {x} {m} {s}", LR)], self.blk(rest, env, tail))
                raise Untranslatable(f"masked assignment of a {t}")
            raise Untranslatable(f"assignment target `{ast.unparse(tg)[:60]}`")
        if isinstance(st, ast.If):
            bc, c, tc = self.ex(st.test, env)
            if tc != BOOL:
                raise Untranslatable(f"condition `{ast.unparse(st.test)[:60]}` is not a truth value")
            if any(x[0] == "bind" for x in bc):
                raise Untranslatable("condition that may raise")
            if _has_exit([st]):
                if tail is not None:
                    raise Untranslatable("return inside a branch that is read as an assignment")
                a = self.blk(list(st.body) + rest, env)
                b = self.blk(list(st.orelse) + rest, env)
                return self.mwrap(bc, f"if {c} = true then\n{a}\nelse\n{b}")
            outs = self.assigned(list(st.body) + list(st.orelse))
            # names that exist on both paths afterwards
            got = {}
            live = [o for o in outs if o in env or self.both(o, st)]
            if not live:
                raise Untranslatable("`if` that assigns nothing")

            def branch(stmts2, pure):
                def fin(env2):
                    for o in live:
                        got.setdefault(o, set()).add(env2[o])
                    vals = "(" + ", ".join(live) + ")" if len(live) != 1 else live[0]
                    return vals if pure else f"Except.ok {vals}"
                return self.blk(stmts2, env, fin)
            saved = (self.pure, self.n, dict(self.site))
            try:
                self.pure = True
                a, b = branch(list(st.body), True), branch(list(st.orelse), True)
                monadic = False
            except NeedMonad:
                self.pure, self.n, self.site = saved[0], saved[1], dict(saved[2])
                if saved[0]:
                    raise
                got.clear()
                a, b = branch(list(st.body), False), branch(list(st.orelse), False)
                monadic = True
            finally:
                self.pure = saved[0]
            for o in live:
                ts = got.get(o, set()) | ({env[o]} if o in env else set())
                if len(ts) != 1:
                    raise Untranslatable(f"`{o}` has types {sorted(ts)} after the `if`")
                env[o] = ts.pop()
            tt = tup([env[o] for o in live])
            r = self.fresh()
            cond = f"(if {c} = true then\n{a}\nelse\n{b})"
            lets = []
            if len(live) == 1:
                r = live[0]
            else:
                for k, o in enumerate(live):
                    proj = ".2" * k + (".1" if k < len(live) - 1 else "")
                    lets.append(("let", o, f"{r}{proj}", env[o]))
            first = ("bind", r, cond) if monadic else ("let", r, cond, tt)
            return self.mwrap(bc + [first] + lets, self.blk(rest, env, tail))
        if isinstance(st, ast.Try):
            return self.try_stmt(st, rest, env, tail)
        raise Untranslatable(f"statement `{ast.unparse(st)[:60]}`")

    def both(self, name, st):
        """assigned on both paths of the `if` (so that it exists afterwards although it did not before)"""
        return name in self.assigned(list(st.body)) and name in self.assigned(list(st.orelse))

    def coerce_ret(self, b, s, t):
        want = self.sp["ret"]
        if isinstance(want, tuple):
            if t != want:
                raise Untranslatable(f"returns {t}, declared {want}")
            return s
        return self.coerce(b, s, t, want)

    def try_stmt(self, st, rest, env, tail):
        if tail is not None:
            raise Untranslatable("try inside a branch that is read as an assignment")
        if st.orelse or st.finalbody or len(st.handlers) != 1:
            raise Untranslatable("try: else / finally / several handlers")
        h = st.handlers[0]
        if h.type is None or ast.unparse(h.type) != "Exception":
            raise Untranslatable(f"handler `except {ast.unparse(h.type) if h.type else ''}` (only `except Exception` is read)")
        fits, binds = [], []
        body = [s for s in st.body if not _is_doc(s)]
        k = 0
        while k < len(body):
            s = body[k]
            if not (isinstance(s, ast.Assign) and len(s.targets) == 1 and isinstance(s.targets[0], ast.Name)
                    and isinstance(s.value, ast.Call) and ast.unparse(s.value.func) == "self.distribution.fit"):
                break
            b, txt, _ = self.fit_call(s.value, env, as_option=True)
            if any(x[0] == "bind" for x in b):
                raise Untranslatable("fit argument that may raise inside try")
            binds += b
            self.check_local(s.targets[0].id)
            fits.append((s.targets[0].id, txt))
            k += 1
        if not fits:
            raise Untranslatable("try body without fits")
        names = [n for n, _ in fits]
        if len(set(names)) != len(names):
            raise Untranslatable("a fit name bound twice")
        for s in body[k:]:
            # the nan test: `if np.nan in f1 or np.nan in f2: raise …`   (part of the oracle "fit = none")
            ok = isinstance(s, ast.If) and not s.orelse and len(s.body) == 1 and isinstance(s.body[0], ast.Raise)
            if ok:
                ops = s.test.values if isinstance(s.test, ast.BoolOp) and isinstance(s.test.op, ast.Or) else [s.test]
                ok = all(isinstance(o, ast.Compare) and len(o.ops) == 1 and isinstance(o.ops[0], ast.In)
                         and ast.unparse(o.left) == "np.nan" and isinstance(o.comparators[0], ast.Name)
                         and o.comparators[0].id in names for o in ops)
            if not ok:
                raise Untranslatable(f"statement inside try: `{ast.unparse(s)[:60]}`")
        env2 = dict(env)
        for n in names:
            env2[n] = FIT
        cont = self.blk(rest, env2)
        handler = self.blk(list(h.body), dict(env))  # must end in return / raise on every path
        pats = ", ".join(f"some {n}" for n in names)
        wild = ", ".join("_" for _ in names)
        scrut = ", ".join(t for _, t in fits)
        return self.mwrap(binds, f"match {scrut} with\n| {pats} =>\n{cont}\n| {wild} =>\n{handler}")

    # ---------------------------------------------------------------- a whole function
    def translate(self):
        sp, node = self.sp, self.node
        a = node.args
        if a.vararg or a.kwarg or a.kwonlyargs or a.posonlyargs:
            raise Untranslatable("signature")
        params = [x.arg for x in a.args if x.arg != "self"]
        if params != list(sp["params"]):
            raise Untranslatable(f"parameters {params} (expected {list(sp['params'])})")
        env = dict(sp["params"])
        self.pure = bool(sp.get("pure"))
        if self.pure and _has_exit([s for s in node.body[:-1]]):
            raise Untranslatable("early return in a function declared pure")
        try:
            body = self.blk([s for s in node.body], env)
        except NeedMonad:
            raise Untranslatable("a function declared pure may raise")
        ret = sp["ret"]
        ret_t = tup(ret) if isinstance(ret, tuple) else ret
        sig = " ".join(f"({n} : {t})" for n, t in sp.get("symbols", []))
        sig += " " + " ".join(f"({n} : {t})" for n, t in dict((v[0], v[1]) for v in sp.get("attrs", {}).values()).items())
        sig += " " + " ".join(f"({n} : {t})" for n, t in sp["params"].items())
        return (f"/-- generated from `{ISI}`: `ISIMIP.{sp['func']}` (symbolic reading, see translator/extract_isimip_step6.py) -/\n"
                f"def {sp['lean']} {' '.join(sig.split())} : {ret_t if self.pure else f'Except String ({ret_t})'} :=\n{body}\n")


# ====================================================================================== specs
_QM = dict(lean="quantile_map_non_parametically", params=["x", "y", "vals"], args=[LR, LR, LR], ret=LR,
           required={"ecdf_method": "self.ecdf_method", "iecdf_method": "self.iecdf_method"})
_QMXY = dict(lean="quantile_map_x_on_y_non_parametically", params=["x", "y"], args=[LR, LR], ret=LR,
             required={"mode": "self.mode_non_parametric_qm", "ecdf_method": "self.ecdf_method", "iecdf_method": "self.iecdf_method"})

ADJUST = dict(
    func="_step6_adjust_values_between_thresholds", lean="adjust_values_between_thresholds",
    symbols=[("quantile_map_non_parametically", "List Rat → List Rat → List Rat → List Rat"),
             ("quantile_map_x_on_y_non_parametically", "List Rat → List Rat → List Rat"),
             ("dist_fit", "List Rat → Option Rat → Option Rat → Option (Rat × Rat)"),
             ("dist_cdf", "Rat × Rat → Rat → Rat"), ("dist_ppf", "Rat × Rat → Rat → Rat"),
             ("dist_is_rice", BOOL), ("dist_is_weibull_min", BOOL),
             ("fit_good_enough", "List Rat → Rat × Rat → Bool"), ("threshold_cdf_vals", "Rat → Rat"),
             ("interp_sorted_cdf_vals_on_given_length", "List Rat → Nat → List Rat"),
             ("sp_logit", "Rat → Rat"), ("sp_expit", "Rat → Rat"), ("np_log10", RAT)],
    attrs={"self.nonparametric_qm": ("self_nonparametric_qm", BOOL), "self.has_threshold": ("self_has_threshold", BOOL),
           "self.has_lower_threshold": ("self_has_lower_threshold", BOOL), "self.has_upper_threshold": ("self_has_upper_threshold", BOOL),
           "self.has_bound": ("self_has_bound", BOOL), "self.has_lower_bound": ("self_has_lower_bound", BOOL),
           "self.has_upper_bound": ("self_has_upper_bound", BOOL),
           "self.ks_test_for_goodness_of_cdf_fit": ("self_ks_test_for_goodness_of_cdf_fit", BOOL),
           "self.event_likelihood_adjustment": ("self_event_likelihood_adjustment", BOOL),
           "self.lower_threshold": ("self_lower_threshold", EXT), "self.upper_threshold": ("self_upper_threshold", EXT),
           "self.lower_bound": ("self_lower_bound", EXT), "self.upper_bound": ("self_upper_bound", EXT)},
    params={"obs_hist_sorted_entries_between_thresholds": LR, "obs_future_sorted_entries_between_thresholds": LR,
            "cm_hist_sorted_entries_between_thresholds": LR, "cm_future_sorted_entries_not_sent_to_bound": LR,
            "cm_future_sorted_entries_between_thresholds": LR},
    ret=LR,
    consts={"type(self.distribution) is type(scipy.stats.rice)": ("dist_is_rice", BOOL),
            "type(self.distribution) is type(scipy.stats.weibull_min)": ("dist_is_weibull_min", BOOL),
            "np.log(10)": ("np_log10", RAT)},
    calls={
        "quantile_map_non_parametically": _QM,
        "quantile_map_x_on_y_non_parametically": _QMXY,
        # _step6_fit_good_enough(data, distribution, fit): the distribution argument must be `self.distribution`
        "ISIMIP._step6_fit_good_enough": dict(lean="fit_good_enough", args=[LR, "<dist>", FIT], ret=BOOL),
        "threshold_cdf_vals": dict(lean="threshold_cdf_vals", params=["cdf_vals"], args=[LR], ret=LR, map=True),
        "interp_sorted_cdf_vals_on_given_length": dict(lean="interp_sorted_cdf_vals_on_given_length", params=["cdf_vals", "length"],
                                                       args=[LR, NAT], ret=LR),
        "scipy.special.logit": dict(lean="sp_logit", params=["x"], args=[LR], ret=LR, map=True),
        "scipy.special.expit": dict(lean="sp_expit", params=["x"], args=[LR], ret=LR, map=True),
    })

VALUES_BETWEEN = dict(
    func="_get_values_between_thresholds", lean="get_values_between_thresholds",
    symbols=[("get_mask_for_values_between_thresholds", "List Rat → List Bool")], attrs={}, params={"x": LR}, ret=LR, pure=True,
    calls={"self._get_mask_for_values_between_thresholds": dict(lean="get_mask_for_values_between_thresholds", args=[LR], ret=LB)})

_NR = "Gen.IsimipFreq.get_nr_of_entries_to_set_to_bound self_bias_correct_frequencies_of_values_beyond_thresholds"
STEP6 = dict(
    func="step6", lean="step6",
    symbols=[("np_argsort", "List Rat → List Nat"), ("np_argsort_idx", "List Nat → List Nat"), ("np_sort", "List Rat → List Rat"),
             ("get_mask_for_values_beyond_lower_threshold", "List Rat → List Bool"),
             ("get_mask_for_values_beyond_upper_threshold", "List Rat → List Bool"),
             ("get_mask_for_values_between_thresholds", "List Rat → List Bool"),
             ("get_values_between_thresholds", "List Rat → List Rat"),
             ("adjust_values_between_thresholds", "List Rat → List Rat → List Rat → List Rat → List Rat → Except String (List Rat)")],
    attrs={"self.has_lower_threshold": ("self_has_lower_threshold", BOOL), "self.has_upper_threshold": ("self_has_upper_threshold", BOOL),
           "self.has_threshold": ("self_has_threshold", BOOL), "self.has_bound": ("self_has_bound", BOOL),
           "self.has_lower_bound": ("self_has_lower_bound", BOOL), "self.has_upper_bound": ("self_has_upper_bound", BOOL),
           "self.bias_correct_frequencies_of_values_beyond_thresholds": ("self_bias_correct_frequencies_of_values_beyond_thresholds", BOOL),
           "self.lower_bound": ("self_lower_bound", EXT), "self.upper_bound": ("self_upper_bound", EXT),
           "self.lower_threshold": ("self_lower_threshold", EXT), "self.upper_threshold": ("self_upper_threshold", EXT)},
    params={"obs_hist": LR, "obs_future": LR, "cm_hist": LR, "cm_future": LR}, ret=LR,
    calls={
        "np.argsort": dict(lean="np_argsort", params=["a"], args=[LR], ret=LN, by_type={LN: "np_argsort_idx"}),
        "np.sort": dict(lean="np_sort", params=["a"], args=[LR], ret=LR),
        "self._get_mask_for_values_beyond_lower_threshold": dict(lean="get_mask_for_values_beyond_lower_threshold", args=[LR], ret=LB),
        "self._get_mask_for_values_beyond_upper_threshold": dict(lean="get_mask_for_values_beyond_upper_threshold", args=[LR], ret=LB),
        "self._get_mask_for_values_between_thresholds": dict(lean="get_mask_for_values_between_thresholds", args=[LR], ret=LB),
        "self._get_values_between_thresholds": dict(lean="get_values_between_thresholds", args=[LR], ret=LR),
        # the integer / mask kernels are the tier-A definitions of the groups IsimipFreq / IsimipSteps
        "self._step6_get_nr_of_entries_to_set_to_bound": dict(lean=_NR, args=[LB, LB, LB], ret=INT),
        "ISIMIP._step6_scale_nr_of_entries_to_set_to_bounds":
            dict(lean="Gen.IsimipFreq.scale_nr_of_entries_to_set_to_bounds", args=[INT, INT, INT], ret=(INT, INT)),
        "self._step6_get_mask_for_entries_to_set_to_lower_bound":
            dict(lean="Gen.IsimipSteps.get_mask_for_entries_to_set_to_lower_bound", args=[INT, LR], ret=LB),
        "ISIMIP._step6_get_mask_for_entries_to_set_to_lower_bound":
            dict(lean="Gen.IsimipSteps.get_mask_for_entries_to_set_to_lower_bound", args=[INT, LR], ret=LB),
        "self._step6_get_mask_for_entries_to_set_to_upper_bound":
            dict(lean="Gen.IsimipSteps.get_mask_for_entries_to_set_to_upper_bound", args=[INT, LR], ret=LB),
        "ISIMIP._step6_get_mask_for_entries_to_set_to_upper_bound":
            dict(lean="Gen.IsimipSteps.get_mask_for_entries_to_set_to_upper_bound", args=[INT, LR], ret=LB),
        "self._step6_adjust_values_between_thresholds":
            dict(lean="adjust_values_between_thresholds", args=[LR, LR, LR, LR, LR], ret=LR, monadic=True),
    })

_T3 = "List Rat × List Rat × List Rat"
STEP2 = dict(
    func="step2", lean="step2",
    symbols=[("step2_impute_values", "Nat → List Rat → Except String (List Rat)")],
    attrs={"self.impute_missing_values": ("self_impute_missing_values", BOOL)},
    params={"obs_hist": LR, "cm_hist": LR, "cm_future": LR}, ret=(LR, LR, LR),
    calls={"self._step2_impute_values": dict(lean="step2_impute_values", args=[LR], ret=LR, monadic=True, indexed=True)})
STEP3 = dict(
    func="step3", lean="step3",
    symbols=[("step3_remove_trend", "Nat → List Rat → List Int → List Rat × List Rat")],
    attrs={"self.detrending": ("self_detrending", BOOL)},
    params={"obs_hist": LR, "cm_hist": LR, "cm_future": LR, "years_obs_hist": LI, "years_cm_hist": LI, "years_cm_future": LI},
    ret=(LR, LR, LR, LR),
    calls={"self._step3_remove_trend": dict(lean="step3_remove_trend", args=[LR, LI], ret=(LR, LR), indexed=True)})
STEP4 = dict(
    func="step4", lean="step4",
    symbols=[("step4_randomize_lower", "Nat → List Rat → Except String (List Rat)"),
             ("step4_randomize_upper", "Nat → List Rat → Except String (List Rat)")],
    attrs={"self.has_lower_bound": ("self_has_lower_bound", BOOL), "self.has_lower_threshold": ("self_has_lower_threshold", BOOL),
           "self.has_upper_bound": ("self_has_upper_bound", BOOL), "self.has_upper_threshold": ("self_has_upper_threshold", BOOL),
           "self.has_bound": ("self_has_bound", BOOL), "self.has_threshold": ("self_has_threshold", BOOL)},
    params={"obs_hist": LR, "cm_hist": LR, "cm_future": LR}, ret=(LR, LR, LR),
    calls={"self._step4_randomize_values_between_lower_threshold_and_bound":
               dict(lean="step4_randomize_lower", args=[LR], ret=LR, monadic=True, indexed=True),
           "self._step4_randomize_values_between_upper_threshold_and_bound":
               dict(lean="step4_randomize_upper", args=[LR], ret=LR, monadic=True, indexed=True)})
STEP5 = dict(
    func="step5", lean="step5",
    symbols=[("get_mask_for_values_between_thresholds", "List Rat → List Bool"), ("get_values_between_thresholds", "List Rat → List Rat"),
             ("step5_transfer_trend", "List Rat → List Rat → List Rat → Except String (List Rat)")],
    attrs={"self.trend_transfer_only_for_values_within_threshold": ("self_trend_transfer_only_for_values_within_threshold", BOOL)},
    params={"obs_hist": LR, "cm_hist": LR, "cm_future": LR}, ret=LR,
    calls={"self._get_mask_for_values_between_thresholds": dict(lean="get_mask_for_values_between_thresholds", args=[LR], ret=LB),
           "self._get_values_between_thresholds": dict(lean="get_values_between_thresholds", args=[LR], ret=LR),
           "self._step5_transfer_trend": dict(lean="step5_transfer_trend", args=[LR, LR, LR], ret=LR, monadic=True)})
WINDOW = dict(
    func="_apply_on_window", lean="apply_on_window",
    symbols=[("step2", f"List Rat → List Rat → List Rat → Except String ({_T3})"),
             ("step3", f"List Rat → List Rat → List Rat → List Int → List Int → List Int → Except String ({_T3} × List Rat)"),
             ("step4", f"List Rat → List Rat → List Rat → Except String ({_T3})"),
             ("step5", "List Rat → List Rat → List Rat → Except String (List Rat)"),
             ("step6", "List Rat → List Rat → List Rat → List Rat → Except String (List Rat)"),
             ("step7", "List Rat → List Rat → List Rat")],
    attrs={}, params={"obs_hist": LR, "cm_hist": LR, "cm_future": LR, "years_obs_hist": LI, "years_cm_hist": LI, "years_cm_future": LI},
    ret=LR,
    calls={"self.step2": dict(lean="step2", args=[LR, LR, LR], ret=(LR, LR, LR), monadic=True),
           "self.step3": dict(lean="step3", args=[LR, LR, LR, LI, LI, LI], ret=(LR, LR, LR, LR), monadic=True),
           "self.step4": dict(lean="step4", args=[LR, LR, LR], ret=(LR, LR, LR), monadic=True),
           "self.step5": dict(lean="step5", args=[LR, LR, LR], ret=LR, monadic=True),
           "self.step6": dict(lean="step6", args=[LR, LR, LR, LR], ret=LR, monadic=True),
           "self.step7": dict(lean="step7", args=[LR, LR], ret=LR)})

SPECS = [ADJUST, VALUES_BETWEEN, STEP6, STEP2, STEP3, STEP4, STEP5, WINDOW]


def generate(repo):
    tree = ast.parse(open(os.path.join(repo, ISI)).read())
    out = ["", "import IbicusModel.Model.Py", "import IbicusModel.Model.Stats", "import IbicusModel.Model.IsimipFreq",
           "import IbicusModel.Model.Isimip", "import IbicusModel.Gen.IsimipFreq", "import IbicusModel.Gen.IsimipSteps", "",
           "set_option linter.unusedVariables false", "", "namespace Gen.IsimipStep6", ""]
    errors = []
    for sp in SPECS:
        try:
            node = find_function(tree, "ISIMIP", sp["func"])
            out.append(Sym(sp, node, tree).translate())
        except Untranslatable as ex:
            errors.append(f"untranslatable:{sp['func']}: " + " ".join(str(ex).split()))
    out.append("end Gen.IsimipStep6\n")
    return "\n".join(out), errors


if __name__ == "__main__":
    text, errs = generate(sys.argv[1] if len(sys.argv) > 1 else "/repo")
    print(text)
    print(errs, file=sys.stderr)
