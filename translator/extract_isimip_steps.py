"""
Tier-A extractor for the per-element arithmetic / decision logic of the ISIMIP steps (`ibicus/debias/_isimip.py`)
that are not straight-line kernels: `_step5_transfer_trend`, `_step3_remove_trend`, `step7`, the step-6 bound masks,
`_step4_randomize_values_between_*`, `_step2_get_mask_for_values_to_impute`, and (part 2) `_step1_scale_…` / `_step8_rescale_…`,
both branches of `_step1_calculate_debiased_annual_cycle_of_upper_bounds`, `_step1_get_annual_cycle_of_upper_bounds`, and the
wiring of `step1` / `step8`.  `_step2_impute_values` has its own symbolic reading at the end of this file (`generate_step2`,
group `IsimipStep2`).

Two readings, both strict (anything outside the stated shapes raises `Untranslatable` — never guessed):

* **element-wise reading** (`ElemFn`, functions declared `kind="elementwise"`): after a *prelude* of list-level
  statements (`name = <extern array call>` / `name = <array name>`), the body is read at ONE index `i` of the arrays of
  the declared shape class: an array variable denotes its `i`-th element (`Rat`, `Bool`), and
    - `x = np.zeros_like(y)`            → `0` (`false` with `dtype=bool`)
    - `x = np.empty_like(y)`            → `none : Option Rat`  (unassigned is observable)
    - `x[m] = E` (m a mask variable)    → `x := if m then E' else x`; inside `E` every array variable must appear as `y[m]`
                                          with that same mask (→ `y`); statements in source order, so a LATER masked
                                          assignment overrides an earlier one
    - `np.where(c, a, b)`               → `if c then a else b`
    - `np.logical_and/or`, `&`, `|`, `np.maximum/minimum`, `np.isclose`, comparisons, `+ - * /`  (py2lean's scalars)
    - an expression over ONE `Option Rat` variable `r` → `r.map (fun r' => …)`
    - `if <scalar condition>: x = E` (assignment-only branches) → `x := if c then E else x`
  A trailing `if / elif / else` chain on scalar conditions whose branches all return / raise is the *dispatcher*: each
  branch becomes its own per-element definition `<lean>_<tag>`, and a list-level definition `<lean>` applies the
  selected one to the zipped arrays.  Arrays of another shape class are not in scope of the element-wise part.
* **list-level reading** (`ListFn` = py2lean's `Fn` with `column`-style list semantics plus the additions below,
  functions declared `kind="list"`): `x = np.zeros_like(y[, dtype=bool])`, `x[lo:hi] = c` (Python slice semantics,
  `PyElem.setSlice`), `x[m] = <array>` (`Model.IsimipFreq.fillWhere`), tuple-unpacking of an extern
  call, attributes of an extern object (`regression.slope`), `for k, v in enumerate(xs): t[ys == v] = a[k]`
  (`PyElem.assignByKey`), `np.zeros(n, dtype=…)`, `X - np.mean(X)`.
  Part 2 (steps 1 / 8, functions declared `partial=True`: the definition is a `do` block in `Except String`):
    - `x[i]` with an integer `i` → `PyElem.getIdx` (negative index from the end, `IndexError` out of range); `x[idx]` with an
      integer array → `PyElem.takeIdx` / `PyElem.takeNat` (so `scaling[days - 1]` and `arr[days == d][0]` are compositions
      of `getIdx` / `takeIdx` with `Py.selectWhere`, not special forms);
    - `A if c else B` and `[E for v in xs]` / `np.array([...])` whose parts may raise → each branch its own `do` block,
      the comprehension a `mapM`;
    - `np.where(m, a, b)` on arrays (`PyElem.npWhere`, a scalar operand broadcast as `m.map (fun _ => s)`),
      `np.maximum/np.minimum` with one array operand, `np.array_equal`, `x.copy()` (values only), `np.unique(x)`,
      `u, idx = np.unique(x, return_index=True)` (`PyElem.uniqueIndex`), `np.maximum.reduceat` (`PyElem.reduceatMax`),
      `x.argsort()` (the declared symbol `np_argsort`), extern calls with required keyword literals (`mode="wrap"`);
    - `for k, v in enumerate(keys): <assignments / ifs>; out[k] = E` where the body neither reads `out` nor leaks a local
      → `PyElem.enumAssign out keys (fun k v => do …)` (`none` = nothing written in that iteration);
    - `x = None` for a declared optional local, tuple returns coerced per component (`T` into `Option T`);
    - calls of other generated definitions that may raise (`extern … partial=True`) are binds;
    - `total_div`: `/` is Lean's total division — numpy's array division never raises, and the quotient at a zero divisor
      has to be discarded by the code (`np.where`, a guard) for the `Gen = Model` theorem to hold (the model has the guard).

What is NOT identity (ignored by the extractor): comments, docstrings, the verification hook
`_verif_mark_unassigned(<name>)` (named in `ignore_calls`), the names of local variables (definitions are applied
positionally by the theorems), `dtype=` of `np.zeros` (float arithmetic is not modelled).  Everything else is identity.
"""
import ast
import os
import sys

sys.path.insert(0, os.path.dirname(os.path.abspath(__file__)))
from py2lean import BOOL, INT, LIST, PROP, RAT, STR, Fn, Unbound, Untranslatable, elem, find_function, is_list  # noqa: E402,F401

ORAT = "Option Rat"
ISI = "ibicus/debias/_isimip.py"


def _is_doc(st):
    return isinstance(st, ast.Expr) and isinstance(st.value, ast.Constant) and isinstance(st.value.value, str)


# ====================================================================================== element-wise reading
class ElemFn(Fn):
    """scalar expression translator used at one index of the arrays (see module docstring)"""

    def __init__(self, spec, node):
        super().__init__(spec, node, {})
        self.mask = None  # name of the mask of the masked assignment being translated
        self.arrays = set()  # names that denote an array element (not a scalar setting)
        self.consts = spec.get("consts", {})

    def expr(self, e, env, pre):
        if isinstance(e, (ast.BoolOp, ast.IfExp, ast.NamedExpr, ast.ListComp, ast.Tuple)):
            raise Untranslatable(f"element-wise reading: {type(e).__name__} `{ast.unparse(e)[:50]}`")
        if isinstance(e, ast.Attribute) and ast.unparse(e) in self.consts:
            return self.consts[ast.unparse(e)], RAT
        if isinstance(e, ast.Subscript):
            if (self.mask is not None and isinstance(e.value, ast.Name) and e.value.id in self.arrays
                    and isinstance(e.slice, ast.Name) and e.slice.id == self.mask and e.value.id in env):
                return e.value.id, env[e.value.id]
            raise Untranslatable(f"element-wise reading: subscript `{ast.unparse(e)}`"
                                 + (f" inside an assignment through mask `{self.mask}`" if self.mask else ""))
        if isinstance(e, ast.Name) and self.mask is not None and e.id in self.arrays:
            raise Untranslatable(f"array `{e.id}` used without `[{self.mask}]` inside an assignment through that mask")
        if isinstance(e, ast.Name) and env.get(e.id) == ORAT:
            raise Untranslatable(f"possibly unassigned buffer `{e.id}` used in an unsupported position")
        if isinstance(e, ast.Call) and ast.unparse(e.func) == "np.where" and len(e.args) == 3 and not e.keywords:
            c, tc = self.expr(e.args[0], env, pre)
            a, ta = self.expr(e.args[1], env, pre)
            b, tb = self.expr(e.args[2], env, pre)
            a, b, t = self.unify_num(a, ta, b, tb)
            return f"(if {self.coerce(c, tc, PROP)} then {a} else {b})", t
        if isinstance(e, ast.Call) and ast.unparse(e.func) == "np.logical_not" and len(e.args) == 1 and not e.keywords:
            a, ta = self.expr(e.args[0], env, pre)
            return f"(!{self.coerce(a, ta, BOOL)})", BOOL
        return super().expr(e, env, pre)

    def call(self, e, env, pre):
        f = ast.unparse(e.func)
        if f not in self.extern and f not in ("np.isclose", "np.logical_and", "np.logical_or", "np.maximum", "np.minimum"):
            raise Untranslatable(f"element-wise reading: call `{f}`")
        return super().call(e, env, pre)

    # ---- one element-wise block -> (lines, return string, return type) ; `raise` -> (None, exc, None)
    def rhs(self, value, env):
        """translate a right-hand side; lifts over the single `Option Rat` variable it may mention"""
        pre = []
        opt = sorted({n.id for n in ast.walk(value) if isinstance(n, ast.Name) and env.get(n.id) == ORAT})
        if len(opt) > 1:
            raise Untranslatable("expression over two possibly unassigned buffers")
        if opt:
            r = opt[0]
            if isinstance(value, ast.Name):
                return r, ORAT
            inner = r + "_v"
            if inner in env:
                raise Untranslatable(f"name clash {inner}")
            env2 = dict(env)
            env2[inner] = RAT

            class Sub(ast.NodeTransformer):
                def visit_Name(self, n):
                    return ast.Name(id=inner) if n.id == r else n

            was = inner in self.arrays
            self.arrays.add(inner)
            try:
                s, t = self.expr(Sub().visit(ast.parse(ast.unparse(value), mode="eval").body), env2, pre)
            finally:
                if not was:
                    self.arrays.discard(inner)
            if t != RAT or pre:
                raise Untranslatable("lifted expression is not a number")
            return f"(({r}).map (fun {inner} => {s}))", ORAT
        s, t = self.expr(value, env, pre)
        if pre:
            raise Untranslatable("walrus in element-wise block")
        return self.val(s, t), self.valt(t)

    def is_arrayish(self, value):
        return any(isinstance(n, ast.Name) and n.id in self.arrays for n in ast.walk(value))

    def alloc(self, value, env):
        """np.zeros_like(y[, dtype=bool]) / np.empty_like(y) on an array of the current shape"""
        if not (isinstance(value, ast.Call) and ast.unparse(value.func) in ("np.zeros_like", "np.empty_like")):
            return None
        f = ast.unparse(value.func)
        if len(value.args) != 1 or not (isinstance(value.args[0], ast.Name) and value.args[0].id in self.arrays
                                        and value.args[0].id in env):
            raise Untranslatable(f"{f}: argument must be an array of the element-wise shape")
        kws = [(k.arg, ast.unparse(k.value)) for k in value.keywords]
        if f == "np.empty_like":
            if kws or env[value.args[0].id] != RAT:
                raise Untranslatable("np.empty_like shape")
            return "none", ORAT
        if kws == [("dtype", "bool")]:
            return "false", BOOL
        if kws or env[value.args[0].id] != RAT:
            raise Untranslatable("np.zeros_like keywords")
        return "(0 : Rat)", RAT

    def block(self, stmts, env, ind=2):
        pad = " " * ind
        lines = []
        env = dict(env)
        ignore = self.spec.get("ignore_calls", ())
        for k, st in enumerate(stmts):
            last = k == len(stmts) - 1
            if _is_doc(st) or isinstance(st, ast.Pass):
                continue
            if isinstance(st, ast.Expr) and isinstance(st.value, ast.Call) and ast.unparse(st.value.func) in ignore:
                c = st.value
                if len(c.args) == 1 and not c.keywords and isinstance(c.args[0], ast.Name):
                    continue
                raise Untranslatable(f"hook call shape `{ast.unparse(st)}`")
            if isinstance(st, ast.Return):
                if not last or st.value is None:
                    raise Untranslatable("return before the end of an element-wise block")
                self.mask = None
                s, t = self.rhs(st.value, env)
                return lines, s, t
            if isinstance(st, ast.Raise):
                if not last:
                    raise Untranslatable("raise before the end of an element-wise block")
                exc = st.exc.func.id if isinstance(st.exc, ast.Call) and isinstance(st.exc.func, ast.Name) else None
                if exc is None:
                    raise Untranslatable("raise shape")
                return None, exc, None
            if isinstance(st, ast.Assign) and len(st.targets) == 1:
                tg = st.targets[0]
                if isinstance(tg, ast.Name):
                    self.mask = None
                    al = self.alloc(st.value, env)
                    if al is not None:
                        s, t = al
                        self.arrays.add(tg.id)
                    else:
                        s, t = self.rhs(st.value, env)
                        if self.is_arrayish(st.value):
                            self.arrays.add(tg.id)
                        elif tg.id in self.arrays:
                            raise Untranslatable(f"array `{tg.id}` rebound to a scalar")
                    env[tg.id] = t
                    lines.append(f"{pad}let {tg.id} : {t} := {s}")
                    continue
                if (isinstance(tg, ast.Subscript) and isinstance(tg.value, ast.Name) and isinstance(tg.slice, ast.Name)):
                    x, m = tg.value.id, tg.slice.id
                    if x not in env or x not in self.arrays or env.get(m) != BOOL or m not in self.arrays:
                        raise Untranslatable(f"masked assignment `{ast.unparse(tg)}`: not (array)[(mask)]")
                    self.mask = m
                    try:
                        s, t = self.rhs(st.value, env)
                    finally:
                        self.mask = None
                    tx = env[x]
                    if tx == ORAT and t == RAT:
                        s = f"some {s}"
                    elif tx == RAT and t == INT:
                        s = self.coerce(s, INT, RAT)
                    elif tx != t:
                        raise Untranslatable(f"masked assignment of {t} into {tx}")
                    lines.append(f"{pad}let {x} : {tx} := if {m} = true then {s} else {x}")
                    continue
                raise Untranslatable(f"assignment target `{ast.unparse(tg)}`")
            if isinstance(st, ast.If) and not self.is_arrayish(st.test):
                # assignment-only branches on a scalar condition
                self.mask = None
                pre = []
                c, tc = Fn.expr(self, st.test, env, pre) if isinstance(st.test, ast.BoolOp) else self.expr(st.test, env, pre)
                if pre:
                    raise Untranslatable("walrus in condition")
                c = self.coerce(c, tc, PROP)
                upd = {}
                for bi, branch in enumerate((st.body, st.orelse)):
                    seen = set()
                    for b in branch:
                        if not (isinstance(b, ast.Assign) and len(b.targets) == 1 and isinstance(b.targets[0], ast.Name)):
                            raise Untranslatable(f"non-assignment inside `if`: {ast.unparse(b)[:50]}")
                        nm = b.targets[0].id
                        used = {n.id for n in ast.walk(b.value) if isinstance(n, ast.Name)}
                        if nm in seen or (used & seen):
                            raise Untranslatable("dependent assignments inside `if`")
                        seen.add(nm)
                        if nm not in env:
                            raise Untranslatable(f"`{nm}` assigned in a branch only")
                        s, t = self.rhs(b.value, env)
                        if t != env[nm]:
                            raise Untranslatable(f"`{nm}` changes type in a branch")
                        upd.setdefault(nm, [None, None])[bi] = s
                for nm, (a, b) in upd.items():
                    lines.append(f"{pad}let {nm} : {env[nm]} := if {c} then {a or nm} else {b or nm}")
                continue
            raise Untranslatable(f"element-wise reading: statement `{ast.unparse(st)[:60]}`")
        raise Untranslatable("element-wise block without return")


class PreludeFn(Fn):
    """list-level statements in front of the element-wise part: extern array calls with required keyword texts"""

    def extern_call(self, e, f, env, pre):
        ex = self.extern[f]
        need = dict(ex.get("kwargs_text", {}))
        keep = []
        for k in e.keywords:
            if k.arg in need:
                if ast.unparse(k.value) != need.pop(k.arg):
                    raise Untranslatable(f"{f}: keyword {k.arg} must be `{ex['kwargs_text'][k.arg]}`")
            else:
                keep.append(k)
        if need:
            raise Untranslatable(f"{f}: keywords {sorted(need)} required")
        e2 = ast.Call(func=e.func, args=e.args, keywords=keep)
        return super().extern_call(e2, f, env, pre)


def used_names(stmts):
    return {n.id for s in stmts for n in ast.walk(s) if isinstance(n, ast.Name)} | {
        "self_" + n.attr for s in stmts for n in ast.walk(s)
        if isinstance(n, ast.Attribute) and isinstance(n.value, ast.Name) and n.value.id == "self"}


def gen_elementwise(node, sp):
    """returns lean text of the per-element definitions and the list-level definition"""
    scalars = sp["scalars"]  # name -> lean type (settings, extern function parameters, constants) in signature order
    arrays = sp["arrays"]  # python parameter -> (shape class, element type)
    shape = sp["shape"]
    pre_fn = PreludeFn(dict(params={}, ret=None, extern=sp.get("array_extern", {}), lean=sp["lean"]), node, {})
    stmts = [s for s in node.body if not _is_doc(s)]
    params = [a.arg for a in node.args.args if a.arg != "self"]
    if params != list(arrays):
        raise Untranslatable(f"parameters {params} (expected {list(arrays)})")
    lenv = {p: LIST(t) for p, (_, t) in arrays.items()}
    lenv.update(scalars)
    shapes = {p: s for p, (s, _) in arrays.items()}
    order = list(arrays)  # definition order of array names
    prelude = []
    k = 0
    while k < len(stmts):
        st = stmts[k]
        if not (isinstance(st, ast.Assign) and len(st.targets) == 1 and isinstance(st.targets[0], ast.Name)):
            break
        v = st.value
        nm = st.targets[0].id
        if isinstance(v, ast.Name) and v.id in shapes:
            shapes[nm] = shapes[v.id]
            lenv[nm] = lenv[v.id]
            prelude.append(f"  let {nm} : {lenv[nm]} := {v.id}")
        elif isinstance(v, ast.Call) and ast.unparse(v.func) in sp.get("array_extern", {}):
            ex = sp["array_extern"][ast.unparse(v.func)]
            pre = []
            s, t = pre_fn.expr(v, lenv, pre)
            if pre:
                raise Untranslatable("walrus in prelude")
            arg = v.args[ex["shape_of_arg"]]
            if not (isinstance(arg, ast.Name) and arg.id in shapes):
                raise Untranslatable(f"{ast.unparse(v.func)}: shape argument")
            shapes[nm] = shapes[arg.id]
            lenv[nm] = t
            prelude.append(f"  let {nm} : {t} := {s}")
        else:
            break
        if nm in order:
            raise Untranslatable(f"`{nm}` rebound in the prelude")
        order.append(nm)
        k += 1
    rest = stmts[k:]
    if not rest:
        raise Untranslatable("nothing after the prelude")
    in_scope = [n for n in order if shapes[n] == shape]
    # dispatcher?
    branches = []  # (condition lean | None, tag, stmts)
    probe = ElemFn(dict(params={}, ret=None, extern=sp.get("extern", {}), consts=sp.get("consts", {}),
                        ignore_calls=sp.get("ignore_calls", ()), lean=sp["lean"]), node)
    head = rest[0]
    if (len(rest) == 1 and isinstance(head, ast.If) and probe.all_paths_return(rest)
            and not any(isinstance(n, ast.Name) and n.id in shapes for n in ast.walk(head.test))):
        cur, idx = head, 0
        while True:
            pre = []
            c, tc = Fn.expr(pre_fn, cur.test, {k2: v2 for k2, v2 in lenv.items() if k2 in scalars}, pre)
            if pre:
                raise Untranslatable("walrus in dispatcher")
            tag = None
            if (isinstance(cur.test, ast.Compare) and len(cur.test.ops) == 1 and isinstance(cur.test.ops[0], ast.Eq)
                    and isinstance(cur.test.comparators[0], ast.Constant) and isinstance(cur.test.comparators[0].value, str)
                    and cur.test.comparators[0].value.isidentifier()):
                tag = cur.test.comparators[0].value
            idx += 1
            branches.append((pre_fn.coerce(c, tc, PROP), tag or f"b{idx}", cur.body))
            if len(cur.orelse) == 1 and isinstance(cur.orelse[0], ast.If):
                cur = cur.orelse[0]
                continue
            branches.append((None, "otherwise", cur.orelse))
            break
    else:
        branches.append((None, "elem", rest))
    used_arr = [n for n in in_scope if any(n in used_names(b) for _, _, b in branches)]
    out = []
    results = []
    for cond, tag, body in branches:
        fn = ElemFn(dict(params={}, ret=None, extern=sp.get("extern", {}), consts=sp.get("consts", {}),
                         ignore_calls=sp.get("ignore_calls", ()), lean=sp["lean"]), node)
        fn.arrays = set(used_arr)
        env = {n: elem(lenv[n]) for n in used_arr}
        env.update(scalars)
        lines, ret, t = fn.block(body, env)
        if lines is None:
            results.append((cond, tag, None, ret, None, []))
            continue
        un = used_names(body)
        sc = [n for n in scalars if n in un or _uses_const(body, sp, n) or _uses_extern(body, sp, n)]
        name = f"{sp['lean']}_{tag}"
        sig = " ".join(f"({n} : {scalars[n]})" for n in sc) + " " + " ".join(f"({n} : {env[n]})" for n in used_arr)
        out.append(f"/-- generated from `{ISI}`: `ISIMIP.{sp['func']}`, per element"
                   + (f", branch `{tag}`" if len(branches) > 1 else "") + " -/")
        out.append(f"def {name} {sig.strip()} : {t} :=\n" + "\n".join(lines + [f"  {ret}"]) + "\n")
        results.append((cond, tag, name, ret, t, sc))
    # list-level definition
    rts = {t for _, _, n, _, t, _ in results if n}
    rt = ORAT if ORAT in rts else (rts.pop() if len(rts) == 1 else None)
    if rt is None:
        raise Untranslatable(f"branches return different types {rts}")
    wraps = any(n is None for _, _, n, _, _, _ in results)

    def zipped(names):
        if len(names) == 1:
            return names[0], lambda i: "t"
        z = names[-1]
        for n in reversed(names[:-1]):
            z = f"List.zip {n} ({z})"
        # accessors: t.1, t.2.1, t.2.2.1, …, t.2.2…2
        def acc(i):
            return "t" + ".2" * i + (".1" if i < len(names) - 1 else "")
        return z, acc

    z, acc = zipped(used_arr)
    sig = " ".join(f"({n} : {t})" for n, t in scalars.items()) + " " + " ".join(f"({p} : {LIST(t)})" for p, (_, t) in arrays.items())
    body = list(prelude)
    ind = "  "
    for cond, tag, name, ret, t, sc in results:
        if name is None:
            val = f'.error "{ret}"'
        else:
            app = " ".join([name] + sc + [acc(i) for i in range(len(used_arr))])
            if rt == ORAT and t != ORAT:
                app = f"some ({app})"
            val = f"(({z}).map (fun t => {app}))"
            if wraps:
                val = f".ok {val}"
        if cond is not None:
            body.append(f"{ind}if {cond} then\n{ind}  {val}\n{ind}else")
            ind += "  "
        else:
            body.append(f"{ind}{val}")
    ret_t = LIST(rt)
    if wraps:
        ret_t = f"Except String ({ret_t})"
    out.append(f"/-- generated from `{ISI}`: `ISIMIP.{sp['func']}` (list level: prelude, dispatch, the per-element function on the zipped arrays) -/")
    out.append(f"def {sp['lean']} {sig.strip()} : {ret_t} :=\n" + "\n".join(body) + "\n")
    return "\n".join(out)


def _uses_const(body, sp, lean_name):
    for s in body:
        for n in ast.walk(s):
            if isinstance(n, ast.Attribute) and sp.get("consts", {}).get(ast.unparse(n)) == lean_name:
                return True
    return False


def _uses_extern(body, sp, lean_name):
    for s in body:
        for n in ast.walk(s):
            if isinstance(n, ast.Call):
                ex = sp.get("extern", {}).get(ast.unparse(n.func))
                if ex and ex["lean"] == lean_name:
                    return True
    return False


# ====================================================================================== list-level reading
class ListFn(PreludeFn):
    """py2lean's `Fn` (lists = arrays) plus the statement / expression shapes named in the module docstring"""

    def __init__(self, spec, node):
        spec = dict(spec)
        spec.setdefault("column", True)
        super().__init__(spec, node, {})
        self.objects = {}  # local name -> (extern object spec, translated argument strings)
        self.force_wrap = bool(spec.get("partial"))
        if self.force_wrap:
            self.wrap = True
            self.monadic = True

    # ---- expressions
    def expr(self, e, env, pre):
        if isinstance(e, ast.Attribute) and isinstance(e.value, ast.Name) and e.value.id in self.objects:
            ob, args = self.objects[e.value.id]
            if e.attr not in ob["attrs"]:
                raise Untranslatable(f"attribute {ast.unparse(e)} of an extern object")
            lean, t = ob["attrs"][e.attr]
            return "(" + " ".join([lean] + args) + ")", t
        if isinstance(e, ast.Attribute) and e.attr == "size":
            s, t = self.expr(e.value, env, pre)
            if is_list(t):
                return f"(({s}).length : Int)", INT
        if isinstance(e, ast.IfExp) and self.wrap:
            # `A if c else B` whose branches may raise (fancy indexing, `[…][0]`): each branch is its own `do` block
            c, tc = self.expr(e.test, env, pre)
            a, ta, pa = self.branch_do(e.body, env)
            b, tb, pb = self.branch_do(e.orelse, env)
            if pa or pb:
                if ta != tb:
                    raise Untranslatable(f"conditional expression of {ta} / {tb}")
                nm = self.fresh("t")
                pre.append((nm, f"(if {self.coerce(c, tc, PROP)} then {a} else {b})", ta, "bind"))
                return nm, ta
            return super().expr(e, env, pre)
        if isinstance(e, ast.ListComp) and self.wrap:
            # `[E for v in xs]` where `E` may raise -> `xs.mapM (fun v => do …)`
            if len(e.generators) != 1 or e.generators[0].ifs or e.generators[0].is_async:
                raise Untranslatable("list comprehension shape")
            g = e.generators[0]
            it, tit = self.expr(g.iter, env, pre)
            if not is_list(tit) or not isinstance(g.target, ast.Name):
                raise Untranslatable("list comprehension iterable")
            env2 = dict(env)
            env2[g.target.id] = elem(tit)
            body, tb, partial = self.branch_do(e.elt, env2)
            if not partial:
                return super().expr(e, env, pre)
            nm = self.fresh("t")
            pre.append((nm, f"(({it}).mapM (fun {g.target.id} => {body}))", LIST(tb), "bind"))
            return nm, LIST(tb)
        return super().expr(e, env, pre)

    def branch_do(self, e, env):
        """an expression that may raise, as a term of type `Except String T`: returns (term, T, did it need binds)"""
        pre2 = []
        s, t = self.expr(e, dict(env), pre2)
        s, t = self.val(s, t), self.valt(t)
        if not pre2:
            return f"(Except.ok {s})", t, False
        lets = "; ".join((f"let {p[0]} ← {p[1]}" if len(p) == 4 else f"let {p[0]} : {self.tstr(p[2])} := {p[1]}") for p in pre2)
        return f"(do {lets}; Except.ok {s})", t, any(len(p) == 4 for p in pre2)

    def binop(self, op, a, ta, b, tb, pre=None):
        # numpy's array division never raises (inf / nan + RuntimeWarning); the quotient at a zero divisor must be
        # discarded by the code (np.where / a guard) for the `Gen = Model` theorem to hold — the model has the guard
        if isinstance(op, ast.Div) and self.spec.get("total_div") and not is_list(ta) and not is_list(tb):
            return f"({self.coerce(a, ta, RAT)} / {self.coerce(b, tb, RAT)})", RAT
        return super().binop(op, a, ta, b, tb, pre)

    def subscript(self, e, env, pre):
        if self.wrap and not isinstance(e.slice, ast.Slice) and not (
                isinstance(e.value, ast.Call) and ast.unparse(e.value.func) == "np.where"):
            v, tv = self.expr(e.value, env, pre)
            i, ti = self.expr(e.slice, env, pre)
            if is_list(tv) and ti in (INT, LI, LIST("Nat")):
                fn = {INT: "PyElem.getIdx", LI: "PyElem.takeIdx"}.get(ti, "PyElem.takeNat")
                nm = self.fresh("t")
                rt = elem(tv) if ti == INT else tv
                pre.append((nm, f"{fn} {v} {i}", rt, "bind"))
                return nm, rt
            if is_list(tv) and ti == LB:
                return f"(Py.selectWhere {v} {i})", tv
            raise Untranslatable(f"subscript {ast.unparse(e)}")
        return super().subscript(e, env, pre)

    def broadcast(self, s, t, like):
        """a scalar operand of a list-level numpy call, broadcast to the shape of the list `like`"""
        if is_list(t):
            return s, t
        if t == INT:
            s, t = self.coerce(s, INT, RAT), RAT
        return f"(({like}).map (fun _ => {s}))", LIST(t)

    def call(self, e, env, pre):
        f = ast.unparse(e.func)
        kws = [(k.arg, ast.unparse(k.value)) for k in e.keywords]
        if f == "np.where" and len(e.args) == 3 and not kws:
            m, tm = self.expr(e.args[0], env, pre)
            if tm != LB:
                raise Untranslatable("np.where: the condition is not a mask")
            a, ta = self.expr(e.args[1], env, pre)
            b, tb = self.expr(e.args[2], env, pre)
            a, ta = self.broadcast(a, ta, m)
            b, tb = self.broadcast(b, tb, m)
            if ta == LI and tb == LR:
                a, ta = self.coerce(a, LI, LR), LR
            if tb == LI and ta == LR:
                b, tb = self.coerce(b, LI, LR), LR
            if ta != tb:
                raise Untranslatable(f"np.where of {ta} / {tb}")
            return f"(PyElem.npWhere {m} {a} {b})", ta
        if f in ("np.maximum", "np.minimum") and len(e.args) == 2 and not kws:
            a, ta = self.expr(e.args[0], env, pre)
            b, tb = self.expr(e.args[1], env, pre)
            if is_list(ta) or is_list(tb):
                o = "max" if f == "np.maximum" else "min"
                if is_list(ta) and is_list(tb):
                    if ta != tb:
                        raise Untranslatable(f"{f} of {ta} / {tb}")
                    x, y = self.fresh("x"), self.fresh("y")
                    return f"(List.zipWith (fun {x} {y} => {o} {x} {y}) ({a}) ({b}))", ta
                x = self.fresh("x")
                if is_list(ta):
                    sa, sb, tl, ts, lst = x, b, elem(ta), tb, a
                else:
                    sa, sb, tl, ts, lst = a, x, elem(tb), ta, b
                if tl == RAT and ts == INT:
                    if is_list(ta):
                        sb = self.coerce(sb, INT, RAT)
                    else:
                        sa = self.coerce(sa, INT, RAT)
                elif tl != ts:
                    raise Untranslatable(f"{f} of {ta} / {tb}")
                return f"(({lst}).map (fun {x} => {o} {sa} {sb}))", LIST(tl)
        if f == "np.array_equal" and len(e.args) == 2 and not kws:
            a, ta = self.expr(e.args[0], env, pre)
            b, tb = self.expr(e.args[1], env, pre)
            if ta != tb or not is_list(ta):
                raise Untranslatable(f"np.array_equal of {ta} / {tb}")
            return f"({a} = {b})", PROP
        if f == "np.unique" and len(e.args) == 1 and not kws:
            s, t = self.expr(e.args[0], env, pre)
            if t != LI:
                raise Untranslatable("np.unique on " + str(t))
            return f"(PyElem.uniqueIndex {s}).1", LI
        if isinstance(e.func, ast.Attribute) and e.func.attr == "copy" and not e.args and not kws:
            s, t = self.expr(e.func.value, env, pre)
            if not is_list(t):
                raise Untranslatable(".copy() of a non-array")
            return s, t  # values only: aliasing is not modelled
        if f == "np.array" and len(e.args) == 1 and not kws and isinstance(e.args[0], ast.ListComp):
            return self.expr(e.args[0], env, pre)
        if isinstance(e.func, ast.Attribute) and e.func.attr == "argsort" and not e.args and not kws and "np_argsort" in env:
            s, t = self.expr(e.func.value, env, pre)
            if t != LI:
                raise Untranslatable(".argsort() of " + str(t))
            return f"(np_argsort {s})", LIST("Nat")
        if f == "np.maximum.reduceat" and len(e.args) == 2 and not kws and self.wrap:
            a, ta = self.expr(e.args[0], env, pre)
            b, tb = self.expr(e.args[1], env, pre)
            if ta != LR or tb != LIST("Nat"):
                raise Untranslatable(f"np.maximum.reduceat of {ta} / {tb}")
            nm = self.fresh("t")
            pre.append((nm, f"PyElem.reduceatMax {a} {b}", LR, "bind"))
            return nm, LR
        if f == "np.zeros_like" and len(e.args) == 1:
            s, t = self.expr(e.args[0], env, pre)
            if not is_list(t):
                raise Untranslatable("np.zeros_like of a non-array")
            if kws == [("dtype", "bool")]:
                return f"(List.replicate ({s}).length false)", LB
            if kws or t != LR:
                raise Untranslatable("np.zeros_like keywords / element type")
            return f"(List.replicate ({s}).length (0 : Rat))", LR
        if f == "np.zeros" and len(e.args) == 1 and [k for k, _ in kws] in ([], ["dtype"]):
            # dtype of the zeros is not identity (float arithmetic is not modelled)
            s, t = self.expr(e.args[0], env, pre)
            if t != INT:
                raise Untranslatable("np.zeros size")
            return f"(List.replicate ({s}).toNat (0 : Rat))", LR
        return super().call(e, env, pre)

    def extern_call(self, e, f, env, pre):
        s, t = super().extern_call(e, f, env, pre)
        if self.extern[f].get("partial"):
            # the callee may raise (it is a generated definition of type `Except String _`)
            if not self.wrap:
                raise Untranslatable(f"call of raising function {f}")
            nm = self.fresh("t")
            pre.append((nm, s[1:-1] if s.startswith("(") and s.endswith(")") else s, t, "bind"))
            return nm, t
        return s, t

    # ---- the body of `for k, v in enumerate(keys)` that writes `out[k]` only (see PyElem.enumAssign)
    def loop_body(self, stmts, env, ind, out, index):
        pad = " " * ind
        if not stmts:
            return pad + "(Except.ok none)\n"
        st, rest = stmts[0], stmts[1:]
        pre = []
        if isinstance(st, ast.Assign) and len(st.targets) == 1 and isinstance(st.targets[0], ast.Name):
            nm = st.targets[0].id
            if nm in (out, index):
                raise Untranslatable(f"loop body rebinds `{nm}`")
            s, t = self.expr(st.value, env, pre)
            s, t = self.val(s, t), self.valt(t)
            env = dict(env)
            env[nm] = t
            return self.lets(pre, pad) + pad + f"let {nm} : {self.tstr(t)} := {s}\n" + self.loop_body(rest, env, ind, out, index)
        if isinstance(st, ast.Assign) and len(st.targets) == 1 and isinstance(st.targets[0], ast.Subscript):
            tg = st.targets[0]
            if not (isinstance(tg.value, ast.Name) and tg.value.id == out and isinstance(tg.slice, ast.Name) and tg.slice.id == index):
                raise Untranslatable(f"loop body writes `{ast.unparse(tg)}` (only `{out}[{index}]` is recognised)")
            if rest:
                raise Untranslatable(f"statements after `{ast.unparse(tg)} = …` in the loop body")
            s, t = self.expr(st.value, env, pre)
            if t == INT:
                s, t = self.coerce(s, INT, RAT), RAT
            if t != RAT:
                raise Untranslatable(f"`{ast.unparse(tg)}` assigned a {t}")
            return self.lets(pre, pad) + pad + f"(Except.ok (some {s}))\n"
        if isinstance(st, ast.If):
            c, tc = self.expr(st.test, env, pre)
            c = self.coerce(c, tc, PROP)
            return (self.lets(pre, pad) + pad + f"if {c} then\n" + self.loop_body(list(st.body) + rest, dict(env), ind + 2, out, index)
                    + pad + "else\n" + self.loop_body(list(st.orelse) + rest, dict(env), ind + 2, out, index))
        raise Untranslatable(f"loop body statement `{ast.unparse(st)[:60]}`")

    def enum_assign_loop(self, st, rest, env, ind):
        pad = " " * ind
        ok = (isinstance(st.target, ast.Tuple) and len(st.target.elts) == 2 and all(isinstance(x, ast.Name) for x in st.target.elts)
              and isinstance(st.iter, ast.Call) and ast.unparse(st.iter.func) == "enumerate" and len(st.iter.args) == 1
              and not st.iter.keywords and isinstance(st.iter.args[0], ast.Name) and not st.orelse)
        if not ok:
            raise Untranslatable("for loop shape: " + ast.unparse(st)[:70])
        index, key, keys = st.target.elts[0].id, st.target.elts[1].id, st.iter.args[0].id
        outs = {n.value.id for b in st.body for n in ast.walk(b)
                if isinstance(n, ast.Subscript) and isinstance(n.ctx, ast.Store) and isinstance(n.value, ast.Name)}
        if len(outs) != 1:
            raise Untranslatable(f"for loop: written arrays {sorted(outs)}")
        out = outs.pop()
        if env.get(keys) != LI or env.get(out) != LR or len({index, key, keys, out}) != 4:
            raise Untranslatable("for loop: types / names")
        for b in st.body:
            for n in ast.walk(b):
                if isinstance(n, ast.Name) and n.id == out and isinstance(n.ctx, ast.Load):
                    # `out[index] = E` parses as Subscript(Store) over Name(Load): allow exactly that position
                    pass
        reads = [n for b in st.body for n in ast.walk(b) if isinstance(n, ast.Name) and n.id == out]
        stores = [n for b in st.body for n in ast.walk(b)
                  if isinstance(n, ast.Subscript) and isinstance(n.ctx, ast.Store) and isinstance(n.value, ast.Name) and n.value.id == out]
        if len(reads) != len(stores):
            raise Untranslatable(f"for loop: the body reads `{out}`")
        if any(isinstance(n, (ast.Break, ast.Continue, ast.Return, ast.Raise, ast.For, ast.While, ast.AugAssign)) for b in st.body for n in ast.walk(b)):
            raise Untranslatable("for loop: control flow in the body")
        local = {t.id for b in st.body for n in ast.walk(b) if isinstance(n, ast.Assign) for t in n.targets if isinstance(t, ast.Name)}
        local |= {index, key}
        for r in rest:
            for n in ast.walk(r):
                if isinstance(n, ast.Name) and n.id in local:
                    raise Untranslatable(f"`{n.id}` of the loop body used after the loop")
        env2 = dict(env)
        env2[index] = INT
        env2[key] = INT
        body = self.loop_body(list(st.body), env2, ind + 4, out, index)
        body = body.rstrip("\n") + ")\n"
        return (pad + f"let {out} ← PyElem.enumAssign {out} {keys} (fun ({index}_n : Nat) ({key} : Int) => do\n"
                + " " * (ind + 4) + f"let {index} : Int := (({index}_n : Nat) : Int)\n" + body + self.block(rest, env, ind))

    # ---- statements
    def block(self, stmts, env, ind):
        if not stmts:
            raise Untranslatable("path without return")
        st, rest = stmts[0], stmts[1:]
        pad = " " * ind
        pre = []
        if isinstance(st, ast.Return) and isinstance(self.spec["ret"], tuple) and isinstance(st.value, ast.Tuple):
            # tuple return with per-component coercion (`T` into `Option T`: `some`)
            want = self.spec["ret"]
            if len(want) != len(st.value.elts):
                raise Untranslatable("return arity")
            parts = []
            for w, x in zip(want, st.value.elts):
                s, t = self.expr(x, env, pre)
                s, t = self.val(s, t), self.valt(t)
                if t != w:
                    if w == f"Option ({t})":
                        s = f"(some {s})"
                    else:
                        s = self.coerce(s, t, w)
                parts.append(s)
            return self.lets(pre, pad) + pad + self.ret_wrap("(" + ", ".join(parts) + ")") + "\n"
        if (isinstance(st, ast.Assign) and len(st.targets) == 1 and isinstance(st.targets[0], ast.Name)
                and isinstance(st.value, ast.Constant) and st.value.value is None):
            nm = st.targets[0].id
            t = self.spec.get("option_locals", {}).get(nm)
            if t is None:
                raise Untranslatable(f"`{nm} = None`")
            env = dict(env)
            env[nm] = f"Option ({t})"
            return pad + f"let {nm} : Option ({t}) := none\n" + self.block(rest, env, ind)
        if isinstance(st, ast.Assign) and len(st.targets) == 1:
            tg, v = st.targets[0], st.value
            # u, idx = np.unique(x, return_index=True)
            if (isinstance(tg, ast.Tuple) and len(tg.elts) == 2 and all(isinstance(x, ast.Name) for x in tg.elts)
                    and isinstance(v, ast.Call) and ast.unparse(v.func) == "np.unique" and len(v.args) == 1
                    and [(k.arg, ast.unparse(k.value)) for k in v.keywords] == [("return_index", "True")]):
                s, t = self.expr(v.args[0], env, pre)
                if t != LI:
                    raise Untranslatable("np.unique on " + str(t))
                env = dict(env)
                a, b = tg.elts[0].id, tg.elts[1].id
                if a == b:
                    raise Untranslatable("np.unique targets")
                env[a], env[b] = LI, LIST("Nat")
                return (self.lets(pre, pad) + pad + f"let {a} : {LI} := (PyElem.uniqueIndex {s}).1\n"
                        + pad + f"let {b} : List Nat := (PyElem.uniqueIndex {s}).2\n" + self.block(rest, env, ind))
            # x[lo:hi] = scalar  (basic slice, Python slice semantics)
            if (isinstance(tg, ast.Subscript) and isinstance(tg.value, ast.Name) and isinstance(tg.slice, ast.Slice)):
                x, sl = tg.value.id, tg.slice
                if sl.step is not None or x not in env or not is_list(env[x]):
                    raise Untranslatable(f"slice assignment {ast.unparse(tg)}")
                b = []
                for part in (sl.lower, sl.upper):
                    if part is None:
                        b.append("none")
                    else:
                        s, t = self.expr(part, env, pre)
                        if t != INT:
                            raise Untranslatable("slice bound is not an integer")
                        b.append(f"(some {s})")
                s, t = self.expr(v, env, pre)
                if self.valt(t) != elem(env[x]):
                    raise Untranslatable("slice assignment value type")
                return (self.lets(pre, pad) + pad + f"let {x} : {env[x]} := PyElem.setSlice {x} {b[0]} {b[1]} {self.val(s, t)}\n"
                        + self.block(rest, env, ind))
            # x[mask] = <array>
            if isinstance(tg, ast.Subscript) and isinstance(tg.value, ast.Name) and tg.value.id in env and is_list(env[tg.value.id]):
                x = tg.value.id
                m, tm = self.expr(tg.slice, env, pre)
                s, t = self.expr(v, env, pre)
                if tm == LB and t == env[x]:
                    return (self.lets(pre, pad) + pad + f"let {x} : {env[x]} := Model.IsimipFreq.fillWhere {x} {m} {s}\n"
                            + self.block(rest, env, ind))
            # a, b = extern(...)   (an extern call that returns a pair)
            if (isinstance(tg, ast.Tuple) and all(isinstance(x, ast.Name) for x in tg.elts) and isinstance(v, ast.Call)
                    and ast.unparse(v.func) in self.extern and isinstance(self.extern[ast.unparse(v.func)]["ret"], tuple)):
                ex = self.extern[ast.unparse(v.func)]
                if len(tg.elts) != len(ex["ret"]):
                    raise Untranslatable("tuple arity")
                s, _ = self.extern_call(v, ast.unparse(v.func), env, pre)
                env = dict(env)
                out = self.lets(pre, pad)
                for k, (nm, t) in enumerate(zip(tg.elts, ex["ret"])):
                    if nm.id != "_":
                        env[nm.id] = t
                        proj = ".2" * k + (".1" if k < len(ex["ret"]) - 1 else "")
                        out += pad + f"let {nm.id} : {t} := {s}{proj}\n"
                return out + self.block(rest, env, ind)
            # obj = extern_object(...)   (attributes read later: regression.slope)
            if (isinstance(tg, ast.Name) and isinstance(v, ast.Call) and ast.unparse(v.func) in self.spec.get("objects", {})):
                ob = self.spec["objects"][ast.unparse(v.func)]
                if v.keywords or len(v.args) != len(ob["args"]):
                    raise Untranslatable(f"{ast.unparse(v.func)}: arguments")
                args = []
                for a, want in zip(v.args, ob["args"]):
                    s, t = self.expr(a, env, pre)
                    args.append(self.coerce(s, t, want))
                if pre:
                    raise Untranslatable("walrus in extern object call")
                self.objects[tg.id] = (ob, args)
                return self.block(rest, env, ind)
        # for k, v in enumerate(keys): t[ys == v] = a[k]
        if isinstance(st, ast.For):
            ok = (isinstance(st.target, ast.Tuple) and len(st.target.elts) == 2 and all(isinstance(x, ast.Name) for x in st.target.elts)
                  and isinstance(st.iter, ast.Call) and ast.unparse(st.iter.func) == "enumerate" and len(st.iter.args) == 1
                  and not st.iter.keywords and isinstance(st.iter.args[0], ast.Name) and not st.orelse and len(st.body) == 1)
            b = st.body[0] if ok else None
            ok = ok and isinstance(b, ast.Assign) and len(b.targets) == 1
            if ok:
                k, vv, keys = st.target.elts[0].id, st.target.elts[1].id, st.iter.args[0].id
                tg, val = b.targets[0], b.value
                ok = (isinstance(tg, ast.Subscript) and isinstance(tg.value, ast.Name) and isinstance(tg.slice, ast.Compare)
                      and len(tg.slice.ops) == 1 and isinstance(tg.slice.ops[0], ast.Eq) and isinstance(tg.slice.left, ast.Name)
                      and isinstance(tg.slice.comparators[0], ast.Name) and tg.slice.comparators[0].id == vv
                      and isinstance(val, ast.Subscript) and isinstance(val.value, ast.Name) and isinstance(val.slice, ast.Name)
                      and val.slice.id == k)
            if not ok:
                return self.enum_assign_loop(st, rest, env, ind)
            t_, ys, a_ = tg.value.id, tg.slice.left.id, val.value.id
            if len({k, vv, keys, t_, ys, a_}) != 6:
                raise Untranslatable("for loop: names not distinct")
            if not (env.get(keys) == LI and env.get(ys) == LI and env.get(t_) == LR and env.get(a_) == LR):
                raise Untranslatable("for loop: types")
            return pad + f"let {t_} : {LR} := PyElem.assignByKey {t_} {ys} {keys} {a_}\n" + self.block(rest, env, ind)
        return super().block(stmts, env, ind)


def gen_list(node, sp):
    params = [a.arg for a in node.args.args if a.arg != "self"]
    declared = [p for p in sp["params"] if p in params or not (p.startswith("self_") or p in sp.get("symbols", ()))]
    if params != [p for p in sp["params"] if p in params] or set(params) - set(sp["params"]):
        raise Untranslatable(f"parameters {params}")
    del declared
    fn = ListFn(sp, node)
    text = fn.translate()
    return f"/-- generated from `{ISI}`: `ISIMIP.{sp['func']}` (list level) -/\n{text}"


# ====================================================================================== specs
LR, LB, LI = LIST(RAT), LIST(BOOL), LIST(INT)

STEP5 = dict(
    kind="elementwise", func="_step5_transfer_trend", lean="transfer_trend", shape="A",
    arrays={"obs_hist": ("A", RAT), "cm_hist": ("B", RAT), "cm_future": ("C", RAT)},
    scalars={"ecdf": "List Rat → List Rat → List Rat", "iecdf": "List Rat → List Rat → List Rat",
             "np_cos": "Rat → Rat", "np_pi": RAT, "self_trend_preservation_method": STR,
             "self_lower_bound": RAT, "self_upper_bound": RAT},
    array_extern={
        # ecdf(x, y, method=self.ecdf_method): one value per entry of y ; iecdf(x, p, method=self.iecdf_method): per entry of p
        "ecdf": dict(lean="ecdf", args=[LR, LR], ret=LR, kwargs_text={"method": "self.ecdf_method"}, shape_of_arg=1),
        "iecdf": dict(lean="iecdf", args=[LR, LR], ret=LR, kwargs_text={"method": "self.iecdf_method"}, shape_of_arg=1),
    },
    extern={"np.cos": dict(lean="np_cos", args=[RAT], ret=RAT)},
    consts={"np.pi": "np_pi"},
    ignore_calls=("_verif_mark_unassigned",),
)

MASK_LOWER = dict(kind="list", func="_step6_get_mask_for_entries_to_set_to_lower_bound", lean="get_mask_for_entries_to_set_to_lower_bound",
                  params={"nr": INT, "cm_future_sorted": LR}, ret=LB)
MASK_UPPER = dict(kind="list", func="_step6_get_mask_for_entries_to_set_to_upper_bound", lean="get_mask_for_entries_to_set_to_upper_bound",
                  params={"nr": INT, "cm_future_sorted": LR}, ret=LB)

FV = "PyElem.FVal"
STEP2_MASK = dict(
    kind="elementwise", func="_step2_get_mask_for_values_to_impute", lean="get_mask_for_values_to_impute", shape="A",
    arrays={"x": ("A", FV)}, scalars={},
    extern={"np.isnan": dict(lean="PyElem.FVal.isnan", args=[FV], ret=BOOL), "np.isinf": dict(lean="PyElem.FVal.isinf", args=[FV], ret=BOOL)},
)

STEP7 = dict(kind="elementwise", func="step7", lean="step7", shape="A",
             arrays={"cm_future": ("A", RAT), "trend_cm_future": ("A", RAT)}, scalars={"self_detrending": BOOL})


def step4(side):
    lo, hi = ("self.lower_bound", "self.lower_threshold") if side == "lower" else ("self.upper_threshold", "self.upper_bound")
    thr = f"self_{side}_threshold"
    return dict(
        kind="list", func=f"_step4_randomize_values_between_{side}_threshold_and_bound", lean=f"randomize_values_between_{side}_threshold_and_bound",
        params={"np_random_uniform": "Int → Rat → Rat → List Rat", "np_sort": "List Rat → List Rat",
                "sort_array_like_another_one": "List Rat → List Rat → List Rat",
                "self_lower_bound": RAT, "self_lower_threshold": RAT, "self_upper_threshold": RAT, "self_upper_bound": RAT, "vals": LR},
        symbols=("np_random_uniform", "np_sort", "sort_array_like_another_one"), ret=LR,
        extern={
            # the threshold masks are tier-A definitions of the group IsimipFreq
            f"self._get_mask_for_values_beyond_{side}_threshold":
                dict(lean=f"Gen.IsimipFreq.get_mask_for_values_beyond_{side}_threshold {thr}", args=[LR], ret=LB),
            "np.random.uniform": dict(lean="np_random_uniform", args=[INT, RAT, RAT], ret=LR,
                                      kwargs={"size": "arg", "low": "arg", "high": "arg"}),
            "np.sort": dict(lean="np_sort", args=[LR], ret=LR),
            "sort_array_like_another_one": dict(lean="sort_array_like_another_one", args=[LR, LR], ret=LR),
        })


STEP3 = dict(
    kind="list", func="_step3_remove_trend", lean="remove_trend",
    params={"get_years_and_yearly_means": "List Rat → List Int → List Int × List Rat",
            "linregress_pvalue": "List Rat → List Rat → Rat", "linregress_slope": "List Rat → List Rat → Rat",
            "self_detrending_with_significance_test": BOOL, "x": LR, "years": LI},
    symbols=("get_years_and_yearly_means", "linregress_pvalue", "linregress_slope"), ret=(LR, LR),
    extern={"get_years_and_yearly_means": dict(lean="get_years_and_yearly_means", args=[LR, LI], ret=(LI, LR)),
            "np.mean": dict(lean="Py.mean", args=[LR], ret=RAT)},
    objects={"scipy.stats.linregress": dict(args=[LR, LR], attrs={"pvalue": ("linregress_pvalue", RAT), "slope": ("linregress_slope", RAT)})},
)

# ---- part 2: step 1 / step 8 (scaling by the annual cycle of upper bounds)
_CYC = {"vals": LR, "days_of_year_vals": LI, "annual_cycle_of_upper_bounds": LR, "days_of_year_annual_cycle_of_upper_bounds": LI}
STEP1_SCALE = dict(kind="list", func="_step1_scale_by_annual_cycle_of_upper_bounds", lean="scale_by_annual_cycle_of_upper_bounds",
                   params=dict(_CYC), ret=LR, partial=True, total_div=True)
STEP8_RESCALE = dict(kind="list", func="_step8_rescale_by_annual_cycle_of_upper_bounds", lean="rescale_by_annual_cycle_of_upper_bounds",
                     params=dict(_CYC), ret=LR, partial=True, total_div=True)
STEP1_DEBIASED = dict(
    kind="list", func="_step1_calculate_debiased_annual_cycle_of_upper_bounds", lean="calculate_debiased_annual_cycle_of_upper_bounds",
    params={"annual_cycle_obs_hist": LR, "unique_days_of_year_obs_hist": LI, "annual_cycle_cm_hist": LR, "unique_days_of_year_cm_hist": LI,
            "annual_cycle_cm_future": LR, "unique_days_of_year_cm_future": LI},
    ret=LR, partial=True, total_div=True)
_FILTER = "List Rat → Int → List Rat"
STEP1_CYCLE = dict(
    kind="list", func="_step1_get_annual_cycle_of_upper_bounds", lean="get_annual_cycle_of_upper_bounds",
    params={"np_argsort": "List Int → List Nat", "maximum_filter1d_wrap": _FILTER, "uniform_filter1d_wrap": _FILTER,
            "self_window_length_annual_cycle_of_upper_bounds": INT, "vals": LR, "days_of_year_vals": LI},
    symbols=("np_argsort", "maximum_filter1d_wrap", "uniform_filter1d_wrap"), ret=(LR, LI), partial=True,
    extern={
        # scipy.ndimage.*_filter1d(a, size=…, mode="wrap"): the size is an argument, the mode literal is required
        "scipy.ndimage.maximum_filter1d": dict(lean="maximum_filter1d_wrap", args=[LR, INT], ret=LR, kwargs={"size": "arg", "mode": "wrap"}),
        "scipy.ndimage.uniform_filter1d": dict(lean="uniform_filter1d_wrap", args=[LR, INT], ret=LR, kwargs={"size": "arg", "mode": "wrap"}),
    })

# the wiring of `step1` / `step8`: which series / which cycle goes into which helper (the helpers are the generated
# definitions above; `day_of_year(time)` is extern, `time` an opaque integer encoding)
_CYCLE_ARGS = "np_argsort maximum_filter1d_wrap uniform_filter1d_wrap self_window_length_annual_cycle_of_upper_bounds"
STEP1 = dict(
    kind="list", func="step1", lean="step1",
    params={"day_of_year": "List Int → List Int", "np_argsort": "List Int → List Nat", "maximum_filter1d_wrap": _FILTER,
            "uniform_filter1d_wrap": _FILTER, "self_scale_by_annual_cycle_of_upper_bounds": BOOL,
            "self_window_length_annual_cycle_of_upper_bounds": INT, "obs_hist": LR, "cm_hist": LR, "cm_future": LR,
            "time_obs_hist": LI, "time_cm_hist": LI, "time_cm_future": LI},
    symbols=("day_of_year", "np_argsort", "maximum_filter1d_wrap", "uniform_filter1d_wrap"),
    ret=(LR, LR, LR, "Option (List Rat)"), partial=True, option_locals={"debiased_annual_cycle": LR},
    extern={
        "day_of_year": dict(lean="day_of_year", args=[LI], ret=LI),
        "self._step1_get_annual_cycle_of_upper_bounds":
            dict(lean="get_annual_cycle_of_upper_bounds " + _CYCLE_ARGS, args=[LR, LI], ret=(LR, LI), partial=True),
        "ISIMIP._step1_scale_by_annual_cycle_of_upper_bounds":
            dict(lean="scale_by_annual_cycle_of_upper_bounds", args=[LR, LI, LR, LI], ret=LR, partial=True),
        "ISIMIP._step1_calculate_debiased_annual_cycle_of_upper_bounds":
            dict(lean="calculate_debiased_annual_cycle_of_upper_bounds", args=[LR, LI, LR, LI, LR, LI], ret=LR, partial=True),
    })
STEP8 = dict(
    kind="list", func="step8", lean="step8",
    params={"day_of_year": "List Int → List Int", "self_scale_by_annual_cycle_of_upper_bounds": BOOL, "cm_future": LR,
            "debiased_annual_cycle": LR, "time_cm_future": LI},
    symbols=("day_of_year",), ret=LR, partial=True,
    extern={
        "day_of_year": dict(lean="day_of_year", args=[LI], ret=LI),
        "ISIMIP._step8_rescale_by_annual_cycle_of_upper_bounds":
            dict(lean="rescale_by_annual_cycle_of_upper_bounds", args=[LR, LI, LR, LI], ret=LR, partial=True),
    })

SPECS = [STEP5, STEP7, STEP2_MASK, MASK_LOWER, MASK_UPPER, step4("lower"), step4("upper"), STEP3,
         STEP1_SCALE, STEP8_RESCALE, STEP1_DEBIASED, STEP1_CYCLE, STEP1, STEP8]


def generate(repo):
    tree = ast.parse(open(os.path.join(repo, ISI)).read())
    out = ["", "import IbicusModel.Model.Py", "import IbicusModel.Model.PyElem", "import IbicusModel.Model.IsimipFreq",
           "import IbicusModel.Gen.IsimipFreq", "",
           "set_option linter.unusedVariables false", "", "namespace Gen.IsimipSteps", ""]
    errors = []
    for sp in SPECS:
        try:
            node = find_function(tree, "ISIMIP", sp["func"])
            if sp["kind"] == "elementwise":
                out.append(gen_elementwise(node, sp))
            else:
                out.append(gen_list(node, sp))
        except Untranslatable as ex:
            errors.append(f"untranslatable:{sp['func']}: " + " ".join(str(ex).split()))
    out.append("end Gen.IsimipSteps\n")
    return "\n".join(out), errors



# ====================================================================================== step 2: `_step2_impute_values`
# A third, dedicated reading (group `IsimipStep2`, `Gen/IsimipStep2.lean`): the function is evaluated *symbolically* —
# every local name is bound to the expression tree it was computed from (DSL `Model.IsimipStep2.E`), so the names of
# locals play no role — and emitted as DATA (`Step2Spec`): which values count as valid, the exception when none is valid,
# the single-valid-value branch, and the mask / value of the final masked assignment.  Strict: any other statement or
# expression raises `Untranslatable`.
class Step2Reader:
    MASK_HELPER = "self._step2_get_mask_for_values_to_impute"

    def __init__(self, node):
        self.node = node
        params = [a.arg for a in node.args.args]
        if params != ["self", "x"] or node.args.vararg or node.args.kwarg or node.args.kwonlyargs or node.args.defaults:
            raise Untranslatable(f"step2: parameters {params}")
        self.env = {"x": (".x", "farr")}  # name -> (term, kind); kinds: farr (the argument), arr, mask, idx, nat, num, interp
        self.valid = None
        self.empty_raises = None
        self.single = None
        self.fill = None

    # ---- expressions
    def ev(self, e):
        if isinstance(e, ast.Name):
            if e.id not in self.env:
                raise Untranslatable(f"step2: unknown name `{e.id}`")
            return self.env[e.id]
        if isinstance(e, ast.Subscript):
            if isinstance(e.slice, ast.Constant) and e.slice.value == 0 and type(e.slice.value) is int:
                v = e.value
                if isinstance(v, ast.Call) and ast.unparse(v.func) == "np.where" and len(v.args) == 1 and not v.keywords:
                    m, k = self.ev(v.args[0])
                    if k != "mask":
                        raise Untranslatable("step2: np.where of a non-mask")
                    return f"(.whereIdx {m})", "idx"
                a, k = self.ev(v)
                if k not in ("arr",):
                    raise Untranslatable(f"step2: `{ast.unparse(e)}`: [0] of {k}")
                return f"(.first {a})", "num"
            a, ka = self.ev(e.value)
            i, ki = self.ev(e.slice)
            if ka in ("arr", "farr") and ki == "mask":
                return f"(.sel {a} {i})", "arr"
            if ka == "arr" and ki == "idx":
                return f"(.take {a} {i})", "arr"
            raise Untranslatable(f"step2: `{ast.unparse(e)[:60]}`: {ka} indexed by {ki}")
        if isinstance(e, ast.Call):
            f = ast.unparse(e.func)
            kws = {k.arg: k.value for k in e.keywords}
            if None in kws or any(isinstance(a, ast.Starred) for a in e.args):
                raise Untranslatable(f"step2: `{ast.unparse(e)[:60]}`")
            if isinstance(e.func, ast.Name) and e.func.id in self.env and self.env[e.func.id][1] == "interp":
                if len(e.args) != 1 or kws:
                    raise Untranslatable("step2: call of the interpolant")
                at, k = self.ev(e.args[0])
                if k not in ("idx", "arr"):
                    raise Untranslatable("step2: interpolant evaluated at " + k)
                xs, ys = self.env[e.func.id][0]
                return f"(.interp {xs} {ys} {at})", "arr"
            if f == self.MASK_HELPER and len(e.args) == 1 and not kws:
                a, k = self.ev(e.args[0])
                if (a, k) != (".x", "farr"):
                    raise Untranslatable("step2: the mask helper is not applied to x")
                return ".maskImpute", "mask"
            if f == "np.logical_not" and len(e.args) == 1 and not kws:
                m, k = self.ev(e.args[0])
                if k != "mask":
                    raise Untranslatable("step2: logical_not of " + k)
                return f"(.not {m})", "mask"
            if f == "np.argsort" and len(e.args) == 1 and not kws:
                inner = e.args[0]
                if isinstance(inner, ast.Call) and ast.unparse(inner.func) == "np.argsort" and len(inner.args) == 1 and not inner.keywords:
                    a, k = self.ev(inner.args[0])
                    if k != "arr":
                        raise Untranslatable("step2: argsort(argsort(.)) of " + k)
                    return f"(.rank {a})", "idx"
                raise Untranslatable("step2: a single np.argsort")
            if f == "np.sort" and len(e.args) == 1 and not kws:
                a, k = self.ev(e.args[0])
                if k != "arr":
                    raise Untranslatable("step2: np.sort of " + k)
                return f"(.sort {a})", "arr"
            if f == "iecdf":
                names = ["x", "p", "method"]
                got = dict(zip(names, e.args))
                for k_, v_ in kws.items():
                    if k_ in got or k_ not in names:
                        raise Untranslatable("step2: iecdf arguments")
                    got[k_] = v_
                if set(got) != set(names):
                    raise Untranslatable("step2: iecdf arguments")
                a, ka = self.ev(got["x"])
                p_, kp = self.ev(got["p"])
                if ka != "arr" or kp != "arr":
                    raise Untranslatable("step2: iecdf of " + ka + ", " + kp)
                return f'(.iecdf {a} {p_} "{ast.unparse(got["method"])}")', "arr"
            if f == "np.random.random" and not e.args and set(kws) == {"size"}:
                n, k = self.ev(kws["size"])
                if k != "nat":
                    raise Untranslatable("step2: np.random.random(size=" + k + ")")
                return f"(.random {n})", "arr"
            if isinstance(e.func, ast.Attribute) and e.func.attr == "sum" and not e.args and not kws:
                m, k = self.ev(e.func.value)
                if k != "mask":
                    raise Untranslatable("step2: .sum() of " + k)
                return f"(.count {m})", "nat"
            if f == "scipy.interpolate.interp1d" and len(e.args) == 2 and set(kws) == {"fill_value"} \
                    and isinstance(kws["fill_value"], ast.Constant) and kws["fill_value"].value == "extrapolate":
                xs, kx = self.ev(e.args[0])
                ys, ky = self.ev(e.args[1])
                if kx not in ("idx", "arr") or ky not in ("idx", "arr"):
                    raise Untranslatable("step2: interp1d knots")
                return (xs, ys), "interp"
        raise Untranslatable(f"step2: expression `{ast.unparse(e)[:70]}`")

    def size_test(self, t, n):
        """`<arr>.size == n` -> term of the array"""
        if (isinstance(t, ast.Compare) and len(t.ops) == 1 and isinstance(t.ops[0], ast.Eq) and isinstance(t.left, ast.Attribute)
                and t.left.attr == "size" and isinstance(t.comparators[0], ast.Constant) and t.comparators[0].value == n
                and type(t.comparators[0].value) is int):
            a, k = self.ev(t.left.value)
            if k == "arr":
                return a
        return None

    def masked_assign(self, st):
        """`x[m] = v` -> (mask term, value term, kind of the value)"""
        if not (isinstance(st, ast.Assign) and len(st.targets) == 1 and isinstance(st.targets[0], ast.Subscript)):
            return None
        tg = st.targets[0]
        a, k = self.ev(tg.value)
        m, km = self.ev(tg.slice)
        if (a, k) != (".x", "farr") or km != "mask":
            raise Untranslatable(f"step2: assignment target `{ast.unparse(tg)[:50]}`")
        v, kv = self.ev(st.value)
        return m, v, kv

    def returns_x(self, st):
        return isinstance(st, ast.Return) and st.value is not None and self.ev(st.value) == (".x", "farr")

    def run(self):
        body = [s for s in self.node.body if not _is_doc(s)]
        k = 0
        while k < len(body):
            st = body[k]
            k += 1
            if self.fill is not None:
                if self.returns_x(st) and k == len(body):
                    return self
                raise Untranslatable("step2: the final assignment is not followed by `return x`")
            if isinstance(st, ast.Assign) and len(st.targets) == 1 and isinstance(st.targets[0], ast.Name):
                if st.targets[0].id == "x":
                    raise Untranslatable("step2: x is rebound")
                self.env[st.targets[0].id] = self.ev(st.value)
            elif isinstance(st, ast.If) and not st.orelse:
                if self.empty_raises is None:
                    a = self.size_test(st.test, 0)
                    if a is None or len(st.body) != 1 or not isinstance(st.body[0], ast.Raise) or st.body[0].exc is None:
                        raise Untranslatable(f"step2: expected `if <valid>.size == 0: raise …`, found `{ast.unparse(st.test)[:60]}`")
                    exc = st.body[0].exc
                    self.valid = a
                    self.empty_raises = ast.unparse(exc.func) if isinstance(exc, ast.Call) else ast.unparse(exc)
                elif self.single is None:
                    a = self.size_test(st.test, 1)
                    if a is None or a != self.valid or len(st.body) != 2 or not self.returns_x(st.body[1]):
                        raise Untranslatable(f"step2: expected `if <valid>.size == 1: x[m] = v; return x`, found `{ast.unparse(st.test)[:60]}`")
                    got = self.masked_assign(st.body[0])
                    if got is None or got[2] != "num":
                        raise Untranslatable("step2: the single-value branch does not assign a scalar through a mask")
                    self.single = got[:2]
                else:
                    raise Untranslatable(f"step2: unexpected `if {ast.unparse(st.test)[:60]}`")
            else:
                got = self.masked_assign(st)
                if got is None or got[2] != "arr" or self.single is None:
                    raise Untranslatable(f"step2: unexpected statement `{ast.unparse(st)[:70]}`")
                self.fill = got[:2]
        raise Untranslatable("step2: no final masked assignment followed by `return x`")

    def lean(self):
        return "\n".join([
            f"/-- generated from `{ISI}`: `ISIMIP._step2_impute_values` (symbolic reading: every local replaced by what it was computed from) -/",
            "def impute_values : Step2Spec where",
            f"  valid := {self.valid}",
            f'  emptyRaises := "{self.empty_raises}"',
            f"  singleMask := {self.single[0]}",
            f"  singleValue := {self.single[1]}",
            f"  fillMask := {self.fill[0]}",
            f"  fillValue := {self.fill[1]}"])


def generate_step2(repo):
    tree = ast.parse(open(os.path.join(repo, ISI)).read())
    out = ["", "import IbicusModel.Model.IsimipStep2", "", "namespace Gen.IsimipStep2", "open Model.IsimipStep2", ""]
    errors = []
    try:
        out += [Step2Reader(find_function(tree, "ISIMIP", "_step2_impute_values")).run().lean(), ""]
    except Untranslatable as ex:
        errors.append("untranslatable:_step2_impute_values: " + " ".join(str(ex).split()))
    out.append("end Gen.IsimipStep2\n")
    return "\n".join(out), errors


if __name__ == "__main__":
    text, errs = generate(sys.argv[1] if len(sys.argv) > 1 else "/repo")
    print(text)
    print(errs, file=sys.stderr)
