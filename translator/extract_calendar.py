"""
Tier-A extractor for the calendar helpers of `ibicus/utils/_utils.py` (C07 / C08 / C19 and every property that reads a
time axis): their *structure* regenerated from /repo's current AST as data of the DSL `Model/CalendarFns.lean`, written to
`lean/IbicusModel/Gen/CalendarFns.lean` (`Lemmas/GenCalendarFns.lean` proves every value equal to the expected one and
the denotation of the expected one equal to `Model/Calendar.lean` / `Model/Isimip.lean` / `Model/Loops.lean`).

  day, month, year, day_of_year   `PubFn`: `P = <coerce>(P)`; `if <test on P>: P = P<.astype(..)…>`; `return G(P)` where `G`
                                  is resolved through the module-level bindings (`G = np.vectorize(G)`) to a per-element
                                  function `def g(x): try: <body> except <C>: raise <E>(..)`; `<body>` = assignments of
                                  locals (substituted), `if hasattr(x, "a"): … else: …`, `return <expr>`; `<expr>` over the
                                  element: attributes, zero-argument method calls, `type(x)(a, b, c)`, a call of a public
                                  helper of the module on the element, `+`, `-`, integer literals
  season                          `SeasonFn`: `P = <helper>(P)`; a nested `def g(m): if m in [..]: return "S" elif … else:
                                  return None`; `g = np.vectorize(g)`; `return g(P)`
  create_array_of_consecutive_dates   `ConsecSpec`: the default start-date literal, the coercion of a non-datetime64 start,
                                  `np.arange(start, start + np.timedelta64(n, "U") [, step])`, the conversion chain
  get_yearly_means, get_years_and_yearly_means, get_mask_for_unique_subarray   terms of `YE` (calls between them inlined)

Identity of the tie: every statement of these functions — which attribute / method is read per element, the branch on
`hasattr`, the branch on the dtype and the conversions applied in it, the wrapper, the month lists and season strings in
source order, the start literal, the unit, the step; a statement that is not of the shapes above (a new branch, a
vectorised path, a lookup table …) is `Untranslatable` (a broken tie: the definition is not emitted and its theorem no
longer checks).  Not part of it: names of parameters, locals and private helpers, docstrings, comments, the message text of
the exceptions, annotations.
"""
import ast
import os
import re

SRC = "ibicus/utils/_utils.py"
PUBLIC = ["day", "month", "year", "day_of_year"]


class Untranslatable(Exception):
    pass


def lstr(s):
    return '"' + s.replace("\\", "\\\\").replace('"', '\\"').replace("\n", " ") + '"'


def lint(n):
    return f"({n})" if n < 0 else str(n)


def strip_doc(stmts):
    return [s for s in stmts if not (isinstance(s, ast.Expr) and isinstance(s.value, ast.Constant) and isinstance(s.value.value, str))]


def params(fn):
    a = fn.args
    if a.vararg or a.kwarg or a.kwonlyargs or a.posonlyargs:
        raise Untranslatable(f"{fn.name}: unexpected parameter kinds")
    return [p.arg for p in a.args]


class Rename(ast.NodeTransformer):
    def __init__(self, mapping):
        self.mapping = mapping

    def visit_Name(self, node):
        return ast.copy_location(ast.Name(id=self.mapping.get(node.id, node.id), ctx=node.ctx), node)


def text_with(node, mapping):
    """source text of an expression with the given names replaced (the parameter is written `_`)"""
    import copy

    return ast.unparse(Rename(mapping).visit(copy.deepcopy(node)))


class Module:
    """module-level bindings in source order: name -> ("def", FunctionDef) | ("wrap", text, inner binding)"""

    def __init__(self, repo):
        self.tree = ast.parse(open(os.path.join(repo, SRC)).read())
        self.bind = {}
        for st in self.tree.body:
            if isinstance(st, ast.FunctionDef):
                self.bind[st.name] = ("def", st)
            elif isinstance(st, ast.Assign):
                for t in st.targets:
                    for n in ast.walk(t):
                        if isinstance(n, ast.Name):
                            self.bind[n.id] = self.wrap(st) if (len(st.targets) == 1 and isinstance(t, ast.Name)) else ("other", ast.unparse(st))
            elif isinstance(st, (ast.AugAssign, ast.AnnAssign)) and isinstance(st.target, ast.Name):
                self.bind[st.target.id] = ("other", ast.unparse(st))

    def wrap(self, st):
        v = st.value
        if (isinstance(v, ast.Call) and len(v.args) == 1 and isinstance(v.args[0], ast.Name) and v.args[0].id in self.bind):
            return ("wrap", text_with(v, {v.args[0].id: "_"}), self.bind[v.args[0].id])
        return ("other", ast.unparse(st))

    def func(self, name):
        b = self.bind.get(name)
        if b is None or b[0] != "def":
            raise Untranslatable(f"{name}: not a module-level function")
        return b[1]


# ------------------------------------------------------------------ per-element functions
def pe(node, x, env, mod):
    if isinstance(node, ast.Name):
        if node.id == x:
            return ".x"
        if node.id in env:
            return env[node.id]
        raise Untranslatable(f"name {node.id}")
    if isinstance(node, ast.Constant) and type(node.value) is int:
        return f"(.int {lint(node.value)})"
    if isinstance(node, ast.UnaryOp) and isinstance(node.op, ast.USub) and isinstance(node.operand, ast.Constant) and type(node.operand.value) is int:
        return f"(.int {lint(-node.operand.value)})"
    if isinstance(node, ast.Attribute):
        return f"(.attr {pe(node.value, x, env, mod)} {lstr(node.attr)})"
    if isinstance(node, ast.Call) and not node.keywords:
        f = node.func
        if isinstance(f, ast.Attribute) and not node.args:
            return f"(.meth0 {pe(f.value, x, env, mod)} {lstr(f.attr)})"
        if (isinstance(f, ast.Call) and isinstance(f.func, ast.Name) and f.func.id == "type" and len(f.args) == 1 and not f.keywords
                and len(node.args) == 3):
            return "(.typeCtor3 " + " ".join([pe(f.args[0], x, env, mod)] + [pe(a, x, env, mod) for a in node.args]) + ")"
        if isinstance(f, ast.Name) and f.id in PUBLIC and len(node.args) == 1 and mod.bind.get(f.id, ("",))[0] == "def":
            return f"(.pub {lstr(f.id)} {pe(node.args[0], x, env, mod)})"
    if isinstance(node, ast.BinOp) and isinstance(node.op, (ast.Add, ast.Sub)):
        return f"(.{'add' if isinstance(node.op, ast.Add) else 'sub'} {pe(node.left, x, env, mod)} {pe(node.right, x, env, mod)})"
    raise Untranslatable(f"per-element expression {ast.unparse(node)[:80]}")


def body_block(stmts, x, env, mod):
    env = dict(env)
    stmts = strip_doc(stmts)
    for k, st in enumerate(stmts):
        last = k == len(stmts) - 1
        if isinstance(st, ast.Assign) and len(st.targets) == 1 and isinstance(st.targets[0], ast.Name) and st.targets[0].id != x and not last:
            env[st.targets[0].id] = pe(st.value, x, env, mod)
        elif isinstance(st, ast.Return) and st.value is not None and last:
            return f"(.ret {pe(st.value, x, env, mod)})"
        elif isinstance(st, ast.If) and last:
            t = st.test
            ok = (isinstance(t, ast.Call) and isinstance(t.func, ast.Name) and t.func.id == "hasattr" and len(t.args) == 2 and not t.keywords
                  and isinstance(t.args[0], ast.Name) and t.args[0].id == x and isinstance(t.args[1], ast.Constant) and isinstance(t.args[1].value, str))
            if not ok or not st.orelse:
                raise Untranslatable(f"branch {ast.unparse(t)[:80]}")
            return f"(.ifHasattr {lstr(t.args[1].value)} {body_block(st.body, x, env, mod)} {body_block(st.orelse, x, env, mod)})"
        else:
            raise Untranslatable(f"statement {ast.unparse(st)[:80]}")
    raise Untranslatable("per-element function does not end in a return")


def elem_fn(binding, mod):
    vec = "_"
    if binding[0] == "wrap":
        vec, binding = binding[1], binding[2]
    if binding[0] != "def":
        raise Untranslatable(f"per-element function bound to {binding[1][:80]}")
    fn = binding[1]
    (x,) = params(fn) if len(params(fn)) == 1 else (None,)
    if x is None or fn.args.defaults or fn.decorator_list:
        raise Untranslatable(f"{fn.name}: expected one plain parameter")
    body = strip_doc(fn.body)
    if len(body) != 1 or not isinstance(body[0], ast.Try) or body[0].orelse or body[0].finalbody or len(body[0].handlers) != 1:
        raise Untranslatable(f"{fn.name}: expected a single try/except")
    h = body[0].handlers[0]
    if not isinstance(h.type, ast.Name) or len(h.body) != 1 or not isinstance(h.body[0], ast.Raise) or h.body[0].cause is not None:
        raise Untranslatable(f"{fn.name}: unexpected handler")
    exc = h.body[0].exc
    if not (isinstance(exc, ast.Call) and isinstance(exc.func, ast.Name)):
        raise Untranslatable(f"{fn.name}: unexpected raise")
    return (f"{{ body := {body_block(body[0].body, x, {}, mod)},\n            catches := {lstr(h.type.id)}, raises := {lstr(exc.func.id)}, "
            f"vectorizer := {lstr(vec)} }}")


def conv_chain(node, p):
    """`P.astype(a).astype(b)…` -> list of conversions (source order)"""
    chain = []
    while True:
        if isinstance(node, ast.Name) and node.id == p:
            return list(reversed(chain))
        if (isinstance(node, ast.Call) and isinstance(node.func, ast.Attribute) and node.func.attr == "astype" and len(node.args) == 1 and not node.keywords):
            a = node.args[0]
            if isinstance(a, ast.Constant) and isinstance(a.value, str):
                chain.append(f".astype {lstr(a.value)}")
            elif isinstance(a, ast.Name) and a.id == "object":
                chain.append(".astypeObject")
            else:
                raise Untranslatable(f"conversion {ast.unparse(node)[:80]}")
            node = node.func.value
        else:
            raise Untranslatable(f"conversion {ast.unparse(node)[:80]}")


def pub_fn(name, mod):
    fn = mod.func(name)
    ps = params(fn)
    if len(ps) != 1 or fn.args.defaults or fn.decorator_list:
        raise Untranslatable(f"{name}: expected one plain parameter")
    p = ps[0]
    body = strip_doc(fn.body)
    if len(body) != 3:
        raise Untranslatable(f"{name}: expected coercion, datetime64 branch, return — found {len(body)} statements")
    s0, s1, s2 = body
    ok0 = (isinstance(s0, ast.Assign) and len(s0.targets) == 1 and isinstance(s0.targets[0], ast.Name) and s0.targets[0].id == p
           and isinstance(s0.value, ast.Call) and len(s0.value.args) == 1 and not s0.value.keywords
           and isinstance(s0.value.args[0], ast.Name) and s0.value.args[0].id == p)
    if not ok0:
        raise Untranslatable(f"{name}: first statement {ast.unparse(s0)[:80]}")
    coerce = ast.unparse(s0.value.func)
    ok1 = (isinstance(s1, ast.If) and not s1.orelse and len(s1.body) == 1 and isinstance(s1.body[0], ast.Assign)
           and len(s1.body[0].targets) == 1 and isinstance(s1.body[0].targets[0], ast.Name) and s1.body[0].targets[0].id == p)
    if not ok1:
        raise Untranslatable(f"{name}: second statement {ast.unparse(s1)[:80]}")
    test = text_with(s1.test, {p: "_"})
    conv = conv_chain(s1.body[0].value, p)
    ok2 = (isinstance(s2, ast.Return) and isinstance(s2.value, ast.Call) and isinstance(s2.value.func, ast.Name) and len(s2.value.args) == 1
           and not s2.value.keywords and isinstance(s2.value.args[0], ast.Name) and s2.value.args[0].id == p and s2.value.func.id in mod.bind)
    if not ok2:
        raise Untranslatable(f"{name}: third statement {ast.unparse(s2)[:80]}")
    ef = elem_fn(mod.bind[s2.value.func.id], mod)
    return (f"def {lean_name(name)} : PubFn where\n  coerce := {lstr(coerce)}\n  test := {lstr(test)}\n  conv := [{', '.join(conv)}]\n"
            f"  elem := {ef}\n")


def lean_name(n):
    parts = n.split("_")
    return parts[0] + "".join(w.capitalize() for w in parts[1:])


# ------------------------------------------------------------------ season
def season_fn(mod):
    fn = mod.func("season")
    ps = params(fn)
    if len(ps) != 1 or fn.args.defaults or fn.decorator_list:
        raise Untranslatable("season: expected one plain parameter")
    p = ps[0]
    body = strip_doc(fn.body)
    if len(body) != 4:
        raise Untranslatable(f"season: expected 4 statements, found {len(body)}")
    s0, s1, s2, s3 = body
    ok0 = (isinstance(s0, ast.Assign) and len(s0.targets) == 1 and isinstance(s0.targets[0], ast.Name) and s0.targets[0].id == p
           and isinstance(s0.value, ast.Call) and isinstance(s0.value.func, ast.Name) and len(s0.value.args) == 1 and not s0.value.keywords
           and isinstance(s0.value.args[0], ast.Name) and s0.value.args[0].id == p)
    if not ok0 or mod.bind.get(s0.value.func.id, ("",))[0] != "def":
        raise Untranslatable(f"season: first statement {ast.unparse(s0)[:80]}")
    source = s0.value.func.id
    if not isinstance(s1, ast.FunctionDef) or len(params(s1)) != 1 or s1.args.defaults or s1.decorator_list:
        raise Untranslatable("season: expected the nested month -> season function")
    g, m = s1.name, params(s1)[0]
    ok2 = (isinstance(s2, ast.Assign) and len(s2.targets) == 1 and isinstance(s2.targets[0], ast.Name)
           and isinstance(s2.value, ast.Call) and len(s2.value.args) == 1 and isinstance(s2.value.args[0], ast.Name) and s2.value.args[0].id == g)
    if not ok2:
        raise Untranslatable(f"season: third statement {ast.unparse(s2)[:80]}")
    vec = text_with(s2.value, {g: "_"})
    g2 = s2.targets[0].id
    ok3 = (isinstance(s3, ast.Return) and isinstance(s3.value, ast.Call) and isinstance(s3.value.func, ast.Name) and s3.value.func.id == g2
           and len(s3.value.args) == 1 and not s3.value.keywords and isinstance(s3.value.args[0], ast.Name) and s3.value.args[0].id == p)
    if not ok3:
        raise Untranslatable(f"season: fourth statement {ast.unparse(s3)[:80]}")
    rows, dflt = [], None
    blk = strip_doc(s1.body)
    while True:
        if len(blk) != 1:
            raise Untranslatable("season: the month -> season function is not a plain if-chain")
        st = blk[0]
        if isinstance(st, ast.Return):
            if isinstance(st.value, ast.Constant) and st.value.value is None or st.value is None:
                dflt = "none"
            elif isinstance(st.value, ast.Constant) and isinstance(st.value.value, str):
                dflt = f"(some {lstr(st.value.value)})"
            else:
                raise Untranslatable(f"season: fall-through {ast.unparse(st)[:80]}")
            break
        t = st.test if isinstance(st, ast.If) else None
        ok = (t is not None and isinstance(t, ast.Compare) and len(t.ops) == 1 and isinstance(t.ops[0], ast.In) and isinstance(t.left, ast.Name)
              and t.left.id == m and isinstance(t.comparators[0], (ast.List, ast.Tuple))
              and all(isinstance(e, ast.Constant) and type(e.value) is int for e in t.comparators[0].elts)
              and len(st.body) == 1 and isinstance(st.body[0], ast.Return) and isinstance(st.body[0].value, ast.Constant)
              and isinstance(st.body[0].value.value, str) and st.orelse)
        if not ok:
            raise Untranslatable(f"season: row {ast.unparse(st)[:80]}")
        rows.append(f"([{', '.join(lint(e.value) for e in t.comparators[0].elts)}], {lstr(st.body[0].value.value)})")
        blk = strip_doc(st.orelse)
    return (f"def season : SeasonFn where\n  source := {lstr(source)}\n  rows := [{', '.join(rows)}]\n  dflt := {dflt}\n"
            f"  vectorizer := {lstr(vec)}\n")


# ------------------------------------------------------------------ create_array_of_consecutive_dates
def consec(mod):
    fn = mod.func("create_array_of_consecutive_dates")
    ps = params(fn)
    if len(ps) != 2 or len(fn.args.defaults) != 1 or fn.decorator_list:
        raise Untranslatable("create_array_of_consecutive_dates: expected (length, start=<default>)")
    n, s = ps
    d = fn.args.defaults[0]
    ok = (isinstance(d, ast.Call) and ast.unparse(d.func) == "np.datetime64" and len(d.args) == 1 and not d.keywords
          and isinstance(d.args[0], ast.Constant) and isinstance(d.args[0].value, str))
    mt = re.fullmatch(r"(\d{4})-(\d{2})-(\d{2})", d.args[0].value) if ok else None
    if not mt:
        raise Untranslatable(f"create_array_of_consecutive_dates: default start {ast.unparse(d)[:80]}")
    start = tuple(int(v) for v in mt.groups())
    body = strip_doc(fn.body)
    if len(body) != 2:
        raise Untranslatable(f"create_array_of_consecutive_dates: expected 2 statements, found {len(body)}")
    s0, s1 = body
    ok0 = (isinstance(s0, ast.If) and not s0.orelse and text_with(s0.test, {s: "_"}) == "not isinstance(_, np.datetime64)" and len(s0.body) == 1
           and isinstance(s0.body[0], ast.Assign) and len(s0.body[0].targets) == 1 and isinstance(s0.body[0].targets[0], ast.Name)
           and s0.body[0].targets[0].id == s and isinstance(s0.body[0].value, ast.Call) and len(s0.body[0].value.args) == 1
           and not s0.body[0].value.keywords and isinstance(s0.body[0].value.args[0], ast.Name) and s0.body[0].value.args[0].id == s)
    if not ok0:
        raise Untranslatable(f"create_array_of_consecutive_dates: first statement {ast.unparse(s0)[:80]}")
    coerce = ast.unparse(s0.body[0].value.func)
    if not isinstance(s1, ast.Return):
        raise Untranslatable("create_array_of_consecutive_dates: expected a return")
    node, chain = s1.value, []
    while (isinstance(node, ast.Call) and isinstance(node.func, ast.Attribute) and node.func.attr == "astype" and len(node.args) == 1 and not node.keywords):
        a = node.args[0]
        if isinstance(a, ast.Constant) and isinstance(a.value, str):
            chain.append(f".astype {lstr(a.value)}")
        elif isinstance(a, ast.Name) and a.id == "object":
            chain.append(".astypeObject")
        else:
            raise Untranslatable(f"conversion {ast.unparse(node)[:80]}")
        node = node.func.value
    chain.reverse()
    if not (isinstance(node, ast.Call) and ast.unparse(node.func) == "np.arange" and not node.keywords and len(node.args) in (2, 3)):
        raise Untranslatable(f"create_array_of_consecutive_dates: {ast.unparse(node)[:80]}")
    a0, a1 = node.args[0], node.args[1]
    ok1 = (isinstance(a0, ast.Name) and a0.id == s and isinstance(a1, ast.BinOp) and isinstance(a1.op, ast.Add) and isinstance(a1.left, ast.Name)
           and a1.left.id == s and isinstance(a1.right, ast.Call) and ast.unparse(a1.right.func) == "np.timedelta64" and len(a1.right.args) == 2
           and not a1.right.keywords and isinstance(a1.right.args[0], ast.Name) and a1.right.args[0].id == n
           and isinstance(a1.right.args[1], ast.Constant) and isinstance(a1.right.args[1].value, str))
    if not ok1:
        raise Untranslatable(f"create_array_of_consecutive_dates: range {ast.unparse(node)[:100]}")
    unit = a1.right.args[1].value
    step = "none"
    if len(node.args) == 3:
        a2 = node.args[2]
        if isinstance(a2, ast.Constant) and type(a2.value) is int:
            step = f"(some {lint(a2.value)})"
        else:
            raise Untranslatable(f"create_array_of_consecutive_dates: step {ast.unparse(a2)[:80]}")
    return (f"def consec : ConsecSpec where\n  start := ({lint(start[0])}, {start[1]}, {start[2]})\n  coerce := {lstr(coerce)}\n"
            f"  stopUnit := {lstr(unit)}\n  step := {step}\n  conv := [{', '.join(chain)}]\n")


# ------------------------------------------------------------------ yearly means / unique mask
YFUNCS = ("get_yearly_means", "get_years_and_yearly_means", "get_mask_for_unique_subarray")


def ye(node, env, mod, depth=0):
    if isinstance(node, ast.Name):
        if node.id in env:
            return env[node.id]
        raise Untranslatable(f"name {node.id}")
    if isinstance(node, ast.Tuple):
        if len(node.elts) != 2:
            raise Untranslatable(f"tuple {ast.unparse(node)[:80]}")
        return f"(.pair {ye(node.elts[0], env, mod, depth)} {ye(node.elts[1], env, mod, depth)})"
    if isinstance(node, ast.Compare) and len(node.ops) == 1 and isinstance(node.ops[0], ast.Eq):
        return f"(.eq {ye(node.left, env, mod, depth)} {ye(node.comparators[0], env, mod, depth)})"
    if isinstance(node, ast.Subscript) and not isinstance(node.slice, (ast.Slice, ast.Tuple, ast.Constant)):
        return f"(.sel {ye(node.value, env, mod, depth)} {ye(node.slice, env, mod, depth)})"
    if isinstance(node, ast.Call):
        f = ast.unparse(node.func)
        kws = {k.arg: k.value for k in node.keywords}
        if f == "np.unique" and len(node.args) == 1 and not kws:
            return f"(.unique {ye(node.args[0], env, mod, depth)})"
        if f == "np.mean" and len(node.args) == 1 and not kws:
            return f"(.mean {ye(node.args[0], env, mod, depth)})"
        if (f == "np.array" and len(node.args) == 1 and not kws and isinstance(node.args[0], ast.ListComp) and len(node.args[0].generators) == 1):
            gen = node.args[0].generators[0]
            if gen.ifs or gen.is_async or not isinstance(gen.target, ast.Name) or ".v" in env.values():
                raise Untranslatable(f"comprehension {ast.unparse(node)[:80]}")
            it = ye(gen.iter, env, mod, depth)
            inner = dict(env)
            inner[gen.target.id] = ".v"
            return f"(.comp {ye(node.args[0].elt, inner, mod, depth)} {it})"
        if f in YFUNCS and not kws and depth < 3:
            callee = mod.func(f)
            ps = params(callee)
            if len(ps) != len(node.args) or callee.args.defaults:
                raise Untranslatable(f"call {ast.unparse(node)[:80]}")
            return yfunc_term(callee, [ye(a, env, mod, depth) for a in node.args], mod, depth + 1)
        if (isinstance(node.func, ast.Attribute) and node.func.attr == "astype" and len(node.args) == 1 and not kws
                and isinstance(node.args[0], ast.Name) and node.args[0].id == "bool" and isinstance(node.func.value, ast.Call)
                and ast.unparse(node.func.value.func) == "np.zeros_like" and len(node.func.value.args) == 1 and not node.func.value.keywords):
            return f"(.zerosLikeBool {ye(node.func.value.args[0], env, mod, depth)})"
    raise Untranslatable(f"array expression {ast.unparse(node)[:80]}")


def yfunc_term(fn, args, mod, depth=0):
    """symbolic execution of a straight-line function body: name -> term"""
    if fn.decorator_list:
        raise Untranslatable(f"{fn.name}: decorated")
    env = dict(zip(params(fn), args))
    for st in strip_doc(fn.body):
        if isinstance(st, ast.Return) and st.value is not None:
            return ye(st.value, env, mod, depth)
        if isinstance(st, ast.Assign) and len(st.targets) == 1:
            t = st.targets[0]
            if isinstance(t, ast.Name):
                env[t.id] = ye(st.value, env, mod, depth)
                continue
            # `_, indices = np.unique(x, return_index=True)`
            if (isinstance(t, ast.Tuple) and len(t.elts) == 2 and all(isinstance(e, ast.Name) for e in t.elts) and isinstance(st.value, ast.Call)
                    and ast.unparse(st.value.func) == "np.unique" and len(st.value.args) == 1 and len(st.value.keywords) == 1
                    and st.value.keywords[0].arg == "return_index" and isinstance(st.value.keywords[0].value, ast.Constant)
                    and st.value.keywords[0].value.value is True):
                a = ye(st.value.args[0], env, mod, depth)
                env[t.elts[0].id] = f"(.unique {a})"
                env[t.elts[1].id] = f"(.uniqueIndex {a})"
                continue
            # `mask[indices] = True`
            if (isinstance(t, ast.Subscript) and isinstance(t.value, ast.Name) and t.value.id in env and isinstance(t.slice, ast.Name)
                    and isinstance(st.value, ast.Constant) and st.value.value is True):
                env[t.value.id] = f"(.setTrueAt {env[t.value.id]} {ye(t.slice, env, mod, depth)})"
                continue
        raise Untranslatable(f"{fn.name}: statement {ast.unparse(st)[:80]}")
    raise Untranslatable(f"{fn.name}: no return")


def yfunc(name, lean, mod):
    fn = mod.func(name)
    ps = params(fn)
    if fn.args.defaults or not 1 <= len(ps) <= 2:
        raise Untranslatable(f"{name}: parameters {ps}")
    return f"def {lean} : YE :=\n  {yfunc_term(fn, ['.p0', '.p1'][:len(ps)], mod)}\n"


# ------------------------------------------------------------------ group entry point
def generate(repo):
    errors = []
    out = ["", "import IbicusModel.Model.CalendarFns", "", "namespace Gen.CalendarFns", "open Model.CalendarFns", ""]
    try:
        mod = Module(repo)
    except (OSError, SyntaxError) as ex:
        return "\n".join(out + ["end Gen.CalendarFns"]) + "\n", [f"untranslatable:calendarfns: {type(ex).__name__} {ex}"]
    jobs = [(n, (lambda n=n: pub_fn(n, mod))) for n in PUBLIC]
    jobs.append(("season", lambda: season_fn(mod)))
    jobs.append(("create_array_of_consecutive_dates", lambda: consec(mod)))
    jobs.append(("get_yearly_means", lambda: yfunc("get_yearly_means", "yearlyMeans", mod)))
    jobs.append(("get_years_and_yearly_means", lambda: yfunc("get_years_and_yearly_means", "yearsAndYearlyMeans", mod)))
    jobs.append(("get_mask_for_unique_subarray", lambda: yfunc("get_mask_for_unique_subarray", "uniqueMask", mod)))
    for name, job in jobs:
        try:
            text = job()
            out.append(f"/-- `{name}` ({SRC}) -/")
            out.append(text)
        except Untranslatable as ex:
            msg = " ".join(str(ex).split())  # one line: the text goes into `--` comments of the generated file
            errors.append(f"untranslatable:{name}: {msg}")
            out.append(f"-- `{name}`: not of the recognised shape ({msg[:120]})\n")
    out.append("end Gen.CalendarFns")
    return "\n".join(out) + "\n", errors


if __name__ == "__main__":
    import sys

    text, errs = generate(sys.argv[1] if len(sys.argv) > 1 else "/repo")
    print(text)
    print(errs)
