"""
Tier-A extractor: the DISPATCH of `CDFt.apply_on_window` / `QuantileDeltaMapping.apply_on_window` — everything of the two
methods outside their year-window loop (the loop is `Gen.Loops.loopCDFt` / `loopQDM`, translator/extract_loops.py), as one
`DispatchSpec` (DSL of lean/IbicusModel/Model/WinDispatch.lean) per class, regenerated from /repo's current AST.

Read symbolically, in roles (names of locals play no role):
  * the calls in front of the switch (`fit_obs, fit_cm_hist = self._get_obs_and_cm_hist_fits(obs, cm_hist)`);
  * the switch `if self.<flag>: … else: …` (must be the last statement and have both branches);
  * the `if` branch, statement by statement and in order:
      `if <time of s> is None: <same name> = f(<size>)`        -> .inferIfNone s "f" <size>
      `if <size> <op> <size>: raise Exc(...)`                   -> .raiseIf <size> <op> <size> "Exc"      (fix 322a5a2 / F14)
      `<name> = year(<time of s>)`                              -> .yearsOf s
      `<buf> = np.empty_like(..)`, `for … in self.<obj>.use(<years of s>): …`, `return <buf>`   -> .yearLoop s
    (`<size>` = `np.size(<time of s>)` | `<values of s>.size` | `np.size(<values of s>)`);
  * the `else` branch: exactly `return self.<callee>(…)`; positional arguments are resolved to the parameter names of the
    callee's current signature, every argument must be a whole array / a whole result of a call in front of the switch.
NOT part of the identity: names of locals, docstrings, comments, `warnings.warn(...)`, logging, the verification hook, the
messages of exceptions, the body of the loop (tied by `Gen.Loops`).
Anything else raises `Shape` (a broken tie); the extractor never guesses.
"""
import ast
import os

from extract_loops import PARAM_ROLES, Shape, find_class, find_method, is_ignored_stmt, lstr, role_text

SPECS = [
    # (lean name, file, class, method)
    ("cdft", "ibicus/debias/_cdft.py", "CDFt", "apply_on_window"),
    ("qdm", "ibicus/debias/_quantile_delta_mapping.py", "QuantileDeltaMapping", "apply_on_window"),
]
CMP = {ast.NotEq: ".ne", ast.Eq: ".eq", ast.Lt: ".lt", ast.LtE: ".le", ast.Gt: ".gt", ast.GtE: ".ge"}


class Dispatch:
    def __init__(self, repo, name, rel, cls_name, meth):
        self.name, self.rel, self.cls_name, self.meth = name, rel, cls_name, meth
        self.tree = ast.parse(open(os.path.join(repo, rel)).read())
        self.cls = find_class(self.tree, cls_name)
        self.fn = find_method(self.cls, meth)
        self.env = {}
        self.pre = []
        self.flag = None
        self.body = []
        self.else_callee = None
        self.else_args = []

    def fail(self, msg):
        raise Shape(f"{self.cls_name}.{self.meth}[dispatch]: {msg}")

    # ---- expressions
    def role(self, node):
        if isinstance(node, ast.Name):
            if node.id not in self.env:
                self.fail(f"name `{node.id}` has no role")
            return self.env[node.id]
        self.fail(f"unexpected expression {ast.unparse(node)[:80]}")

    def size(self, node):
        """-> SizeExpr term"""
        if isinstance(node, ast.Attribute) and node.attr == "size":
            r = self.role(node.value)
            if r[0] == "data":
                return f"(.sizeData .{r[1]})"
            self.fail(f"`.size` of {r}")
        if isinstance(node, ast.Call) and ast.unparse(node.func) == "np.size" and len(node.args) == 1 and not node.keywords:
            r = self.role(node.args[0])
            if r[0] == "time":
                return f"(.npSizeTime .{r[1]})"
            if r[0] == "data":
                return f"(.sizeData .{r[1]})"
            self.fail(f"np.size of {r}")
        self.fail(f"unexpected size expression {ast.unparse(node)[:80]}")

    # ---- statements in front of the switch
    def pre_stmt(self, st):
        if not (isinstance(st, ast.Assign) and len(st.targets) == 1 and isinstance(st.value, ast.Call)):
            self.fail(f"unexpected statement in front of the switch: `{ast.unparse(st)[:80]}`")
        c = st.value
        f = ast.unparse(c.func)
        if not (f.startswith("self.") and f.count(".") == 1) or c.keywords or any(isinstance(a, ast.Starred) for a in c.args):
            self.fail(f"unexpected call in front of the switch: `{ast.unparse(c)[:80]}`")
        args = [self.role(a) for a in c.args]
        if not all(a[0] in ("data", "time") for a in args):
            self.fail(f"unexpected arguments in `{ast.unparse(c)[:80]}`")
        text = f + "(" + ", ".join(role_text(a) for a in args) + ")"
        self.pre.append(text)
        t = st.targets[0]
        if isinstance(t, ast.Name):
            self.env[t.id] = ("opaque", text)
        elif isinstance(t, (ast.Tuple, ast.List)) and all(isinstance(x, ast.Name) for x in t.elts):
            for k, x in enumerate(t.elts):
                self.env[x.id] = ("opaque", f"{text}.{k}")
        else:
            self.fail(f"unexpected assignment target {ast.unparse(t)}")

    # ---- the `if` branch
    def then_branch(self, stmts):
        stmts = [s for s in stmts if not is_ignored_stmt(s)]
        k = 0
        buf = None
        done = False
        while k < len(stmts):
            st = stmts[k]
            k += 1
            if done:
                self.fail(f"statement after the return of the buffer: `{ast.unparse(st)[:70]}`")
            if isinstance(st, ast.If):
                if st.orelse:
                    self.fail(f"unexpected if/else in the year-window branch: `{ast.unparse(st.test)[:70]}`")
                inner = [s for s in st.body if not is_ignored_stmt(s)]
                t = st.test
                if isinstance(t, ast.Compare) and len(t.ops) == 1 and isinstance(t.ops[0], ast.Is) \
                        and isinstance(t.comparators[0], ast.Constant) and t.comparators[0].value is None:
                    r = self.role(t.left)
                    if r[0] != "time":
                        self.fail(f"`is None` test of {r}")
                    if not (len(inner) == 1 and isinstance(inner[0], ast.Assign) and len(inner[0].targets) == 1
                            and isinstance(inner[0].targets[0], ast.Name) and isinstance(t.left, ast.Name)
                            and inner[0].targets[0].id == t.left.id and isinstance(inner[0].value, ast.Call)):
                        self.fail(f"the block under `{ast.unparse(t)}` is not one assignment to the tested name")
                    c = inner[0].value
                    if c.keywords or len(c.args) != 1:
                        self.fail(f"unexpected inference call {ast.unparse(c)[:80]}")
                    self.body.append(f".inferIfNone .{r[1]} {lstr(ast.unparse(c.func))} {self.size(c.args[0])}")
                elif isinstance(t, ast.Compare) and len(t.ops) == 1 and type(t.ops[0]) in CMP:
                    if not (len(inner) == 1 and isinstance(inner[0], ast.Raise) and inner[0].exc is not None):
                        self.fail(f"the block under `{ast.unparse(t)[:60]}` is not one raise")
                    exc = inner[0].exc
                    exc_name = ast.unparse(exc.func) if isinstance(exc, ast.Call) else ast.unparse(exc)
                    self.body.append(f".raiseIf {self.size(t.left)} {CMP[type(t.ops[0])]} {self.size(t.comparators[0])} {lstr(exc_name)}")
                else:
                    self.fail(f"unexpected test `{ast.unparse(t)[:70]}`")
            elif isinstance(st, ast.Assign) and len(st.targets) == 1 and isinstance(st.targets[0], ast.Name) and isinstance(st.value, ast.Call):
                c = st.value
                f = ast.unparse(c.func)
                if f == "year" and len(c.args) == 1 and not c.keywords:
                    r = self.role(c.args[0])
                    if r[0] != "time":
                        self.fail(f"year of {r}")
                    self.env[st.targets[0].id] = ("year", r[1])
                    self.body.append(f".yearsOf .{r[1]}")
                elif f in ("np.empty_like", "np.zeros_like") and buf is None:
                    buf = st.targets[0].id
                    # the loop must follow, then the return of the buffer
                    if k >= len(stmts) or not isinstance(stmts[k], ast.For):
                        self.fail("the allocation of the buffer is not followed by the loop")
                    loop = stmts[k]
                    k += 1
                    it = loop.iter
                    if not (isinstance(it, ast.Call) and isinstance(it.func, ast.Attribute) and it.func.attr == "use"
                            and isinstance(it.func.value, ast.Attribute) and isinstance(it.func.value.value, ast.Name)
                            and it.func.value.value.id == "self" and len(it.args) == 1 and not it.keywords) or loop.orelse:
                        self.fail(f"unexpected loop iterator {ast.unparse(it)[:80]}")
                    r = self.role(it.args[0])
                    if r[0] != "year":
                        self.fail(f"the loop runs over {r}, not over years")
                    if k >= len(stmts) or not (isinstance(stmts[k], ast.Return) and isinstance(stmts[k].value, ast.Name)
                                               and stmts[k].value.id == buf):
                        self.fail("the loop is not followed by the return of the buffer")
                    k += 1
                    self.body.append(f".yearLoop .{r[1]}")
                    done = True
                else:
                    self.fail(f"unexpected assignment `{ast.unparse(st)[:80]}`")
            else:
                self.fail(f"unexpected statement in the year-window branch: `{ast.unparse(st)[:80]}`")
        if not done:
            self.fail("the year-window branch does not end in the loop and the return of the buffer")

    # ---- the `else` branch
    def else_branch(self, stmts):
        stmts = [s for s in stmts if not is_ignored_stmt(s)]
        if len(stmts) != 1 or not isinstance(stmts[0], ast.Return) or not isinstance(stmts[0].value, ast.Call):
            self.fail("the else branch is not a single `return <call>`")
        c = stmts[0].value
        f = ast.unparse(c.func)
        if not (f.startswith("self.") and f.count(".") == 1) or any(isinstance(a, ast.Starred) for a in c.args) \
                or any(kw.arg is None for kw in c.keywords):
            self.fail(f"unexpected else call {ast.unparse(c)[:80]}")
        callee = find_method(self.cls, f.split(".")[1])
        a = callee.args
        if a.vararg or a.kwarg or a.posonlyargs or a.kwonlyargs or not a.args or a.args[0].arg != "self":
            self.fail(f"unexpected signature of {f}")
        params = [p.arg for p in a.args[1:]]
        if len(c.args) > len(params):
            self.fail(f"too many positional arguments in {ast.unparse(c)[:80]}")
        pairs = list(zip(params, c.args)) + [(kw.arg, kw.value) for kw in c.keywords]
        names = [p for p, _ in pairs]
        if len(set(names)) != len(names) or any(p not in params for p in names):
            self.fail(f"arguments of {ast.unparse(c)[:80]} do not fit the signature ({', '.join(params)})")
        self.else_callee = f
        for p, v in pairs:
            r = self.role(v)
            if r[0] == "data":
                src = f".data .{r[1]}"
            elif r[0] == "time":
                src = f".time .{r[1]}"
            elif r[0] == "opaque":
                src = f".opaque {lstr(r[1])}"
            else:
                self.fail(f"argument {p} has the unexpected role {r}")
            self.else_args.append(f"⟨{lstr(p)}, {src}, .whole⟩")

    def run(self):
        a = self.fn.args
        names = [p.arg for p in a.args]
        if a.vararg or a.kwarg or a.kwonlyargs or a.posonlyargs or names != ["self"] + list(PARAM_ROLES):
            self.fail(f"unexpected signature ({ast.unparse(a)})")
        self.env = dict(PARAM_ROLES)
        stmts = [s for s in self.fn.body if not is_ignored_stmt(s)]
        if not stmts:
            self.fail("empty body")
        for st in stmts[:-1]:
            self.pre_stmt(st)
        sw = stmts[-1]
        if not (isinstance(sw, ast.If) and isinstance(sw.test, ast.Attribute) and isinstance(sw.test.value, ast.Name)
                and sw.test.value.id == "self" and sw.orelse):
            self.fail("the last statement is not the switch `if self.<flag>: … else: …`")
        self.flag = ast.unparse(sw.test)
        self.then_branch(sw.body)
        self.else_branch(sw.orelse)
        return self

    def lean(self):
        return "\n".join([
            f"/-- `{self.cls_name}.{self.meth}` ({self.rel}): the dispatch around the year-window loop -/",
            f"def {self.name} : DispatchSpec where",
            "  pre := [" + ", ".join(lstr(x) for x in self.pre) + "]",
            f"  flag := {lstr(self.flag)}",
            "  body := [" + ",\n           ".join(self.body) + "]",
            f"  elseCallee := {lstr(self.else_callee)}",
            "  elseArgs := [" + ",\n               ".join(self.else_args) + "]"])


def generate(repo):
    errors = []
    out = ["", "import IbicusModel.Model.WinDispatch", "", "namespace Gen.WinDispatch", "open Model.Loops Model.WinDispatch", ""]
    for (name, rel, cls_name, meth) in SPECS:
        try:
            out += [Dispatch(repo, name, rel, cls_name, meth).run().lean(), ""]
        except (Shape, OSError, SyntaxError, KeyError) as ex:
            errors.append(f"untranslatable:windispatch.{name}: {type(ex).__name__} {ex}")
    out.append("end Gen.WinDispatch")
    return "\n".join(out) + "\n", errors


if __name__ == "__main__":
    import sys

    text, errs = generate(sys.argv[1] if len(sys.argv) > 1 else "/repo")
    print(text)
    print(errs)
