"""
Tier-A extractor for C20, grid level, part 2: `_yearly_exceedances` / `_mean_yearly_exceedances` (`ibicus/evaluate/marginal.py`)
as grid programs in the DSL of `lean/IbicusModel/Model/EvalGrid2.lean` (`YV / YM / YE / YP`).

The body is executed symbolically: a local stands for what it was assigned (plain assignment, tuple unpacking of
`np.unique(·, return_counts=True)`, the `list()` / `append` loop over the sections).  WHICH array is split, at WHICH indices
(`np.cumsum(counts)[:-1]` of the counts of `year(<which time>)`), along which axis, what is summed along which axis, how the
sums are stacked and (mean variant) averaged is the identity; the names of locals / the loop variable and comments are not.
`_mean_yearly_exceedances`' call of `_yearly_exceedances` is bound to the callee's CURRENT signature and inlined.
Anything outside the recognised shapes raises `Bad` (`untranslatable:…`, a broken tie); the extractor never guesses.
"""
import ast
import os

M = "ibicus/evaluate/marginal.py"
FUNCS = ["_yearly_exceedances", "_mean_yearly_exceedances"]
GLOBAL_NAMES = {"np", "year", "list", "range", "len"}


class Bad(Exception):
    pass


def lstr(s):
    return '"' + s.replace("\\", "\\\\").replace('"', '\\"').replace("\n", " ") + '"'


def is_doc(s):
    return isinstance(s, ast.Expr) and isinstance(s.value, ast.Constant) and isinstance(s.value.value, str)


def dotted(node):
    if isinstance(node, ast.Name):
        return node.id
    if isinstance(node, ast.Attribute):
        d = dotted(node.value)
        return None if d is None else d + "." + node.attr
    return None


def params_of(fn):
    a = fn.args
    if a.vararg or a.kwonlyargs or a.posonlyargs or a.kwarg or a.defaults or fn.decorator_list:
        raise Bad(f"{fn.name}: unsupported signature")
    names = [p.arg for p in a.args]
    for n in names:
        if n in GLOBAL_NAMES or n in FUNCS:
            raise Bad(f"{fn.name}: parameter named {n!r}")
    return names


def kws(call, allowed, where):
    got = {}
    for k in call.keywords:
        if k.arg not in allowed or k.arg in got:
            raise Bad(f"{where}: unexpected keyword {k.arg!r}")
        got[k.arg] = k.value
    return got


def const_is(node, val):
    return isinstance(node, ast.Constant) and node.value == val and type(node.value) is type(val)


def need_axis0(call, where):
    k = kws(call, ("axis",), where)
    if "axis" not in k or not const_is(k["axis"], 0):
        raise Bad(f"{where}: axis=0 expected")


def arg_name(v, where):
    if v[0] != "arg":
        raise Bad(f"{where}: a parameter was expected, got {v[0]}")
    return v[1]


class Run:
    """values: ("arg", p) | ("years", tm) | ("uniqueCounts", v) | ("cumsum", v) | ("dropLast", v) | ("uniquePair", v)
               | ("inst", metric, ds, tm) | ("split", m, idx) | ("list", [..]) | ("mapsum", split) | ("sumSplit", m, idx)
               | ("meanYears", e)"""

    def __init__(self, funcs, depth=0):
        self.funcs = funcs
        self.depth = depth

    def ev(self, node, env, where0):
        where = f"{where0}:{getattr(node, 'lineno', '?')}"
        if isinstance(node, ast.Name):
            if node.id not in env:
                raise Bad(f"{where}: unknown name {node.id!r}")
            return env[node.id]
        if isinstance(node, ast.Subscript):
            base = self.ev(node.value, env, where0)
            s = node.slice
            if (isinstance(s, ast.Slice) and s.lower is None and s.step is None and isinstance(s.upper, ast.UnaryOp)
                    and isinstance(s.upper.op, ast.USub) and const_is(s.upper.operand, 1)):
                if base[0] not in ("cumsum", "uniqueCounts", "years", "dropLast"):
                    raise Bad(f"{where}: [:-1] of {base[0]}")
                return ("dropLast", base)
            raise Bad(f"{where}: unsupported subscript")
        if isinstance(node, ast.Call):
            d = dotted(node.func)
            if isinstance(node.func, ast.Attribute) and node.func.attr == "calculate_instances_of_threshold_exceedance":
                metric = arg_name(self.ev(node.func.value, env, where0), where)
                k = kws(node, ("time", "dataset"), where)
                pos = list(node.args)
                ds = pos.pop(0) if pos else k.get("dataset")
                if pos or ds is None or "time" not in k or ("dataset" in k and node.args):
                    raise Bad(f"{where}: instances call shape")
                return ("inst", metric, arg_name(self.ev(ds, env, where0), where), arg_name(self.ev(k["time"], env, where0), where))
            if d == "year":
                if len(node.args) != 1 or node.keywords:
                    raise Bad(f"{where}: year(·) shape")
                return ("years", arg_name(self.ev(node.args[0], env, where0), where))
            if d == "np.unique":
                k = kws(node, ("return_counts",), where)
                if len(node.args) != 1 or "return_counts" not in k or not const_is(k["return_counts"], True):
                    raise Bad(f"{where}: np.unique shape")
                v = self.ev(node.args[0], env, where0)
                if v[0] != "years":
                    raise Bad(f"{where}: np.unique of {v[0]}")
                return ("uniquePair", v)
            if d == "np.cumsum":
                if len(node.args) != 1 or node.keywords:
                    raise Bad(f"{where}: np.cumsum shape")
                v = self.ev(node.args[0], env, where0)
                if v[0] not in ("uniqueCounts", "dropLast", "cumsum"):
                    raise Bad(f"{where}: np.cumsum of {v[0]}")
                return ("cumsum", v)
            if d == "np.split":
                need_axis0(node, where)
                if len(node.args) != 2:
                    raise Bad(f"{where}: np.split shape")
                m = self.ev(node.args[0], env, where0)
                idx = self.ev(node.args[1], env, where0)
                if m[0] != "inst" or idx[0] not in ("cumsum", "dropLast", "uniqueCounts"):
                    raise Bad(f"{where}: np.split of {m[0]} at {idx[0]}")
                return ("split", m, idx)
            if d == "np.stack":
                need_axis0(node, where)
                if len(node.args) != 1:
                    raise Bad(f"{where}: np.stack shape")
                v = self.ev(node.args[0], env, where0)
                if v[0] != "mapsum":
                    raise Bad(f"{where}: np.stack of {v[0]}")
                return ("sumSplit", v[1][1], v[1][2])
            if d == "np.mean":
                need_axis0(node, where)
                if len(node.args) != 1:
                    raise Bad(f"{where}: np.mean shape")
                v = self.ev(node.args[0], env, where0)
                if v[0] != "sumSplit":
                    raise Bad(f"{where}: np.mean of {v[0]}")
                return ("meanYears", v)
            if d in ("list",) and not node.args and not node.keywords:
                return ("list", [])
            if d in self.funcs and d in FUNCS:
                if self.depth > 2:
                    raise Bad(f"{where}: recursion")
                callee = self.funcs[d]
                names = params_of(callee)
                bound = {}
                if len(node.args) > len(names):
                    raise Bad(f"{where}: too many arguments for {d}")
                for p, a in zip(names, node.args):
                    if isinstance(a, ast.Starred):
                        raise Bad(f"{where}: starred argument")
                    bound[p] = self.ev(a, env, where0)
                for k in node.keywords:
                    if k.arg is None or k.arg not in names or k.arg in bound:
                        raise Bad(f"{where}: bad keyword {k.arg!r} for {d}")
                    bound[k.arg] = self.ev(k.value, env, where0)
                if set(bound) != set(names):
                    raise Bad(f"{where}: arguments of {d} incomplete")
                for p, v in bound.items():
                    if v[0] != "arg":
                        raise Bad(f"{where}: {d} called with a computed value")
                return Run(self.funcs, self.depth + 1).body(callee, bound)
            raise Bad(f"{where}: unsupported call {d}")
        if isinstance(node, ast.List) and not node.elts:
            return ("list", [])
        raise Bad(f"{where}: unsupported expression {type(node).__name__}")

    def body(self, fn, env0):
        env = dict(env0)
        where0 = fn.name
        stmts = [s for s in fn.body if not is_doc(s)]
        for s in stmts:
            where = f"{where0}:{s.lineno}"
            if isinstance(s, ast.Return):
                if s is not stmts[-1] or s.value is None:
                    raise Bad(f"{where}: return placement")
                v = self.ev(s.value, env, where0)
                if v[0] not in ("sumSplit", "meanYears"):
                    raise Bad(f"{where}: returns {v[0]}")
                return v
            if isinstance(s, ast.Assign) and len(s.targets) == 1:
                t = s.targets[0]
                v = self.ev(s.value, env, where0)
                if isinstance(t, ast.Name):
                    if t.id in GLOBAL_NAMES or t.id in FUNCS:
                        raise Bad(f"{where}: {t.id!r} rebound")
                    if v[0] == "uniquePair":
                        raise Bad(f"{where}: np.unique pair not unpacked")
                    env[t.id] = v
                    continue
                if isinstance(t, ast.Tuple) and len(t.elts) == 2 and all(isinstance(e, ast.Name) for e in t.elts) and v[0] == "uniquePair":
                    for e in t.elts:
                        if e.id in GLOBAL_NAMES or e.id in FUNCS:
                            raise Bad(f"{where}: {e.id!r} rebound")
                    env[t.elts[0].id] = ("uniqueValues", v[1])
                    env[t.elts[1].id] = ("uniqueCounts", v[1])
                    continue
                raise Bad(f"{where}: unsupported assignment target")
            if isinstance(s, ast.For) and not s.orelse and isinstance(s.target, ast.Name) and len(s.body) == 1:
                # for i in range(len(L)): acc.append(np.sum(L[i], axis=0))     |     for sec in L: acc.append(np.sum(sec, axis=0))
                lv = s.target.id
                if lv in env or lv in GLOBAL_NAMES or lv in FUNCS:
                    raise Bad(f"{where}: loop variable shadows {lv!r}")
                it = s.iter
                by_index = None
                if (isinstance(it, ast.Call) and dotted(it.func) == "range" and len(it.args) == 1 and not it.keywords
                        and isinstance(it.args[0], ast.Call) and dotted(it.args[0].func) == "len" and len(it.args[0].args) == 1
                        and not it.args[0].keywords and isinstance(it.args[0].args[0], ast.Name)):
                    by_index = it.args[0].args[0].id
                    coll = self.ev(it.args[0].args[0], env, where0)
                else:
                    coll = self.ev(it, env, where0)
                if coll[0] != "split":
                    raise Bad(f"{where}: loop over {coll[0]}")
                b = s.body[0]
                if not (isinstance(b, ast.Expr) and isinstance(b.value, ast.Call) and isinstance(b.value.func, ast.Attribute)
                        and b.value.func.attr == "append" and isinstance(b.value.func.value, ast.Name) and len(b.value.args) == 1
                        and not b.value.keywords):
                    raise Bad(f"{where}: loop body is not an append")
                acc = b.value.func.value.id
                if env.get(acc) != ("list", []):
                    raise Bad(f"{where}: {acc!r} is not a fresh empty list")
                c = b.value.args[0]
                if not (isinstance(c, ast.Call) and dotted(c.func) == "np.sum" and len(c.args) == 1):
                    raise Bad(f"{where}: appended value is not np.sum(·, axis=0)")
                need_axis0(c, where)
                a = c.args[0]
                if by_index is not None:
                    ok = (isinstance(a, ast.Subscript) and isinstance(a.value, ast.Name) and a.value.id == by_index
                          and isinstance(a.slice, ast.Name) and a.slice.id == lv)
                else:
                    ok = isinstance(a, ast.Name) and a.id == lv
                if not ok:
                    raise Bad(f"{where}: np.sum is not over the current section")
                env[acc] = ("mapsum", coll)
                continue
            raise Bad(f"{where}: unsupported statement {type(s).__name__}")
        raise Bad(f"{where0}: no return")


def r_yv(v):
    if v[0] == "years":
        return f"(.years {lstr(v[1])})"
    if v[0] in ("uniqueCounts", "cumsum", "dropLast"):
        return f"(.{v[0]} {r_yv(v[1])})"
    raise Bad(f"index term {v[0]}")


def r_ye(v):
    if v[0] != "sumSplit":
        raise Bad(f"matrix term {v[0]}")
    m = v[1]
    return f"(.sumSplit (.inst {lstr(m[1])} {lstr(m[2])} {lstr(m[3])}) {r_yv(v[2])})"


def r_yp(v):
    if v[0] == "meanYears":
        return f".meanYears {r_ye(v[1])}"
    return f".ret {r_ye(v)}"


def load(repo):
    tree = ast.parse(open(os.path.join(repo, M)).read())
    have_np, have_year = False, False
    seen = {}
    for n in tree.body:
        if isinstance(n, ast.Import):
            for a in n.names:
                if a.name == "numpy" and a.asname == "np":
                    have_np = True
        if isinstance(n, ast.ImportFrom):
            for a in n.names:
                if a.name == "year" and a.asname is None and n.module is not None and n.module.endswith("utils._utils"):
                    have_year = True
                elif a.asname in GLOBAL_NAMES or (a.asname is None and a.name in GLOBAL_NAMES):
                    raise Bad(f"{M}: {a.name} imported as {a.asname or a.name}")
        if isinstance(n, (ast.FunctionDef, ast.AsyncFunctionDef, ast.ClassDef)):
            if n.name in seen:
                raise Bad(f"{M}: {n.name} defined twice")
            seen[n.name] = n
    if not (have_np and have_year):
        raise Bad(f"{M}: numpy as np / utils._utils.year not imported")
    for n in ast.walk(tree):
        if isinstance(n, (ast.Assign, ast.AugAssign, ast.AnnAssign)):
            for t in (n.targets if isinstance(n, ast.Assign) else [n.target]):
                if isinstance(t, ast.Name) and (t.id in GLOBAL_NAMES or t.id in FUNCS):
                    raise Bad(f"{M}: {t.id!r} is rebound")
    for g in GLOBAL_NAMES:
        if g in seen:
            raise Bad(f"{M}: {g} redefined")
    return {k: v for k, v in seen.items() if isinstance(v, ast.FunctionDef)}


def generate(repo):
    errors = []
    out = ["", "import IbicusModel.Model.EvalGrid2", "", "namespace Gen.EvaluateGrid2", "open Model.EvalGrid", ""]
    try:
        funcs = load(repo)
    except (OSError, SyntaxError, Bad) as ex:
        funcs = None
        errors.append(f"untranslatable:evalgrid2: {type(ex).__name__} {ex}")
    for name in FUNCS:
        lean = name.lstrip("_")
        body, sig = '.ret (.bad "untranslatable")', "[]"
        if funcs is not None:
            try:
                fn = funcs.get(name)
                if fn is None:
                    raise Bad(f"{M}: {name} not found")
                names = params_of(fn)
                v = Run(funcs).body(fn, {p: ("arg", p) for p in names})
                body = r_yp(v)
                sig = "[" + ", ".join(lstr(n) for n in names) + "]"
            except Bad as ex:
                errors.append(f"untranslatable:evalgrid2.{name}: {ex}")
        out += [f"/-- generated from `{M}`: `{name}` (grid program) -/", f"def {lean} : YP :=\n  {body}", "",
                f"/-- parameter order of `{name}` -/", f"def {lean}_params : List String := {sig}", ""]
    out += ["end Gen.EvaluateGrid2"]
    return "\n".join(out) + "\n", errors


if __name__ == "__main__":
    import sys

    text, errs = generate(sys.argv[1] if len(sys.argv) > 1 else "/repo")
    print(text)
    print(errs)
