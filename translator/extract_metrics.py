"""
Tier-A extractor for C19: the decision logic and the literal array expressions of `ibicus/evaluate/metrics.py`,
regenerated from /repo's current AST into `lean/IbicusModel/Gen/Metrics.lean` (`Lemmas/GenMetrics.lean` proves every
definition equal to the hand-written model `Model/Metrics.lean`).

Three readers, none of which guesses (anything outside the shapes below is `Untranslatable` = a broken tie):

 1. `Disp` — *dispatch functions*: `if/elif/else` chains on string parameters / attributes (`==`, `!=`, `in [..]`, `and`,
    `or`, `not`), `X is None` tests (a `match` on an `Option`), `raise E(..)` (-> `.error "E"`), assignments and returns
    whose right-hand sides are names, constants, or *templates*: source patterns with holes (`_1`, `_2`, …) that are mapped
    to a named Lean function — a parameter of the generated definition (the array pipelines: `np.isin` of the key list,
    the pandas merge, the quantile call, the class constructor …) or another generated definition.  A template that
    `bind`s is a call that can raise: it is sequenced in the `Except` monad in source order.  *Layout statements*
    (re-broadcasts `t = t[None, :, :]`, `t = t[:, None, None]`, `t = np.array(t)`, `t = np.concatenate(t)`, an exception
    object that is constructed but not raised, and an `if` on `self.threshold_locality` that holds nothing else) are
    skipped: the element-wise reading of the arrays is the trusted base, how numpy broadcasts is tier B.
    Used for `_get_mask_threshold_condition`, both halves of `_get_mask_higher_or_lower`, `_get_time_group_by_scope`,
    `from_quantile`.
 2. `np_expr` — literal 1-d array expressions into the DSL `Model.NpExpr.E` (indexing, slices, `!=`, `>`, list displays,
    `np.concatenate`, `np.where(..)[0]`, `np.diff`, mask selection): `_calculate_spell_lengths_one_location` and the
    `minimum_length` filter; the statements of the loop around them as alpha-normalised source text (`spellLoop`).
 3. `MFn` (py2lean `Fn`, column reading) — the straight-line formulas: `filter_threshold_exceedances`,
    `calculate_instances_of_threshold_exceedance`, `calculate_exceedance_probability`,
    `calculate_percent_of_total_amount_beyond_threshold`, `calculate_intensity_index`, and the per-year list
    comprehension of the two annual functions.

Identity of the tie: operators, literals, branch order, which value goes to which call, which exception class.
Not part of it: names of locals / parameters (positional roles are used), docstrings, comments, message texts of the
exceptions, annotations, layout statements.
"""
import ast
import copy
import os
import re
import sys

sys.path.insert(0, os.path.dirname(os.path.abspath(__file__)))
from py2lean import BOOL, INT, LIST, RAT, STR, Fn, Untranslatable, is_list  # noqa: E402

SRC = "ibicus/evaluate/metrics.py"
LEAN_KEYWORDS = {"at", "end", "from", "fun", "open", "in", "do", "then", "else", "if", "match", "with", "let", "have",
                 "show", "by", "where", "def", "theorem", "namespace", "section", "variable", "instance", "class",
                 "structure", "inductive", "local", "private", "import", "export", "return", "for", "mut", "try",
                 "catch", "finally", "unless", "universe", "example", "macro", "syntax", "λ", "Type", "Prop", "Sort"}


def lname(n):
    n = n.replace(".", "_")
    return n + "_" if n in LEAN_KEYWORDS else n


def lstr(s):
    return '"' + s.replace("\\", "\\\\").replace('"', '\\"').replace("\n", " ") + '"'


def find_class(tree, name):
    for n in tree.body:
        if isinstance(n, ast.ClassDef) and n.name == name:
            return n
    raise Untranslatable(f"class {name} not found")


def find_method(cls, name):
    for n in cls.body:
        if isinstance(n, ast.FunctionDef) and n.name == name:
            return n
    raise Untranslatable(f"{cls.name}.{name} not found")


def strip_doc(stmts):
    return [s for s in stmts if not (isinstance(s, ast.Expr) and isinstance(s.value, ast.Constant) and isinstance(s.value.value, str))]


def pos_params(fn, skip_first):
    """positional parameter names (roles are positional: a renamed parameter keeps its role)"""
    names = [a.arg for a in fn.args.posonlyargs + fn.args.args]
    if fn.args.vararg is not None:
        raise Untranslatable(f"{fn.name}: *args")
    return names[1:] if skip_first else names


# ---------------------------------------------------------------------------------------------- templates
HOLE = re.compile(r"_\d+$")


def tmatch(pat, node, binds):
    if isinstance(pat, ast.Name) and HOLE.match(pat.id):
        if pat.id in binds:
            return ast.dump(binds[pat.id]) == ast.dump(node)
        binds[pat.id] = node
        return True
    if type(pat) is not type(node):
        return False
    for f in pat._fields:
        if f in ("ctx", "kind", "type_comment"):
            continue
        a, b = getattr(pat, f, None), getattr(node, f, None)
        if isinstance(a, list):
            if not isinstance(b, list) or len(a) != len(b) or not all(tmatch(x, y, binds) for x, y in zip(a, b)):
                return False
        elif isinstance(a, ast.AST):
            if not isinstance(b, ast.AST) or not tmatch(a, b, binds):
                return False
        elif a != b:
            return False
    return True


def subst_names(node, mapping):
    """a copy of `node` with Name ids replaced (used to write templates with the function's current parameter names)"""
    node = copy.deepcopy(node)
    for n in ast.walk(node):
        if isinstance(n, ast.Name) and n.id in mapping:
            n.id = mapping[n.id]
    return node


class Template:
    def __init__(self, pat, lean, args, ret, bind=False, rename=None):
        self.src = pat
        self.pat = ast.parse(pat, mode="eval").body
        if rename:
            self.pat = subst_names(self.pat, rename)
        self.lean, self.args, self.ret, self.bind = lean, args, ret, bind
        self.holes = sorted({n.id for n in ast.walk(self.pat) if isinstance(n, ast.Name) and HOLE.match(n.id)}, key=lambda s: int(s[1:]))


# ---------------------------------------------------------------------------------------------- dispatch functions
class Disp:
    def __init__(self, what, env, templates, ret, layout=None, coerce=None, implicit_return=None, ret_expr=None):
        self.what = what
        self.env0 = env  # python key (name or "self.attr") -> (lean, type)
        self.templates = templates
        self.ret = ret
        self.layout = layout or (lambda st: False)
        self.coercions = coerce or {}
        self.implicit_return = implicit_return
        self.ret_expr = ret_expr
        self.counter = 0

    def fresh(self):
        self.counter += 1
        return f"r_{self.counter}"

    def fit(self, s, t, want):
        if t == want:
            return s
        if want == f"Option {t}" or want == f"Option ({t})":
            return f"(some {s})"
        if t == "None" and want.startswith("Option "):
            return "none"
        if (t, want) in self.coercions:
            return f"({self.coercions[(t, want)]} {s})"
        return None

    # -- expressions
    def expr(self, e, env, pre):
        if isinstance(e, ast.Constant):
            v = e.value
            if v is None:
                return "none", "None"
            if isinstance(v, bool):
                return ("true" if v else "false"), BOOL
            if isinstance(v, str):
                return lstr(v), STR
            if isinstance(v, int):
                return f"({v} : Int)", INT
            raise Untranslatable(f"{self.what}: constant {v!r}")
        if isinstance(e, ast.Name) and e.id in env:
            return env[e.id]
        if isinstance(e, ast.Attribute) and isinstance(e.value, ast.Name) and e.value.id == "self" and "self." + e.attr in env:
            return env["self." + e.attr]
        last = None
        for tp in self.templates:
            binds = {}
            if not tmatch(tp.pat, e, binds):
                continue
            pre2 = []
            try:
                parts = [self.expr(binds[h], env, pre2) for h in tp.holes]
            except Untranslatable as ex:
                last = ex
                continue
            fitted = [self.fit(s, t, w) for (s, t), w in zip(parts, tp.args)]
            if len(parts) != len(tp.args) or any(f is None for f in fitted):
                last = Untranslatable(f"{self.what}: `{tp.src}` applied to {[t for _, t in parts]}")
                continue
            pre.extend(pre2)
            call = " ".join([tp.lean] + fitted)
            if tp.bind:
                v = self.fresh()
                pre.append((v, call))
                return v, tp.ret
            return (f"({call})" if fitted else call), tp.ret
        if last is not None:
            raise last
        raise Untranslatable(f"{self.what}: expression `{ast.unparse(e)[:70]}`")

    def test(self, e, env):
        if isinstance(e, ast.BoolOp):
            op = " ∧ " if isinstance(e.op, ast.And) else " ∨ "
            return "(" + op.join(self.test(v, env) for v in e.values) + ")"
        if isinstance(e, ast.UnaryOp) and isinstance(e.op, ast.Not):
            return f"(¬ {self.test(e.operand, env)})"
        pre = []
        if isinstance(e, ast.Compare) and len(e.ops) == 1:
            op, rhs = e.ops[0], e.comparators[0]
            if isinstance(op, (ast.In, ast.NotIn)) and isinstance(rhs, (ast.List, ast.Tuple)) and rhs.elts:
                s, t = self.expr(e.left, env, pre)
                alts = [self.expr(x, env, pre) for x in rhs.elts]
                if not pre and all(ta == t for _, ta in alts) and t in (STR, INT):
                    r = "(" + " ∨ ".join(f"{s} = {a}" for a, _ in alts) + ")"
                    return r if isinstance(op, ast.In) else f"(¬ {r})"
                raise Untranslatable(f"{self.what}: membership test `{ast.unparse(e)}`")
            o = {ast.Eq: "=", ast.NotEq: "≠", ast.Lt: "<", ast.LtE: "≤", ast.Gt: ">", ast.GtE: "≥"}.get(type(op))
            if o is not None:
                try:
                    a, ta = self.expr(e.left, env, pre)
                    b, tb = self.expr(rhs, env, pre)
                except Untranslatable:
                    a = ta = b = tb = None
                if a is not None and not pre and ta == tb and (ta == INT or (ta == STR and o in ("=", "≠"))):
                    return f"({a} {o} {b})"
                pre = []
        s, t = self.expr(e, env, pre)
        if pre:
            raise Untranslatable(f"{self.what}: a call that can raise inside a test")
        if t != BOOL:
            raise Untranslatable(f"{self.what}: test `{ast.unparse(e)[:60]}` is not Boolean")
        return f"({s} = true)"

    # -- statements
    @staticmethod
    def returns(stmts):
        if not stmts:
            return False
        last = stmts[-1]
        if isinstance(last, (ast.Return, ast.Raise)):
            return True
        if isinstance(last, ast.If) and last.orelse:
            return Disp.returns(last.body) and Disp.returns(last.orelse)
        return False

    def binds(self, pre, pad):
        return "".join(f"{pad}let {v} ← {call}\n" for v, call in pre)

    def block(self, stmts, env, ind):
        pad = " " * ind
        if not stmts:
            if self.implicit_return is None:
                raise Untranslatable(f"{self.what}: a path without return")
            return pad + f"Except.ok {self.implicit_return}\n"
        st, rest = stmts[0], stmts[1:]
        if isinstance(st, ast.Pass) or self.layout(st):
            return self.block(rest, env, ind)
        if isinstance(st, ast.Expr) and isinstance(st.value, ast.Constant) and isinstance(st.value.value, str):
            return self.block(rest, env, ind)
        if isinstance(st, ast.Raise):
            if st.exc is None:
                raise Untranslatable(f"{self.what}: bare raise")
            exc = st.exc.func if isinstance(st.exc, ast.Call) else st.exc
            if not isinstance(exc, ast.Name):
                raise Untranslatable(f"{self.what}: raise `{ast.unparse(st.exc)[:40]}`")
            return pad + f"Except.error {lstr(exc.id)}\n"
        if isinstance(st, ast.Return):
            if self.ret_expr is not None:
                return pad + f"Except.ok {self.ret_expr(st.value, env)}\n"
            pre = []
            s, t = self.expr(st.value if st.value is not None else ast.Constant(value=None), env, pre)
            f = self.fit(s, t, self.ret)
            if f is None:
                raise Untranslatable(f"{self.what}: returns {t}, expected {self.ret}")
            if pre and pre[-1][0] == s and f == s:
                return self.binds(pre[:-1], pad) + pad + pre[-1][1] + "\n"  # tail call
            return self.binds(pre, pad) + pad + f"Except.ok {f}\n"
        if isinstance(st, ast.Assign):
            if len(st.targets) != 1 or not isinstance(st.targets[0], ast.Name):
                raise Untranslatable(f"{self.what}: assignment `{ast.unparse(st)[:60]}`")
            pre = []
            s, t = self.expr(st.value, env, pre)
            nm = lname(st.targets[0].id)
            env = dict(env)
            env[st.targets[0].id] = (nm, t)
            if pre and pre[-1][0] == s:
                return self.binds(pre[:-1], pad) + pad + f"let {nm} ← {pre[-1][1]}\n" + self.block(rest, env, ind)
            return self.binds(pre, pad) + pad + f"let {nm} := {s}\n" + self.block(rest, env, ind)
        if isinstance(st, ast.If):
            tst = st.test
            neg = False
            if isinstance(tst, ast.UnaryOp) and isinstance(tst.op, ast.Not) and isinstance(tst.operand, ast.Compare) and isinstance(tst.operand.ops[0], (ast.Is, ast.IsNot)):
                tst, neg = tst.operand, True
            if (isinstance(tst, ast.Compare) and len(tst.ops) == 1 and isinstance(tst.ops[0], (ast.Is, ast.IsNot))
                    and isinstance(tst.comparators[0], ast.Constant) and tst.comparators[0].value is None):
                if not (isinstance(tst.left, ast.Name) and tst.left.id in env and env[tst.left.id][1].startswith("Option ")):
                    raise Untranslatable(f"{self.what}: `{ast.unparse(tst)}` on a value that is not optional")
                x, (lx, tx) = tst.left.id, env[tst.left.id]
                inner = tx[len("Option "):]
                inner = inner[1:-1] if inner.startswith("(") else inner
                is_none_first = isinstance(tst.ops[0], ast.Is) != neg
                none_stmts, some_stmts = (st.body, st.orelse) if is_none_first else (st.orelse, st.body)
                none_stmts = list(none_stmts) + ([] if self.returns(none_stmts) else rest)
                some_stmts = list(some_stmts) + ([] if self.returns(some_stmts) else rest)
                env_some = dict(env)
                env_some[x] = (lx, inner)
                return (pad + f"match {lx} with\n" + pad + "| none =>\n" + self.block(none_stmts, env, ind + 2)
                        + pad + f"| some {lx} =>\n" + self.block(some_stmts, env_some, ind + 2))
            c = self.test(st.test, env)
            body = list(st.body) + ([] if self.returns(st.body) else rest)
            orelse = list(st.orelse) + ([] if (st.orelse and self.returns(st.orelse)) else rest)
            return (pad + f"if {c} then\n" + self.block(body, env, ind + 2) + pad + "else\n" + self.block(orelse, env, ind + 2))
        raise Untranslatable(f"{self.what}: statement `{ast.unparse(st)[:60]}`")


def mentions_only(e, allowed_attr):
    """an `if` test built from comparisons of `self.<allowed_attr>` with string constants only"""
    for n in ast.walk(e):
        if isinstance(n, ast.Attribute):
            if not (isinstance(n.value, ast.Name) and n.value.id == "self" and n.attr == allowed_attr):
                return False
        elif isinstance(n, ast.Name):
            if n.id != "self":
                return False
        elif isinstance(n, ast.Call):
            return False
    return True


def is_layout(st):
    """statements that only change the *shape* a thresholds array is broadcast with (or do nothing)"""
    if isinstance(st, ast.Assign) and len(st.targets) == 1 and isinstance(st.targets[0], ast.Name):
        t, v = st.targets[0].id, st.value
        if isinstance(v, ast.Subscript) and isinstance(v.value, ast.Name) and v.value.id == t and isinstance(v.slice, ast.Tuple):
            ok = all((isinstance(x, ast.Constant) and x.value is None)
                     or (isinstance(x, ast.Slice) and x.lower is None and x.upper is None and x.step is None) for x in v.slice.elts)
            return ok
        if (isinstance(v, ast.Call) and ast.unparse(v.func) in ("np.array", "np.concatenate") and len(v.args) == 1 and not v.keywords
                and isinstance(v.args[0], ast.Name) and v.args[0].id == t):
            return True
        return False
    if isinstance(st, ast.Expr) and isinstance(st.value, ast.Call) and isinstance(st.value.func, ast.Name) and st.value.func.id.endswith("Error"):
        return True  # an exception object that is constructed but not raised
    if isinstance(st, ast.If) and mentions_only(st.test, "threshold_locality"):
        return all(is_layout(s) for s in list(st.body) + list(st.orelse))
    return False


def emit_def(name, implicit, params, ret, body, doc):
    ps = " ".join(f"({p} : {t})" for p, t in params)
    return f"/-- {doc} -/\ndef {name} {implicit} {ps} :\n    Except String ({ret}) := do\n{body}"


# -- the five dispatch functions
def gen_cmp_and_scope(cls):
    """`_get_mask_higher_or_lower` = head (which thresholds array: dispatch on the scope) + tail (which comparison)"""
    fn = find_method(cls, "_get_mask_higher_or_lower")
    p = pos_params(fn, True)
    if len(p) != 4:
        raise Untranslatable("_get_mask_higher_or_lower: expected (self, x, threshold_value, higher_or_lower, time)")
    x, tv, hl, time = p
    body = strip_doc(fn.body)
    if len(body) < 2 or not isinstance(body[-1], ast.If):
        raise Untranslatable("_get_mask_higher_or_lower: expected `<threshold selection>; if higher_or_lower == …`")
    head, tail = body[:-1], body[-1]
    assigned = {t.id for s in head for n in ast.walk(s) if isinstance(n, ast.Assign) for t in n.targets if isinstance(t, ast.Name)}
    free_tail = {n.id for n in ast.walk(tail) if isinstance(n, ast.Name) and isinstance(n.ctx, ast.Load)}
    thr = sorted((assigned & free_tail) - {x, hl, time})
    extra = free_tail - {x, hl} - set(thr) - {"ValueError", "TypeError", "KeyError", "IndexError", "NotImplementedError"}
    if len(thr) != 1 or extra:
        raise Untranslatable(f"_get_mask_higher_or_lower: the final dispatch reads {sorted(free_tail)}")
    thr = thr[0]
    # tail: String -> Except String (Rat -> Rat -> Bool)
    f = Fn(dict(params={}, ret=BOOL), tail, {})

    def ret_expr(e, env):
        if e is None:
            raise Untranslatable("_get_mask_higher_or_lower: returns nothing")
        pre = []
        s, t = f.expr(e, {x: RAT, thr: RAT}, pre)
        if pre:
            raise Untranslatable("_get_mask_higher_or_lower: walrus in the comparison")
        return f"(fun ({lname(x)} {lname(thr)} : Rat) => {f.val(s, t)})"

    d = Disp("_get_mask_higher_or_lower (comparison)", {hl: (lname(hl), STR)}, [], "Rat → Rat → Bool", ret_expr=ret_expr)
    cmp_text = emit_def("cmp", "", [(lname(hl), STR)], "Rat → Rat → Bool", d.block([tail], d.env0, 2),
                        f"generated from `{SRC}`: `ThresholdMetric._get_mask_higher_or_lower`, the final dispatch on its "
                        "4th parameter; the returned function is the comparison applied to every element and its threshold")
    # head: which thresholds
    env = {"self.threshold_scope": ("self_threshold_scope", STR), tv: (lname(tv), "θ"), time: (lname(time), "Option τ")}
    tps = [
        Template("ThresholdMetric._get_time_group_by_scope(_1, _2)", "time_group_by_scope day_of_year month season", ["Option τ", STR], "Option γ", bind=True),
        Template("np.all(np.isin(_1, list(_2.keys())))", "all_isin_keys", ["Option γ", "θ"], BOOL),
        Template("pd.DataFrame({'time': _1}).merge(pd.DataFrame(_2.items(), columns=['time', 'threshold']), how='left', on='time').threshold.values",
                 "merge_lookup", ["Option γ", "θ"], "Θ"),
    ]
    d2 = Disp("_get_mask_higher_or_lower (thresholds)", env, tps, "Θ", layout=is_layout, coerce={("θ", "Θ"): "overall_value"})
    ret_stmt = ast.Return(value=ast.Name(id=thr, ctx=ast.Load()))
    head_text = emit_def(
        "thresholds_by_scope", "{τ γ θ Θ : Type}",
        [("day_of_year month season", "τ → γ"), ("all_isin_keys", "Option γ → θ → Bool"), ("merge_lookup", "Option γ → θ → Θ"),
         ("overall_value", "θ → Θ"), ("self_threshold_scope", STR), (lname(tv), "θ"), (lname(time), "Option τ")],
        "Θ", d2.block(head + [ret_stmt], env, 2),
        f"generated from `{SRC}`: `ThresholdMetric._get_mask_higher_or_lower`, everything before the final dispatch: "
        "the value of the local that is compared with `x` (layout statements skipped)")
    return cmp_text, head_text


def gen_time_group(cls):
    fn = find_method(cls, "_get_time_group_by_scope")
    p = pos_params(fn, False)
    if len(p) != 2:
        raise Untranslatable("_get_time_group_by_scope: expected (time, threshold_scope)")
    time, scope = p
    env = {time: (lname(time), "Option τ"), scope: (lname(scope), STR)}
    tps = [Template(f"utils.{f}(_1)", f, ["τ"], "γ") for f in ("day_of_year", "month", "season")]
    d = Disp("_get_time_group_by_scope", env, tps, "Option γ", implicit_return="none")
    return emit_def("time_group_by_scope", "{τ γ : Type}", [("day_of_year month season", "τ → γ"), (lname(time), "Option τ"), (lname(scope), STR)],
                    "Option γ", d.block(strip_doc(fn.body), env, 2),
                    f"generated from `{SRC}`: `ThresholdMetric._get_time_group_by_scope` (the `utils` functions are parameters)")


def gen_condition(cls):
    fn = find_method(cls, "_get_mask_threshold_condition")
    p = pos_params(fn, True)
    if len(p) != 2:
        raise Untranslatable("_get_mask_threshold_condition: expected (self, x, time)")
    ren = {"x": p[0], "time": p[1]}
    env = {"self.threshold_type": ("self_threshold_type", STR)}
    tps = [
        Template("self.threshold_value[0]", "tv_0", [], "σ"),
        Template("self.threshold_value[1]", "tv_1", [], "σ"),
        Template("self.threshold_value", "tv", [], "σ"),
        Template("self._get_mask_higher_or_lower(x, _1, _2, time)", "mask_higher_or_lower", ["σ", STR], "μ", bind=True, rename=ren),
        Template("self._get_mask_higher_or_lower(x, _1, _2, time=time)", "mask_higher_or_lower", ["σ", STR], "μ", bind=True, rename=ren),
        Template("np.logical_and(_1, _2)", "logical_and", ["μ", "μ"], "μ"),
        Template("np.logical_or(_1, _2)", "logical_or", ["μ", "μ"], "μ"),
    ]
    d = Disp("_get_mask_threshold_condition", env, tps, "μ")
    return emit_def("mask_threshold_condition", "{σ μ : Type}",
                    [("mask_higher_or_lower", "σ → String → Except String μ"), ("logical_and logical_or", "μ → μ → μ"),
                     ("self_threshold_type", STR), ("tv tv_0 tv_1", "σ")], "μ", d.block(strip_doc(fn.body), env, 2),
                    f"generated from `{SRC}`: `ThresholdMetric._get_mask_threshold_condition` "
                    "(`tv` = `self.threshold_value`, `tv_k` = `self.threshold_value[k]`; `x`, `time` are passed through unchanged)")


def gen_from_quantile(cls):
    fn = find_method(cls, "from_quantile")
    p = pos_params(fn, True)
    if len(p) != 8:
        raise Untranslatable("from_quantile: expected (cls, x, q, threshold_type, threshold_scope, threshold_locality, time, name, variable)")
    x, q, ty, scope, loc, time, name, var = p
    ren = {"x": x, "time": time, "threshold_scope": scope, "threshold_locality": loc, "threshold_type": ty, "name": name, "variable": var}
    env = {q: (lname(q), "κ"), ty: (lname(ty), STR)}
    call = "ThresholdMetric._get_threshold_from_quantile(x, _1, time=time, threshold_scope=threshold_scope, threshold_locality=threshold_locality)"
    ctor = "cls(threshold_value=_1, threshold_scope=threshold_scope, threshold_type=threshold_type, threshold_locality=threshold_locality, name=name, variable=variable)"
    tps = [
        Template("isinstance(_1, (list, tuple, np.ndarray))", "is_sequence", ["κ"], BOOL),
        Template("len(_1)", "length", ["κ"], INT),
        Template("_1[0]", "item_0", ["κ"], "ρ"),
        Template("_1[1]", "item_1", ["κ"], "ρ"),
        Template("_1 < _2", "less", ["ρ", "ρ"], BOOL),
        Template(call, "threshold_of_item", ["ρ"], "σ", bind=True, rename=ren),
        Template(call, "threshold_of_whole", ["κ"], "σ", bind=True, rename=ren),
        Template("[_1, _2]", "pair", ["σ", "σ"], "σ × σ"),
        Template(ctor, "make_two", ["σ × σ"], "ω", rename=ren),
        Template(ctor, "make_one", ["σ"], "ω", rename=ren),
    ]
    d = Disp("from_quantile", env, tps, "ω")
    return emit_def("from_quantile", "{κ ρ σ ω : Type}",
                    [("is_sequence", "κ → Bool"), ("length", "κ → Int"), ("item_0 item_1", "κ → ρ"), ("less", "ρ → ρ → Bool"),
                     ("threshold_of_item", "ρ → Except String σ"), ("threshold_of_whole", "κ → Except String σ"),
                     ("pair", "σ → σ → σ × σ"), ("make_two", "σ × σ → ω"), ("make_one", "σ → ω"), (lname(q), "κ"), (lname(ty), STR)],
                    "ω", d.block(strip_doc(fn.body), env, 2),
                    f"generated from `{SRC}`: `ThresholdMetric.from_quantile` (the quantile computation and the constructor are "
                    "parameters; every other argument is passed through unchanged)")


# ---------------------------------------------------------------------------------------------- numpy expressions
def int_const(e):
    if isinstance(e, ast.Constant) and isinstance(e.value, int) and not isinstance(e.value, bool):
        return e.value
    if isinstance(e, ast.UnaryOp) and isinstance(e.op, ast.USub) and isinstance(e.operand, ast.Constant) and isinstance(e.operand.value, int):
        return -e.operand.value
    return None


def lint(k):
    return f"({k})" if k < 0 else str(k)


def lopt(e, what):
    if e is None:
        return "none"
    k = int_const(e)
    if k is None:
        raise Untranslatable(f"{what}: slice bound `{ast.unparse(e)}`")
    return f"(some {lint(k)})"


def np_expr(e, arg, ivar, what):
    def R(x):
        return np_expr(x, arg, ivar, what)

    if isinstance(e, ast.Name):
        if e.id == arg:
            return ".arg"
        if ivar is not None and e.id == ivar:
            return ".ivar"
        raise Untranslatable(f"{what}: name {e.id}")
    if isinstance(e, ast.Constant):
        if isinstance(e.value, bool):
            return f"(.blit {'true' if e.value else 'false'})"
        if isinstance(e.value, int):
            return f"(.ilit {lint(e.value)})"
        raise Untranslatable(f"{what}: constant {e.value!r}")
    if isinstance(e, ast.List):
        out = ".nil"
        for x in reversed(e.elts):
            out = f"(.cons {R(x)} {out})"
        return out
    if isinstance(e, ast.Compare) and len(e.ops) == 1 and isinstance(e.ops[0], (ast.NotEq, ast.Gt)):
        c = "neq" if isinstance(e.ops[0], ast.NotEq) else "gt"
        return f"(.{c} {R(e.left)} {R(e.comparators[0])})"
    if isinstance(e, ast.Subscript):
        if (isinstance(e.value, ast.Call) and ast.unparse(e.value.func) == "np.where" and len(e.value.args) == 1 and not e.value.keywords
                and int_const(e.slice) == 0):
            return f"(.where0 {R(e.value.args[0])})"
        if isinstance(e.slice, ast.Slice):
            sl = e.slice
            return f"(.slice {R(e.value)} {lopt(sl.lower, what)} {lopt(sl.upper, what)} {lopt(sl.step, what)})"
        k = int_const(e.slice)
        if k is not None:
            return f"(.item {R(e.value)} {lint(k)})"
        if isinstance(e.slice, (ast.Compare, ast.Name)):
            return f"(.sel {R(e.value)} {R(e.slice)})"
        raise Untranslatable(f"{what}: subscript `{ast.unparse(e)[:60]}`")
    if isinstance(e, ast.Call) and not e.keywords and len(e.args) == 1:
        f = ast.unparse(e.func)
        if f == "np.diff":
            return f"(.diff {R(e.args[0])})"
        if f == "np.concatenate" and isinstance(e.args[0], (ast.Tuple, ast.List)) and e.args[0].elts:
            parts = [R(x) for x in e.args[0].elts]
            out = parts[-1]
            for x in reversed(parts[:-1]):
                out = f"(.cat {x} {out})"
            return out
    raise Untranslatable(f"{what}: expression `{ast.unparse(e)[:60]}`")


def gen_spell_expr(cls):
    fn = find_method(cls, "_calculate_spell_lengths_one_location")
    p = pos_params(fn, False)
    body = strip_doc(fn.body)
    if len(p) != 1 or len(body) != 1 or not isinstance(body[0], ast.Return) or body[0].value is None:
        raise Untranslatable("_calculate_spell_lengths_one_location: expected one parameter and a single return")
    t = np_expr(body[0].value, p[0], None, "_calculate_spell_lengths_one_location")
    return (f"/-- generated from `{SRC}`: the expression returned by `ThresholdMetric._calculate_spell_lengths_one_location` -/\n"
            f"def spellExpr : Model.NpExpr.E :=\n  {t}\n")


GLOBAL_NAMES = {"np", "pd", "ThresholdMetric", "self", "utils", "list", "tuple", "isinstance", "range", "len"}


def alpha(stmts, params):
    """source text of statements with parameters renamed `p<k>` (by position) and locals `v<k>` (by first occurrence)"""
    order = {}
    out = []
    for st in stmts:
        st = copy.deepcopy(st)
        for n in ast.walk(st):
            if isinstance(n, ast.Name) and n.id not in GLOBAL_NAMES:
                if n.id in params:
                    n.id = f"p{params.index(n.id)}"
                else:
                    n.id = order.setdefault(n.id, f"v{len(order)}")
        out.append(ast.unparse(st))
    return out, order


def gen_spell_loop(cls):
    """the statements of `calculate_spell_length` between the mask and the data frame: the location loop, the
    concatenation and the `minimum_length` filter"""
    fn = find_method(cls, "calculate_spell_length")
    params = pos_params(fn, True)
    loops = [s for s in strip_doc(fn.body) if isinstance(s, ast.For)]
    if len(loops) != 1 or len(params) != 1:
        raise Untranslatable("calculate_spell_length: expected (self, minimum_length, **climate_data) and one loop over the data sets")
    body = loops[0].body
    inner = [k for k, s in enumerate(body) if isinstance(s, ast.For)]
    if len(inner) != 1 or inner[0] == 0:
        raise Untranslatable("calculate_spell_length: expected one loop over the locations")
    k = inner[0]
    # from `spell_length = []` to the last statement before the data frame is appended
    end = next((i for i in range(k + 1, len(body)) if "DataFrame" in ast.unparse(body[i])), None)
    if end is None:
        raise Untranslatable("calculate_spell_length: data frame statement not found")
    seg = body[k - 1:end]
    texts, order = alpha(seg, params)
    # the mask variable must be the one assigned from `_get_mask_threshold_condition` before the loop
    pre_txt, _ = alpha(body[:k - 1], params)
    filt = [s for s in seg if isinstance(s, ast.Assign) and isinstance(s.value, ast.Subscript) and isinstance(s.value.slice, ast.Compare)]
    if len(filt) != 1 or not isinstance(filt[0].targets[0], ast.Name) or not isinstance(filt[0].value.value, ast.Name):
        raise Untranslatable("calculate_spell_length: expected exactly one mask-selection statement after the loop")
    a = filt[0].value.value.id
    if filt[0].targets[0].id != a:
        raise Untranslatable("calculate_spell_length: the filtered array is stored under another name")
    fe = np_expr(filt[0].value, a, params[0], "calculate_spell_length (minimum_length filter)")
    masks = sorted({ast.unparse(n.value) for s in body[:k - 1] for n in ast.walk(s)
                    if isinstance(n, ast.Assign) and isinstance(n.value, ast.Call)} )
    mask_calls = []
    for s in body[:k - 1]:
        for n in ast.walk(s):
            if isinstance(n, ast.Assign) and isinstance(n.value, ast.Call) and len(n.targets) == 1 and isinstance(n.targets[0], ast.Name):
                mask_calls.append((n.targets[0].id, ast.unparse(n.value.func)))
    src_mask = sorted({f for _, f in mask_calls})
    mask_var = {v for v, _ in mask_calls}
    loop_reads = {n.id for n in ast.walk(body[k]) if isinstance(n, ast.Name) and isinstance(n.ctx, ast.Load)} & mask_var
    if len(mask_var) != 1 or loop_reads != mask_var:
        raise Untranslatable("calculate_spell_length: the location loop does not read the mask computed before it")
    del masks, pre_txt
    out = ["/-- generated from `" + SRC + "`: `calculate_spell_length`, the statements from the empty list to the `minimum_length` "
           "filter (locals renamed `v<k>` by first occurrence, parameters `p<k>`) -/",
           "def spellLoop : List String := [", ",\n".join("  " + lstr(t) for t in texts) + "]", "",
           "/-- the function(s) the mask that the location loop reads is computed with -/",
           "def spellMaskSource : List String := [" + ", ".join(lstr(s) for s in src_mask) + "]", "",
           "/-- the `minimum_length` filter as an expression (`arg` = the concatenated spell lengths, `ivar` = `minimum_length`) -/",
           f"def spellFilterExpr : Model.NpExpr.E :=\n  {fe}", ""]
    return "\n".join(out)


# ---------------------------------------------------------------------------------------------- formulas (column reading)
LR, LI, LB = LIST(RAT), LIST(INT), LIST(BOOL)


class MFn(Fn):
    """py2lean `Fn` + the element-wise three-argument `np.where` and `X.shape[0]` on one location's column"""

    def expr(self, e, env, pre):
        if (isinstance(e, ast.Subscript) and isinstance(e.value, ast.Attribute) and e.value.attr == "shape" and int_const(e.slice) == 0):
            s, t = self.expr(e.value.value, env, pre)
            if is_list(t):
                return f"((({s}).length : Nat) : Int)", INT
            raise Untranslatable(f".shape[0] of {t}")
        return super().expr(e, env, pre)

    def call(self, e, env, pre):
        if ast.unparse(e.func) == "np.where" and len(e.args) == 3 and not e.keywords:
            m, tm = self.expr(e.args[0], env, pre)
            a, ta = self.expr(e.args[1], env, pre)
            b, tb = self.expr(e.args[2], env, pre)
            if tm == LB and is_list(ta) and not is_list(tb):
                el = ta[5:]
                bb = self.coerce(b, tb, el)
                return f"(List.zipWith (fun (c : Bool) (v : {el}) => if c then v else {bb}) {m} {a})", ta
            raise Untranslatable(f"np.where({tm}, {ta}, {tb})")
        return super().call(e, env, pre)


def mspec(func, lean, params, ret, extern, partial_div=False):
    return dict(file=SRC, cls=None, func=func, lean=lean, params=params, ret=ret, column=True, extern=extern, partial_div=partial_div)


MASK = {"self._get_mask_threshold_condition": dict(lean="mask_of", args=[LR, LI], ret=LB, kwargs={"time": "arg"})}
FILT = {"self.filter_threshold_exceedances": dict(lean="filter_of", args=[LR, LI], ret=LR, kwargs={"time": "arg"})}
INST = {"self.calculate_instances_of_threshold_exceedance": dict(lean="instances_of", args=[LR, LI], ret=LI, kwargs={"time": "arg"})}
MT, FT, IT = "List Rat → List Int → List Bool", "List Rat → List Int → List Rat", "List Rat → List Int → List Int"


def gen_formulas(tree):
    tm, am = find_class(tree, "ThresholdMetric"), find_class(tree, "AccumulativeThresholdMetric")
    jobs = [
        (tm, mspec("calculate_instances_of_threshold_exceedance", "instances", {"mask_of": MT, "dataset": LR, "time": LI}, LI, MASK)),
        (tm, mspec("filter_threshold_exceedances", "filter_exceedances", {"mask_of": MT, "dataset": LR, "time": LI}, LR, MASK)),
        (tm, mspec("calculate_exceedance_probability", "exceedance_probability", {"instances_of": IT, "dataset": LR, "time": LI}, RAT, INST, True)),
        (am, mspec("calculate_percent_of_total_amount_beyond_threshold", "percent_of_total", {"filter_of": FT, "dataset": LR, "time": LI}, RAT, FILT, True)),
        (am, mspec("calculate_intensity_index", "intensity_index", {"filter_of": FT, "instances_of": IT, "dataset": LR, "time": LI}, RAT,
                   {**FILT, **INST}, True)),
    ]
    out, errors = [], []
    for cls, sp in jobs:
        try:
            fn = find_method(cls, sp["func"])
            names = pos_params(fn, True)
            want = [p for p in sp["params"] if p in ("dataset", "time")]
            if names != want:
                # parameters are positional roles: rename the function's own names to the canonical ones
                if len(names) != len(want):
                    raise Untranslatable(f"{sp['func']}: parameters {names}")
                fn = subst_names(fn, dict(zip(names, want)))
            out.append(f"/-- generated from `{SRC}`: `{cls.name}.{sp['func']}` at one location (the column of the `[time, i, j]` array) -/")
            out.append(MFn(sp, fn, {}).translate())
        except Untranslatable as ex:
            errors.append(f"untranslatable:{sp['func']}: {ex}")
    # the per-year list comprehension of the two annual functions
    for cls, func, lean, el in ((tm, "calculate_number_annual_days_beyond_threshold", "annual_counts", INT),
                                (am, "calculate_annual_value_beyond_threshold", "annual_values", RAT)):
        try:
            out.append(gen_annual(find_method(cls, func), f"{cls.name}.{func}", lean, el))
        except Untranslatable as ex:
            errors.append(f"untranslatable:{func}: {ex}")
    return "\n".join(out) + "\n", errors


def gen_annual(fn, what, lean, el):
    """`out[:, j, k] = [a[time_array == i, j, k].sum() for i in years]` inside `for j …: for k …:` — read at one location"""
    hits = []

    def walk(stmts, loopvars):
        for s in stmts:
            if isinstance(s, ast.For):
                if not isinstance(s.target, ast.Name):
                    raise Untranslatable(f"{what}: loop target")
                walk(s.body, loopvars + [s.target.id])
            elif isinstance(s, ast.Assign) and isinstance(s.value, ast.ListComp) and loopvars:
                hits.append((s, loopvars))

    walk(strip_doc(fn.body), [])
    if len(hits) != 1 or len(hits[0][1]) != 2:
        raise Untranslatable(f"{what}: expected one list comprehension inside a double loop over the locations")
    st, (j, k) = hits[0]
    tg = st.targets[0]
    if not (isinstance(tg, ast.Subscript) and isinstance(tg.slice, ast.Tuple) and len(tg.slice.elts) == 3
            and isinstance(tg.slice.elts[0], ast.Slice) and ast.unparse(tg.slice.elts[1]) == j and ast.unparse(tg.slice.elts[2]) == k):
        raise Untranslatable(f"{what}: the comprehension is not stored at [:, {j}, {k}]")
    comp = copy.deepcopy(st.value)
    if len(comp.generators) != 1 or comp.generators[0].ifs or not isinstance(comp.generators[0].iter, ast.Name) or not isinstance(comp.generators[0].target, ast.Name):
        raise Untranslatable(f"{what}: comprehension shape")
    years, i = comp.generators[0].iter.id, comp.generators[0].target.id
    roles = {}

    class Col(ast.NodeTransformer):
        def visit_Subscript(self, n):
            n = self.generic_visit(n)
            if (isinstance(n.slice, ast.Tuple) and len(n.slice.elts) == 3 and ast.unparse(n.slice.elts[1]) == j
                    and ast.unparse(n.slice.elts[2]) == k and isinstance(n.value, ast.Name)):
                roles.setdefault("data", n.value.id)
                return ast.Subscript(value=n.value, slice=n.slice.elts[0], ctx=ast.Load())
            return n

    comp = Col().visit(comp)
    free = {n.id for n in ast.walk(comp.elt) if isinstance(n, ast.Name)} - {i, roles.get("data")}
    if "data" not in roles or len(free) != 1 or j in free or k in free:
        raise Untranslatable(f"{what}: the comprehension reads {sorted(free)}")
    tarr = free.pop()
    ren = {roles["data"]: "values", tarr: "time_array", years: "years", i: "y"}
    comp = subst_names(comp, ren)
    # the statements before the location loops (where `values`, `time_array`, `years` come from), alpha-normalised
    params = pos_params(fn, True)
    first_loop = next(k for k, s in enumerate(strip_doc(fn.body)) if isinstance(s, ast.For))
    texts, order = alpha(strip_doc(fn.body)[:first_loop], params)
    roles_txt = [order.get(roles["data"], "?"), order.get(tarr, "?"), order.get(years, "?")]
    prelude = (f"/-- generated from `{SRC}`: `{what}`, the statements before the location loops (locals `v<k>` by first occurrence, "
               "parameters `p<k>`) and the locals the comprehension reads as `values`, `time_array`, `years` -/\n"
               f"def {lean}_prelude : List String := [\n" + ",\n".join("  " + lstr(t) for t in texts) + "]\n"
               f"def {lean}_roles : List String := [" + ", ".join(lstr(r) for r in roles_txt) + "]\n\n")
    node = ast.FunctionDef(name=lean, args=ast.arguments(posonlyargs=[], args=[], kwonlyargs=[], kw_defaults=[], defaults=[]),
                           body=[ast.Return(value=comp)], decorator_list=[])
    ast.fix_missing_locations(node)
    sp = dict(file=SRC, cls=None, func=lean, lean=lean, params={"values": LIST(el), "time_array": LI, "years": LI}, ret=LIST(el), column=True)
    return prelude + (f"/-- generated from `{SRC}`: `{what}`, the per-year list comprehension at one location "
            "(`values` = the column of the instance / filtered array) -/\n" + MFn(sp, node, {}).translate())


# ================================================================================================ part 2
# Whole-array bodies (`Model.NpGrid.A`), the shared per-data-set head (`Model.NpGrid.Head`), the loop nest of the annual
# functions (`Model.NpGrid.AnnualLoop`), `_get_quantile_by_locality` / `_get_threshold_from_quantile` (dispatch reader).
KW_ITEMS = "items"


def _is_name(e, n=None):
    return isinstance(e, ast.Name) and (n is None or e.id == n)


def _str_list(e, what):
    if not isinstance(e, (ast.List, ast.Tuple)) or not e.elts or not all(isinstance(x, ast.Constant) and isinstance(x.value, str) for x in e.elts):
        raise Untranslatable(f"{what}: expected a list of string literals, found `{ast.unparse(e)[:50]}`")
    return [x.value for x in e.elts]


def _self_call(e, value, what, with_time):
    """`self.<M>(VALUE[0], time=VALUE[1])` (with_time) or `self.<M>(VALUE, time=None)`; returns M"""
    if not (isinstance(e, ast.Call) and isinstance(e.func, ast.Attribute) and _is_name(e.func.value, "self") and len(e.args) == 1
            and len(e.keywords) == 1 and e.keywords[0].arg == "time"):
        raise Untranslatable(f"{what}: expected `self.<method>(<data>, time=<time>)`, found `{ast.unparse(e)[:60]}`")
    d, t = e.args[0], e.keywords[0].value
    if with_time:
        ok = (isinstance(d, ast.Subscript) and _is_name(d.value, value) and int_const(d.slice) == 0
              and isinstance(t, ast.Subscript) and _is_name(t.value, value) and int_const(t.slice) == 1)
    else:
        ok = _is_name(d, value) and isinstance(t, ast.Constant) and t.value is None
    if not ok:
        raise Untranslatable(f"{what}: data / time arguments `{ast.unparse(e)[:70]}`")
    return e.func.attr


def read_head(fn, what):
    """the shared per-data-set statements; returns (Head fields, name of the data local, body statements, result local)"""
    if fn.args.kwarg is None:
        raise Untranslatable(f"{what}: no **kwargs")
    kw = fn.args.kwarg.arg
    body = strip_doc(fn.body)
    if len(body) != 5:
        raise Untranslatable(f"{what}: expected `frames = []; for …; out = pd.concat(frames); out[col] = pd.to_numeric(out[col]); return out`")
    init, loop, cat, num, ret = body
    if not (isinstance(init, ast.Assign) and len(init.targets) == 1 and _is_name(init.targets[0]) and isinstance(init.value, ast.List) and not init.value.elts):
        raise Untranslatable(f"{what}: first statement is not `<frames> = []`")
    frames = init.targets[0].id
    if not (isinstance(loop, ast.For) and not loop.orelse and isinstance(loop.target, ast.Tuple) and len(loop.target.elts) == 2
            and all(_is_name(x) for x in loop.target.elts) and isinstance(loop.iter, ast.Call) and not loop.iter.args and not loop.iter.keywords
            and isinstance(loop.iter.func, ast.Attribute) and loop.iter.func.attr == KW_ITEMS and _is_name(loop.iter.func.value, kw)):
        raise Untranslatable(f"{what}: expected `for key, value in {kw}.items():`")
    key, value = (x.id for x in loop.target.elts)
    stmts = list(loop.body)
    if len(stmts) < 2 or not isinstance(stmts[0], ast.If):
        raise Untranslatable(f"{what}: the loop does not start with the `isinstance` dispatch")
    br = stmts[0]
    t = br.test
    if not (isinstance(t, ast.Call) and _is_name(t.func, "isinstance") and len(t.args) == 2 and _is_name(t.args[0], value)
            and isinstance(t.args[1], ast.Tuple) and [ast.unparse(x) for x in t.args[1].elts] == ["list", "tuple"]):
        raise Untranslatable(f"{what}: expected `isinstance({value}, (list, tuple))`")
    if len(br.body) != 1 or not isinstance(br.body[0], ast.Assign) or len(br.body[0].targets) != 1 or not _is_name(br.body[0].targets[0]):
        raise Untranslatable(f"{what}: the list / tuple branch is not one assignment")
    data = br.body[0].targets[0].id
    src1 = _self_call(br.body[0].value, value, what, True)
    if len(br.orelse) != 2 or not isinstance(br.orelse[0], ast.If) or br.orelse[0].orelse or len(br.orelse[0].body) != 1:
        raise Untranslatable(f"{what}: the bare-array branch is not `if <scope test>: raise …; <data> = …`")
    g = br.orelse[0]
    if not (isinstance(g.test, ast.Compare) and len(g.test.ops) == 1 and isinstance(g.test.ops[0], ast.In)
            and ast.unparse(g.test.left) == "self.threshold_scope"):
        raise Untranslatable(f"{what}: guard `{ast.unparse(g.test)[:60]}`")
    scopes = _str_list(g.test.comparators[0], what)
    r = g.body[0]
    if not (isinstance(r, ast.Raise) and r.exc is not None):
        raise Untranslatable(f"{what}: the guard does not raise")
    exc = r.exc.func if isinstance(r.exc, ast.Call) else r.exc
    if not _is_name(exc):
        raise Untranslatable(f"{what}: raise `{ast.unparse(r.exc)[:40]}`")
    a2 = br.orelse[1]
    if not (isinstance(a2, ast.Assign) and len(a2.targets) == 1 and _is_name(a2.targets[0], data)):
        raise Untranslatable(f"{what}: the two branches assign different locals")
    src2 = _self_call(a2.value, value, what, False)
    if src1 != src2:
        raise Untranslatable(f"{what}: the two branches call different methods ({src1}, {src2})")
    # the frame
    ap = stmts[-1]
    if not (isinstance(ap, ast.Expr) and isinstance(ap.value, ast.Call) and isinstance(ap.value.func, ast.Attribute) and ap.value.func.attr == "append"
            and _is_name(ap.value.func.value, frames) and len(ap.value.args) == 1 and not ap.value.keywords):
        raise Untranslatable(f"{what}: the loop does not end with `{frames}.append(…)`")
    df = ap.value.args[0]
    if not (isinstance(df, ast.Call) and ast.unparse(df.func) == "pd.DataFrame" and not df.args and len(df.keywords) == 1 and df.keywords[0].arg == "data"
            and isinstance(df.keywords[0].value, ast.Dict) and len(df.keywords[0].value.keys) == 3):
        raise Untranslatable(f"{what}: expected `pd.DataFrame(data={{three columns}})`")
    d = df.keywords[0].value
    cols = []
    for k in d.keys:
        if not (isinstance(k, ast.Constant) and isinstance(k.value, str)):
            raise Untranslatable(f"{what}: column key `{ast.unparse(k)}`")
        cols.append(k.value)
    if not _is_name(d.values[2]):
        raise Untranslatable(f"{what}: the third column is not a local")
    res = d.values[2].id

    def rep(e, item):
        return (isinstance(e, ast.BinOp) and isinstance(e.op, ast.Mult) and isinstance(e.left, ast.List) and len(e.left.elts) == 1
                and ast.unparse(e.left.elts[0]) == item and ast.unparse(e.right) == f"{res}.size")

    if not (rep(d.values[0], key) and rep(d.values[1], "self.name")):
        raise Untranslatable(f"{what}: the first two columns are not `[{key}] * {res}.size`, `[self.name] * {res}.size`")
    # concat / to_numeric / return
    if not (isinstance(cat, ast.Assign) and len(cat.targets) == 1 and _is_name(cat.targets[0]) and ast.unparse(cat.value) == f"pd.concat({frames})"):
        raise Untranslatable(f"{what}: expected `<out> = pd.concat({frames})`")
    out = cat.targets[0].id
    if not (isinstance(num, ast.Assign) and len(num.targets) == 1 and isinstance(num.targets[0], ast.Subscript) and _is_name(num.targets[0].value, out)
            and isinstance(num.targets[0].slice, ast.Constant) and isinstance(num.targets[0].slice.value, str)
            and ast.unparse(num.value) == f"pd.to_numeric({out}[{num.targets[0].slice.value!r}])"):
        raise Untranslatable(f"{what}: expected `{out}[col] = pd.to_numeric({out}[col])`")
    if not (isinstance(ret, ast.Return) and _is_name(ret.value, out)):
        raise Untranslatable(f"{what}: does not return the concatenated frame")
    for s in stmts[1:-1]:
        for n in ast.walk(s):
            if isinstance(n, ast.Name) and n.id in (value, key, frames):
                raise Untranslatable(f"{what}: the body reads `{n.id}`")
    head = dict(source=src1, timeScopes=scopes, raises=exc.id, columns=cols, numericColumn=num.targets[0].slice.value)
    return head, data, stmts[1:-1], res


def lean_head(name, h, doc):
    sl = lambda l: "[" + ", ".join(lstr(s) for s in l) + "]"
    return (f"/-- {doc} -/\ndef {name} : Model.NpGrid.Head :=\n  {{ source := {lstr(h['source'])}, timeScopes := {sl(h['timeScopes'])}, "
            f"raises := {lstr(h['raises'])},\n    columns := {sl(h['columns'])}, numericColumn := {lstr(h['numericColumn'])} }}\n")


def scipy_name(tree, name, module):
    """the local name `name` is bound by `from <module> import <name>` at module level (and by nothing else there)"""
    hits = [n for n in tree.body if isinstance(n, ast.ImportFrom) and any((a.asname or a.name) == name for a in n.names)]
    if len(hits) != 1 or hits[0].module != module or not any(a.name == name and a.asname in (None, name) for a in hits[0].names):
        raise Untranslatable(f"`{name}` is not `from {module} import {name}`")


def a_expr(e, env, what):
    def R(x):
        return a_expr(x, env, what)

    if isinstance(e, ast.Name):
        if e.id in env and env[e.id] is not None:
            return env[e.id]
        raise Untranslatable(f"{what}: name `{e.id}`")
    k = int_const(e)
    if k is not None and k >= 0 and isinstance(e, ast.Constant):
        return f"(.lit {k})"
    if isinstance(e, ast.BinOp) and isinstance(e.op, (ast.Add, ast.Div)):
        return f"(.{'add' if isinstance(e.op, ast.Add) else 'div'} {R(e.left)} {R(e.right)})"
    if isinstance(e, ast.Subscript):
        # a.shape[k]
        if isinstance(e.value, ast.Attribute) and e.value.attr == "shape" and int_const(e.slice) is not None and int_const(e.slice) >= 0:
            return f"(.shapeAt {R(e.value.value)} {int_const(e.slice)})"
        # a[a != 0]
        s = e.slice
        if (isinstance(s, ast.Compare) and len(s.ops) == 1 and isinstance(s.ops[0], ast.NotEq) and int_const(s.comparators[0]) == 0
                and R(s.left) == R(e.value)):
            return f"(.selNeZero {R(e.value)})"
        raise Untranslatable(f"{what}: subscript `{ast.unparse(e)[:60]}`")
    if isinstance(e, ast.Call):
        f = ast.unparse(e.func)
        if f == "np.einsum" and len(e.args) == 2 and not e.keywords and isinstance(e.args[0], ast.Constant) and isinstance(e.args[0].value, str):
            if e.args[0].value.replace(" ", "") == "ijk->i":
                return f"(.einsumTime {R(e.args[1])})"
            raise Untranslatable(f"{what}: einsum `{e.args[0].value}`")
        if f == "np.prod" and len(e.args) == 1 and not e.keywords:
            a = e.args[0]
            if (isinstance(a, ast.Subscript) and isinstance(a.value, ast.Attribute) and a.value.attr == "shape" and isinstance(a.slice, ast.Slice)
                    and a.slice.upper is None and a.slice.step is None and (a.slice.lower is None or (int_const(a.slice.lower) is not None and int_const(a.slice.lower) >= 0))):
                lo = 0 if a.slice.lower is None else int_const(a.slice.lower)
                return f"(.prodShapeFrom {R(a.value.value)} {lo})"
            raise Untranslatable(f"{what}: np.prod of `{ast.unparse(a)[:40]}`")
        if isinstance(e.func, ast.Attribute) and e.func.attr == "max" and not e.args and not e.keywords:
            return f"(.amax {R(e.func.value)})"
        if f == "np.arange" and not e.keywords and len(e.args) in (1, 2):
            lo = "(.lit 0)" if len(e.args) == 1 else R(e.args[0])
            return f"(.arange {lo} {R(e.args[-1])})"
        if f == "measurements.sum":
            pos = list(e.args)
            kws = {k.arg: k.value for k in e.keywords}
            names = ["input", "labels", "index"]
            if len(pos) > 3 or any(k not in names[len(pos):] for k in kws) or len(pos) + len(kws) != 3:
                raise Untranslatable(f"{what}: `{ast.unparse(e)[:70]}`")
            full = pos + [kws[n] for n in names[len(pos):]]
            return f"(.labelSum {R(full[0])} {R(full[1])} {R(full[2])})"
    raise Untranslatable(f"{what}: expression `{ast.unparse(e)[:60]}`")


def a_body(stmts, data, res, what):
    env = {data: ".inst"}
    for st in stmts:
        if not isinstance(st, ast.Assign) or len(st.targets) != 1:
            raise Untranslatable(f"{what}: statement `{ast.unparse(st)[:60]}`")
        tg, v = st.targets[0], st.value
        if isinstance(tg, ast.Tuple):
            # `<labels>, _ = measurements.label(<a>)`
            if not (len(tg.elts) == 2 and all(_is_name(x) for x in tg.elts) and isinstance(v, ast.Call) and ast.unparse(v.func) == "measurements.label"
                    and len(v.args) == 1 and not v.keywords):
                raise Untranslatable(f"{what}: statement `{ast.unparse(st)[:60]}`")
            env[tg.elts[1].id] = None  # the number of features: not read by the recognised shapes
            env[tg.elts[0].id] = f"(.label0 {a_expr(v.args[0], env, what)})"
        elif _is_name(tg):
            env[tg.id] = a_expr(v, env, what)
        else:
            raise Untranslatable(f"{what}: statement `{ast.unparse(st)[:60]}`")
    if env.get(res) is None:
        raise Untranslatable(f"{what}: the reported local `{res}` is not computed by the body")
    return env[res]


def gen_grid_method(tree, cls, func, lean):
    fn = find_method(cls, func)
    if pos_params(fn, True):
        raise Untranslatable(f"{func}: positional parameters")
    head, data, stmts, res = read_head(fn, func)
    if any("measurements" in ast.unparse(s) for s in stmts):
        scipy_name(tree, "measurements", "scipy.ndimage")
    body = a_body(stmts, data, res, func)
    return (lean_head(f"{lean}_head", head, f"generated from `{SRC}`: `ThresholdMetric.{func}`, the statements around the per-data-set body")
            + f"\n/-- generated from `{SRC}`: `ThresholdMetric.{func}`, the value of the reported column as an expression of the "
              f"instances array of one data set -/\ndef {lean}_body : Model.NpGrid.A :=\n  {body}\n")


# -- the loop nest of the annual functions
def gen_annual_loop(fn, what, lean):
    body = strip_doc(fn.body)
    params = pos_params(fn, True)
    loops = [k for k, s in enumerate(body) if isinstance(s, ast.For)]
    if len(loops) != 1 or loops[0] != len(body) - 2 or not isinstance(body[-1], ast.Return) or not params:
        raise Untranslatable(f"{what}: expected `…; for …: for …: …; return <array>`")
    outer = body[loops[0]]
    if len(outer.body) != 1 or not isinstance(outer.body[0], ast.For) or outer.orelse or outer.body[0].orelse or len(outer.body[0].body) != 1:
        raise Untranslatable(f"{what}: loop nest")
    inner = outer.body[0]
    st = inner.body[0]
    if not (isinstance(st, ast.Assign) and isinstance(st.value, ast.ListComp) and len(st.targets) == 1 and isinstance(st.targets[0], ast.Subscript)
            and _is_name(st.targets[0].value) and isinstance(st.targets[0].slice, ast.Tuple) and len(st.targets[0].slice.elts) == 3):
        raise Untranslatable(f"{what}: store")
    out = st.targets[0].value.id
    sl = st.targets[0].slice.elts
    if not (isinstance(sl[0], ast.Slice) and sl[0].lower is None and sl[0].upper is None and sl[0].step is None):
        raise Untranslatable(f"{what}: the store is not on a full slice of axis 0")
    comp = st.value
    if len(comp.generators) != 1 or not _is_name(comp.generators[0].iter):
        raise Untranslatable(f"{what}: comprehension")
    years = comp.generators[0].iter.id
    j, k = outer.target, inner.target
    if not (_is_name(j) and _is_name(k)):
        raise Untranslatable(f"{what}: loop targets")
    vals = {n.value.id for n in ast.walk(comp.elt) if isinstance(n, ast.Subscript) and isinstance(n.slice, ast.Tuple) and _is_name(n.value)}
    if len(vals) != 1:
        raise Untranslatable(f"{what}: the comprehension reads {sorted(vals)}")
    values = vals.pop()

    def dim(e):
        if (isinstance(e, ast.Subscript) and isinstance(e.value, ast.Attribute) and e.value.attr == "shape" and _is_name(e.value.value)
                and int_const(e.slice) is not None and int_const(e.slice) >= 0):
            n, kk = e.value.value.id, int_const(e.slice)
            if n == years and kk == 0:
                return ".years"
            if n == params[0]:
                return f"(.data {kk})"
            if n == values:
                return f"(.values {kk})"
        raise Untranslatable(f"{what}: dimension `{ast.unparse(e)[:40]}`")

    def rng(loop):
        it = loop.iter
        if not (isinstance(it, ast.Call) and _is_name(it.func, "range") and len(it.args) == 1 and not it.keywords):
            raise Untranslatable(f"{what}: loop over `{ast.unparse(it)[:40]}`")
        return dim(it.args[0])

    allocs = [s for s in body[:loops[0]] if isinstance(s, ast.Assign) and len(s.targets) == 1 and _is_name(s.targets[0], out)]
    if len(allocs) != 1 or body[loops[0] - 1] is not allocs[0]:
        raise Untranslatable(f"{what}: `{out}` is not allocated by the statement before the loops")
    al = allocs[0].value
    if not (isinstance(al, ast.Call) and ast.unparse(al.func) == "np.zeros" and len(al.args) == 1 and not al.keywords and isinstance(al.args[0], ast.Tuple)):
        raise Untranslatable(f"{what}: allocation `{ast.unparse(al)[:50]}`")
    dims = [dim(x) for x in al.args[0].elts]
    b = lambda c: "true" if c else "false"
    return (f"/-- generated from `{SRC}`: `{what}`, the allocation, the loop nest and the store around the per-year comprehension -/\n"
            f"def {lean}_loop : Model.NpGrid.AnnualLoop :=\n  {{ alloc := [{', '.join(dims)}], outer := {rng(outer)}, inner := {rng(inner)},\n"
            f"    storeOuter := {b(ast.unparse(sl[1]) == j.id)}, storeInner := {b(ast.unparse(sl[2]) == k.id)}, "
            f"returnsAlloc := {b(_is_name(body[-1].value, out))} }}\n")


# -- `_get_quantile_by_locality`, `_get_threshold_from_quantile`
class CanonComp(ast.NodeTransformer):
    """the variable of a one-generator dict comprehension is renamed `cv_` (its name is not part of the tie)"""

    def visit_DictComp(self, n):
        n = self.generic_visit(n)
        if len(n.generators) == 1 and isinstance(n.generators[0].target, ast.Name) and not n.generators[0].ifs:
            return subst_names(n, {n.generators[0].target.id: "cv_"})
        return n


def gen_quantile_by_locality(cls):
    fn = find_method(cls, "_get_quantile_by_locality")
    p = pos_params(fn, False)
    if len(p) != 5:
        raise Untranslatable("_get_quantile_by_locality: expected (x, q, time, threshold_scope, threshold_locality)")
    x, q, time, scope, loc = p
    for n in ast.walk(fn):
        if isinstance(n, ast.Name) and n.id == "cv_":
            raise Untranslatable("_get_quantile_by_locality: reserved name")
    fn = CanonComp().visit(copy.deepcopy(fn))
    env = {x: (lname(x), "ξ"), q: (lname(q), "κ"), time: (lname(time), "γ"), scope: (lname(scope), STR), loc: (lname(loc), STR)}
    tps = [
        Template("np.quantile(_1, _2)", "quantile_flat", ["ξ", "κ"], "σ"),
        Template("np.quantile(_1, _2, axis=0)", "quantile_axis0", ["ξ", "κ"], "σ"),
        Template("{cv_: np.quantile(_1[np.where(_2 == cv_)], _3) for cv_ in np.unique(_2)}", "group_quantile_flat", ["ξ", "γ", "κ"], "σ"),
        Template("{cv_: [np.quantile(_1[np.where(_2 == cv_)], _3, axis=0)] for cv_ in np.unique(_2)}", "group_quantile_axis0", ["ξ", "γ", "κ"], "σ"),
    ]
    d = Disp("_get_quantile_by_locality", env, tps, "σ")
    return emit_def("quantile_by_locality", "{ξ κ γ σ : Type}",
                    [("quantile_flat quantile_axis0", "ξ → κ → σ"), ("group_quantile_flat group_quantile_axis0", "ξ → γ → κ → σ"),
                     (lname(x), "ξ"), (lname(q), "κ"), (lname(time), "γ"), (lname(scope), STR), (lname(loc), STR)], "σ",
                    d.block(strip_doc(fn.body), env, 2),
                    f"generated from `{SRC}`: `ThresholdMetric._get_quantile_by_locality` (the four `np.quantile` pipelines are parameters: "
                    "whole array, `axis=0`, and the dict comprehensions over `np.unique(time)` of either on `x[np.where(time == t)]`)")


def gen_threshold_from_quantile(cls):
    fn = find_method(cls, "_get_threshold_from_quantile")
    p = pos_params(fn, False)
    if len(p) != 5:
        raise Untranslatable("_get_threshold_from_quantile: expected (x, q, time, threshold_scope, threshold_locality)")
    x, q, time, scope, loc = p
    env = {x: (lname(x), "ξ"), q: (lname(q), "κ"), time: (lname(time), "Option τ"), scope: (lname(scope), STR), loc: (lname(loc), STR)}
    tps = [
        Template("ThresholdMetric._get_time_group_by_scope(_1, _2)", "time_group_by_scope day_of_year month season", ["Option τ", STR], "Option γ", bind=True),
        Template("ThresholdMetric._get_quantile_by_locality(_1, _2, _3, _4, _5)", "quantile_by_locality quantile_flat quantile_axis0 group_quantile_flat group_quantile_axis0",
                 ["ξ", "κ", "Option γ", STR, STR], "σ", bind=True),
    ]

    def warn_only(st):
        # `ThresholdMetric._check_completeness_of_time_categories_and_warn(<thresholds>, <scope>)`: warnings for absent keys; its only
        # `raise` (an unknown scope) is behind `_get_time_group_by_scope`, which raises first
        return (isinstance(st, ast.Expr) and isinstance(st.value, ast.Call) and not st.value.keywords and len(st.value.args) == 2
                and ast.unparse(st.value.func) == "ThresholdMetric._check_completeness_of_time_categories_and_warn"
                and _is_name(st.value.args[1], scope) and _is_name(st.value.args[0]))

    d = Disp("_get_threshold_from_quantile", env, tps, "σ", layout=warn_only)
    return emit_def("threshold_from_quantile", "{τ γ ξ κ σ : Type}",
                    [("day_of_year month season", "τ → γ"), ("quantile_flat quantile_axis0", "ξ → κ → σ"),
                     ("group_quantile_flat group_quantile_axis0", "ξ → Option γ → κ → σ"),
                     (lname(x), "ξ"), (lname(q), "κ"), (lname(time), "Option τ"), (lname(scope), STR), (lname(loc), STR)], "σ",
                    d.block(strip_doc(fn.body), env, 2),
                    f"generated from `{SRC}`: `ThresholdMetric._get_threshold_from_quantile`: the time groups of the scope, then the quantiles "
                    "by locality (the completeness check only warns)")


def gen_check_types_locality(cls):
    fn = find_method(cls, "_check_types_locality")
    p = pos_params(fn, False)
    if len(p) != 2:
        raise Untranslatable("_check_types_locality: expected (threshold_value, threshold_locality)")
    v, loc = p
    env = {v: (lname(v), "σ"), loc: (lname(loc), STR)}
    tps = [Template("isinstance(_1, (float, int))", "is_number", ["σ"], BOOL),
           Template("isinstance(_1, (np.ndarray, list))", "is_array_or_list", ["σ"], BOOL)]
    d = Disp("_check_types_locality", env, tps, "Unit", implicit_return="()")
    return emit_def("check_types_locality", "{σ : Type}", [("is_number is_array_or_list", "σ → Bool"), (lname(v), "σ"), (lname(loc), STR)], "Unit",
                    d.block(strip_doc(fn.body), env, 2),
                    f"generated from `{SRC}`: `ThresholdMetric._check_types_locality` (the constructor's type check of one threshold)")


def generate_part2(tree, cls, section):
    am = find_class(tree, "AccumulativeThresholdMetric")
    section("calculate_spatiotemporal_clusters", lambda: gen_grid_method(tree, cls, "calculate_spatiotemporal_clusters", "clusters"))
    section("calculate_spatial_extent", lambda: gen_grid_method(tree, cls, "calculate_spatial_extent", "spatial_extent"))
    section("_get_quantile_by_locality", lambda: gen_quantile_by_locality(cls))
    section("_get_threshold_from_quantile", lambda: gen_threshold_from_quantile(cls))
    section("_check_types_locality", lambda: gen_check_types_locality(cls))
    section("calculate_number_annual_days_beyond_threshold (loop nest)", lambda: gen_annual_loop(
        find_method(cls, "calculate_number_annual_days_beyond_threshold"), "ThresholdMetric.calculate_number_annual_days_beyond_threshold", "annual_counts"))
    section("calculate_annual_value_beyond_threshold (loop nest)", lambda: gen_annual_loop(
        find_method(am, "calculate_annual_value_beyond_threshold"), "AccumulativeThresholdMetric.calculate_annual_value_beyond_threshold", "annual_values"))



# ---------------------------------------------------------------------------------------------- driver
def generate(repo):
    errors = []
    out = ["", "import IbicusModel.Model.Py", "import IbicusModel.Model.NpExpr", "import IbicusModel.Model.NpGrid", "", "namespace Gen.Metrics", ""]
    tree = ast.parse(open(os.path.join(repo, SRC)).read())
    cls = find_class(tree, "ThresholdMetric")

    def section(label, f):
        try:
            r = f()
            for t in (r if isinstance(r, tuple) else (r,)):
                out.append(t)
        except Untranslatable as ex:
            errors.append(f"untranslatable:{label}: {ex}")

    section("_get_time_group_by_scope", lambda: gen_time_group(cls))
    section("_get_mask_higher_or_lower", lambda: gen_cmp_and_scope(cls))
    section("_get_mask_threshold_condition", lambda: gen_condition(cls))
    section("from_quantile", lambda: gen_from_quantile(cls))
    section("_calculate_spell_lengths_one_location", lambda: gen_spell_expr(cls))
    section("calculate_spell_length", lambda: gen_spell_loop(cls))
    text, errs = gen_formulas(tree)
    out.append(text)
    errors.extend(errs)
    generate_part2(tree, cls, section)
    out.append("end Gen.Metrics")
    return "\n".join(out) + "\n", errors


if __name__ == "__main__":
    t, e = generate(sys.argv[1] if len(sys.argv) > 1 else "/repo")
    print(t)
    print(e, file=sys.stderr)
