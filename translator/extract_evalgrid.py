"""
Tier-A extractor for C20, grid level ("C20 tier A, grid"): the *structure* of `ibicus/evaluate/{trend,marginal,multivariate,
correlation}.py` above the per-location formulas, regenerated from /repo's current AST as data in the DSL of
`lean/IbicusModel/Model/EvalGrid.lean`.

  part A  the helpers `_calculate_{mean,quantile,metrics}_trend(_bias)`, `_marginal_*`, `_calculate_chi` as GRID programs
          (`Prog`): which reduction over time (`np.mean(·, axis=0)`, `np.quantile(·, quantile, axis=0)`, the metric's exceedance
          probability with which `time`, `np.einsum("ijk -> jk", ·)`) of WHICH data set enters where in the arithmetic, the
          branch on the string parameter, and the global guards `np.all(… != 0)` / `np.any(… == 0)` of the multiplicative
          paths (decided for the whole grid, before anything is divided);
  part B  the public functions `calculate_future_trend_bias`, `calculate_future_trend`, `calculate_marginal_bias`,
          `calculate_bias_days_metrics`, `calculate_conditional_joint_threshold_exceedance` as frame specifications
          (`FrameSpec`): the loop nest (outer loop over the keyword data sets, inner loops over `statistics` then `metrics`),
          the input checks in order, and for every place a row is appended: under which conditions, WHICH helper is called with
          WHICH caller-side value bound to WHICH of the helper's parameters (Python's binding: positional, `*value` after the
          length-2 check, keywords), whether the row is dropped on `inf`, and the columns;
  part C  `rmse_spatial_correlation_distribution` (`RmseSpec`): the loops (`np.ndindex` = row-major), which slices are
          correlated into which matrix, `mean_squared_error` then `sqrt`, the columns; `_unpack_df_of_numpy_arrays` and
          `_check_if_list_of_two_and_unpack_else_none` (the flatten order and their alpha-normalised text).

How names are treated.  A local stands for what it was assigned (plain assignment, walrus, tuple unpacking of the checked
helper, `t[t == 0] = 2`); loop variables are canonical (`KEY`, `VALUE`, `ITEM`, `A B I J K`); a call of a helper is bound to the
helper's CURRENT signature.  So a rename of a local / loop variable changes nothing, and reading another data set, another
`time`, `np.any` for `np.all`, another loop order, another argument position or flatten order changes the data.
Function parameters are interface names and part of the identity.  Ignored: docstrings, annotations, the text of warnings and
exception messages (not their class / place), `stacklevel`.  Anything outside the recognised shapes raises `Bad`
(`untranslatable:…`, a broken tie); the extractor never guesses.
"""
import ast
import copy
import os
import re
from fractions import Fraction

T, M, V, C, U = ("ibicus/evaluate/trend.py", "ibicus/evaluate/marginal.py", "ibicus/evaluate/multivariate.py",
                 "ibicus/evaluate/correlation.py", "ibicus/utils/_utils.py")

HELPERS = [
    (T, "_calculate_mean_trend_bias"), (T, "_calculate_mean_trend"),
    (T, "_calculate_quantile_trend_bias"), (T, "_calculate_quantile_trend"),
    (T, "_calculate_metrics_trend_bias"), (T, "_calculate_metrics_trend"),
    (M, "_marginal_mean_bias"), (M, "_marginal_quantile_bias"), (M, "_marginal_metrics_bias"),
    (M, "_marginal_metrics_absolute_bias"),
    (V, "_calculate_chi"),
]
FRAMES = [
    (T, "calculate_future_trend_bias"), (T, "calculate_future_trend"),
    (M, "calculate_marginal_bias"), (M, "calculate_bias_days_metrics"),
    (V, "calculate_conditional_joint_threshold_exceedance"),
]
ALPHA = [(U, "_unpack_df_of_numpy_arrays"), (U, "_check_if_list_of_two_and_unpack_else_none")]
GLOBAL_NAMES = {"np", "pd", "str", "len", "isinstance", "list", "tuple", "warnings", "warning", "math", "sklearn", "int"}
REQUIRED_IMPORTS = {T: {("numpy", "np"), ("pandas", "pd"), ("warnings", None)}, M: {("numpy", "np"), ("pandas", "pd"), ("warnings", None)},
                    V: {("numpy", "np"), ("pandas", "pd")}, C: {("numpy", "np"), ("pandas", "pd"), ("math", None), ("sklearn.metrics", None)},
                    U: {("numpy", "np"), ("pandas", "pd")}}


class Bad(Exception):
    pass


class Unbound(Exception):
    pass


def lstr(s):
    return '"' + s.replace("\\", "\\\\").replace('"', '\\"').replace("\n", " ") + '"'


def dotted(node):
    if isinstance(node, ast.Name):
        return node.id
    if isinstance(node, ast.Attribute):
        d = dotted(node.value)
        return None if d is None else d + "." + node.attr
    return None


def is_doc(s):
    return isinstance(s, ast.Expr) and isinstance(s.value, ast.Constant) and isinstance(s.value.value, str)


def params_of(fn):
    a = fn.args
    if a.vararg or a.kwonlyargs or a.posonlyargs or fn.decorator_list:
        raise Bad(f"{fn.name}: unsupported signature")
    names = [p.arg for p in a.args]
    for n in names + ([a.kwarg.arg] if a.kwarg else []):
        if n in GLOBAL_NAMES:
            raise Bad(f"{fn.name}: parameter named {n!r}")
    ndef = len(a.defaults)
    required = names[:len(names) - ndef] if ndef else names
    return names, required, (a.kwarg.arg if a.kwarg else None)


# =================================================================== part A: helpers -> Prog
# values:  ("arg", name) | ("stat", S) | GE tuples | IE tuples | ("eqB", ie, ie) | ("eqMask", ie, int)
def ge(v, where):
    if v[0] in ("stat", "lit", "add", "sub", "mul", "div"):
        return v
    raise Bad(f"{where}: a per-location value was expected, got {v[0]}")


def is_ie(v):
    return v[0] in ("inst", "setWhereEq", "eqInt")


def a_name(v, where):
    if v[0] != "arg":
        raise Bad(f"{where}: a parameter (data set / time) was expected, got {v[0]}")
    return v[1]


def kw_only(call, allowed, where):
    got = {}
    for k in call.keywords:
        if k.arg not in allowed or k.arg in got:
            raise Bad(f"{where}: unexpected keyword {k.arg!r}")
        got[k.arg] = k.value
    return got


def axis0(call, where):
    kws = kw_only(call, ("axis",), where)
    if "axis" not in kws or not (isinstance(kws["axis"], ast.Constant) and kws["axis"].value == 0 and not isinstance(kws["axis"].value, bool)):
        raise Bad(f"{where}: reduction without axis=0")


def hev(node, env, where0):
    where = f"{where0}:{getattr(node, 'lineno', '?')}"
    if isinstance(node, ast.Name):
        if node.id in env:
            return env[node.id]
        raise Unbound(node.id)
    if isinstance(node, ast.Constant):
        v = node.value
        if isinstance(v, bool) or not isinstance(v, (int, float)):
            raise Bad(f"{where}: unsupported constant {v!r}")
        return ("lit", Fraction(str(v)))
    if isinstance(node, ast.NamedExpr):
        if not isinstance(node.target, ast.Name) or node.target.id in GLOBAL_NAMES:
            raise Bad(f"{where}: walrus target")
        v = hev(node.value, env, where0)
        env[node.target.id] = v
        return v
    if isinstance(node, ast.BinOp):
        ops = {ast.Add: "add", ast.Sub: "sub", ast.Mult: "mul", ast.Div: "div"}
        if type(node.op) not in ops:
            raise Bad(f"{where}: unsupported operator {type(node.op).__name__}")
        left = hev(node.left, env, where0)
        right = hev(node.right, env, where0)
        return (ops[type(node.op)], ge(left, where), ge(right, where))
    if isinstance(node, ast.Compare):
        if len(node.ops) != 1 or not isinstance(node.ops[0], ast.Eq):
            raise Bad(f"{where}: unsupported comparison {ast.unparse(node)[:60]}")
        left = hev(node.left, env, where0)
        rn = node.comparators[0]
        if is_ie(left) and isinstance(rn, ast.Constant) and isinstance(rn.value, int) and not isinstance(rn.value, bool):
            return ("eqMask", left, rn.value)
        right = hev(rn, env, where0)
        if is_ie(left) and is_ie(right):
            return ("eqB", left, right)
        raise Bad(f"{where}: unsupported comparison {ast.unparse(node)[:60]}")
    if isinstance(node, ast.Call):
        f = node.func
        name = dotted(f)
        if name == "np.mean":
            axis0(node, where)
            if len(node.args) != 1:
                raise Bad(f"{where}: np.mean arguments")
            return ("stat", ("mean", a_name(hev(node.args[0], env, where0), where)))
        if name == "np.quantile":
            axis0(node, where)
            if len(node.args) != 2:
                raise Bad(f"{where}: np.quantile arguments")
            if hev(node.args[1], env, where0) != ("arg", "quantile"):
                raise Bad(f"{where}: np.quantile at something that is not the parameter `quantile`")
            return ("stat", ("quantile", a_name(hev(node.args[0], env, where0), where)))
        if name == "np.einsum":
            kw_only(node, (), where)
            if len(node.args) != 2 or not (isinstance(node.args[0], ast.Constant) and node.args[0].value == "ijk -> jk"):
                raise Bad(f"{where}: np.einsum is only supported as einsum('ijk -> jk', x)")
            x = hev(node.args[1], env, where0)
            if not is_ie(x):
                raise Bad(f"{where}: einsum of something that is not an instance array")
            return ("stat", ("sumT", x))
        if isinstance(f, ast.Attribute) and f.attr == "astype":
            kw_only(node, (), where)
            if len(node.args) != 1 or not (isinstance(node.args[0], ast.Name) and node.args[0].id == "int" and "int" not in env):
                raise Bad(f"{where}: unsupported .astype")
            b = hev(f.value, env, where0)
            if b[0] != "eqB":
                raise Bad(f"{where}: .astype(int) of something that is not `a == b`")
            return ("eqInt", b[1], b[2])
        if isinstance(f, ast.Attribute) and isinstance(f.value, ast.Name) and f.value.id in env and env[f.value.id][0] == "arg":
            obj = env[f.value.id][1]
            kws = kw_only(node, ("time",), where)
            if len(node.args) != 1 or "time" not in kws:
                raise Bad(f"{where}: metric method arguments (expected (data, time=…))")
            ds = a_name(hev(node.args[0], env, where0), where)
            tm = a_name(hev(kws["time"], env, where0), where)
            if f.attr == "calculate_exceedance_probability":
                if obj != "metric":
                    raise Bad(f"{where}: exceedance probability of {obj!r}")
                return ("stat", ("prob", ds, tm))
            if f.attr == "calculate_instances_of_threshold_exceedance":
                return ("inst", obj, ds, tm)
        raise Bad(f"{where}: unsupported call {ast.unparse(f)[:60]}")
    raise Bad(f"{where}: unsupported expression {type(node).__name__}: {ast.unparse(node)[:60]}")


def hcond(node, env, where0):
    """condition of an `if`; walrus bindings go into env"""
    where = f"{where0}:{getattr(node, 'lineno', '?')}"
    if isinstance(node, ast.BoolOp):
        tag = "and" if isinstance(node.op, ast.And) else "or"
        parts = [hcond(v, env, where0) for v in node.values]
        out = parts[0]
        for p in parts[1:]:
            out = (tag, out, p)
        return out
    if isinstance(node, ast.Call) and dotted(node.func) in ("np.all", "np.any"):
        q = dotted(node.func)[3:]
        kw_only(node, (), where)
        if len(node.args) != 1 or not isinstance(node.args[0], ast.Compare) or len(node.args[0].ops) != 1:
            raise Bad(f"{where}: np.{q} of something that is not a comparison with 0")
        cmpn = node.args[0]
        rn = cmpn.comparators[0]
        if not (isinstance(rn, ast.Constant) and rn.value == 0 and not isinstance(rn.value, bool)):
            raise Bad(f"{where}: np.{q}: comparison with something that is not 0")
        op = {ast.NotEq: "Ne0", ast.Eq: "Eq0"}.get(type(cmpn.ops[0]))
        if op is None:
            raise Bad(f"{where}: np.{q}: unsupported comparison")
        v = hev(cmpn.left, env, where0)
        if v[0] != "stat":
            raise Bad(f"{where}: np.{q} over something that is not a reduction over time")
        return (q + op, v[1])
    if isinstance(node, ast.Compare) and len(node.ops) == 1:
        left = hev(node.left, env, where0)
        rn = node.comparators[0]
        if left[0] == "arg" and isinstance(rn, ast.Constant) and isinstance(rn.value, str) and isinstance(node.ops[0], ast.Eq):
            return ("strEq", left[1], rn.value)
        qops = {ast.Lt: "qLt", ast.Gt: "qGt", ast.LtE: "qLe", ast.GtE: "qGe"}
        if left == ("arg", "quantile") and type(node.ops[0]) in qops and isinstance(rn, ast.Constant) \
                and isinstance(rn.value, (int, float)) and not isinstance(rn.value, bool):
            return (qops[type(node.ops[0])], Fraction(str(rn.value)))
    raise Bad(f"{where}: unsupported condition {ast.unparse(node)[:70]}")


def hrun(stmts, env, where0, depth=0):
    """CPS evaluation: the program of a block followed by nothing (must return / raise on every path)"""
    if depth > 40:
        raise Bad(f"{where0}: too deep")
    for i, s in enumerate(stmts):
        where = f"{where0}:{s.lineno}"
        rest = stmts[i + 1:]
        if is_doc(s):
            continue
        try:
            if isinstance(s, ast.Assign):
                if len(s.targets) != 1:
                    raise Bad(f"{where}: chained assignment")
                tg = s.targets[0]
                if isinstance(tg, ast.Name):
                    if tg.id in GLOBAL_NAMES:
                        raise Bad(f"{where}: {tg.id!r} is rebound")
                    env[tg.id] = hev(s.value, env, where0)
                    continue
                if isinstance(tg, ast.Subscript) and isinstance(tg.value, ast.Name):
                    old = hev(tg.value, env, where0)
                    if not is_ie(old):
                        raise Bad(f"{where}: in-place update of something that is not an instance array")
                    if [k for k, v in env.items() if v is old and k != tg.value.id]:
                        raise Bad(f"{where}: in-place update of an aliased array")
                    m = hev(tg.slice, env, where0)
                    if m[0] != "eqMask" or m[1] is not old:
                        raise Bad(f"{where}: only `t[t == c] = v` is supported")
                    if not (isinstance(s.value, ast.Constant) and isinstance(s.value.value, int) and not isinstance(s.value.value, bool)):
                        raise Bad(f"{where}: mask assignment of a non-literal")
                    env[tg.value.id] = ("setWhereEq", old, m[2], s.value.value)
                    continue
                raise Bad(f"{where}: unsupported assignment target")
            if isinstance(s, ast.Return):
                if s.value is None:
                    raise Bad(f"{where}: bare return")
                return ("ret", ge(hev(s.value, env, where0), where))
            if isinstance(s, ast.Raise):
                exc = s.exc.func if isinstance(s.exc, ast.Call) else s.exc
                if not isinstance(exc, ast.Name) or s.cause is not None:
                    raise Bad(f"{where}: unsupported raise")
                return ("raise", exc.id)
            if isinstance(s, ast.If):
                env_t = dict(env)
                c = hcond(s.test, env_t, where0)
                env_e = dict(env)
                # the else branch sees only what the FIRST conjunct bound (short circuit)
                first = s.test.values[0] if isinstance(s.test, ast.BoolOp) else s.test
                hcond(first, env_e, where0)
                th = hrun(list(s.body) + rest, env_t, where0, depth + 1)
                el = hrun(list(s.orelse) + rest, env_e, where0, depth + 1)
                return ("ite", c, th, el)
            raise Bad(f"{where}: unsupported statement {type(s).__name__}")
        except Unbound:
            return ("raise", "UnboundLocalError")
    raise Bad(f"{where0}: a path falls off the end without return")


def r_rat(q):
    return f"({q.numerator} : Rat)" if q.denominator == 1 else f"(({q.numerator} : Rat) / {q.denominator})"


def r_ie(v):
    if v[0] == "inst":
        return f"(.inst {lstr(v[1])} {lstr(v[2])} {lstr(v[3])})"
    if v[0] == "setWhereEq":
        return f"(.setWhereEq {r_ie(v[1])} ({v[2]}) ({v[3]}))"
    if v[0] == "eqInt":
        return f"(.eqInt {r_ie(v[1])} {r_ie(v[2])})"
    raise Bad(f"render: {v[0]}")


def r_stat(s):
    if s[0] == "sumT":
        return f"(.sumT {r_ie(s[1])})"
    return "(." + s[0] + " " + " ".join(lstr(x) for x in s[1:]) + ")"


def r_ge(v):
    if v[0] == "stat":
        return f"(.stat {r_stat(v[1])})"
    if v[0] == "lit":
        return f"(.lit {r_rat(v[1])})"
    return f"(.{v[0]} {r_ge(v[1])} {r_ge(v[2])})"


def r_cond(c):
    if c[0] == "strEq":
        return f"(.strEq {lstr(c[1])} {lstr(c[2])})"
    if c[0] in ("qLt", "qGt", "qLe", "qGe"):
        return f"(.{c[0]} {r_rat(c[1])})"
    if c[0] in ("and", "or"):
        return f"(.{c[0]} {r_cond(c[1])} {r_cond(c[2])})"
    return f"(.{c[0]} {r_stat(c[1])})"


def r_prog(p, ind="  "):
    if p[0] == "ret":
        return f"{ind}(.ret {r_ge(p[1])})"
    if p[0] == "raise":
        return f"{ind}(.raise {lstr(p[1])})"
    return f"{ind}(.ite {r_cond(p[1])}\n{r_prog(p[2], ind + '  ')}\n{r_prog(p[3], ind + '  ')})"


def helper_prog(fn):
    names, _, kw = params_of(fn)
    if kw:
        raise Bad(f"{fn.name}: **kwargs")
    env = {n: ("arg", n) for n in names}
    return names, hrun(list(fn.body), env, fn.name)


# =================================================================== part B: public functions -> FrameSpec
class CallV:
    count = 0

    def __init__(self, callee, args):
        self.callee, self.args = callee, args
        CallV.count += 1
        self.token = f"__C{CallV.count}__"


TOKEN = re.compile(r"__C\d+__")


class Frame:
    def __init__(self, fn, funcs, util_funcs):
        self.fn, self.funcs, self.util = fn, funcs, util_funcs
        self.names, _, self.kw = params_of(fn)
        if not self.kw:
            raise Bad(f"{fn.name}: no ** data sets")
        self.checks, self.rows, self.warns = [], [], []
        self.outer = None
        self.outer_done = False
        self.returned = False
        self.inner = []
        self.acc = None
        self.len2 = False
        self.result = None
        self.registry = {}

    # ---- canonical form of an expression: locals substituted, helper calls replaced by their token
    def canon(self, node, env):
        fr = self

        class Sub(ast.NodeTransformer):
            def visit_Name(self, n):
                if n.id in env:
                    return copy.deepcopy(env[n.id])
                if n.id in fr.names or n.id == fr.kw or n.id in GLOBAL_NAMES:
                    return n
                raise Bad(f"{fr.fn.name}:{n.lineno}: unbound local {n.id!r}")

            def visit_Call(self, n):
                if isinstance(n.func, ast.Name) and n.func.id not in env and (n.func.id in fr.funcs or n.func.id in fr.util):
                    v = fr.bind(n, env)
                    fr.registry[v.token] = v
                    return ast.Name(id=v.token, ctx=ast.Load())
                return self.generic_visit(n)

            def visit_NamedExpr(self, n):
                raise Bad(f"{fr.fn.name}:{n.lineno}: walrus in a public function")

            def visit_Lambda(self, n):
                raise Bad(f"{fr.fn.name}:{n.lineno}: lambda in a public function")

        return Sub().visit(copy.deepcopy(node))

    def raw(self, node, env):
        return ast.unparse(self.canon(node, env))

    def pure(self, node, env, where):
        t = self.raw(node, env)
        if TOKEN.search(t):
            raise Bad(f"{where}: helper call not allowed here")
        return t

    def number(self, texts):
        """rename the call tokens to CALL0, CALL1, … in order of first appearance; returns (texts, calls)"""
        order = []
        for t in texts:
            for tok in TOKEN.findall(t):
                if tok not in order:
                    order.append(tok)
        out = []
        for t in texts:
            out.append(TOKEN.sub(lambda m: f"CALL{order.index(m.group(0))}", t))
        return out, [self.registry[tok] for tok in order]

    def bind(self, call, env):
        """Python's argument binding of a helper call against the helper's current signature"""
        where = f"{self.fn.name}:{call.lineno}"
        name = call.func.id
        target = self.funcs.get(name) or self.util.get(name)
        pnames, required, kw = params_of(target)
        if kw:
            raise Bad(f"{where}: callee {name} takes **kwargs")
        actual = []
        for a in call.args:
            if isinstance(a, ast.Starred):
                if not (isinstance(a.value, ast.Name) and a.value.id in env and isinstance(env[a.value.id], ast.Name)
                        and env[a.value.id].id == "VALUE" and self.len2):
                    raise Bad(f"{where}: `*` of something that is not the length-2-checked loop value")
                actual += ["VALUE[0]", "VALUE[1]"]
            else:
                actual.append(self.pure(a, env, where))
        if len(actual) > len(pnames):
            raise Bad(f"{where}: too many positional arguments for {name}")
        bound = list(zip(pnames, actual))
        seen = {p for p, _ in bound}
        for k in call.keywords:
            if k.arg is None or k.arg not in pnames or k.arg in seen:
                raise Bad(f"{where}: keyword {k.arg!r} for {name}")
            bound.append((k.arg, self.pure(k.value, env, where)))
            seen.add(k.arg)
        missing = [p for p in required if p not in seen]
        if missing:
            raise Bad(f"{where}: {name} called without {missing}")
        order = {p: i for i, p in enumerate(pnames)}
        bound.sort(key=lambda pa: order[pa[0]])
        return CallV(name, bound)

    # ---- path conditions
    def pc(self, test, env):
        t = self.pure(test, env, f"{self.fn.name}:{test.lineno}")
        if t == "ITEM == 'mean'":
            return ("isMean",)
        if t == "ITEM <= 1 and ITEM >= 0":
            return ("qIn01",)
        for p in self.names:
            for lit in ("percentage", "absolute"):
                if t == f"{p} == '{lit}'":
                    return ("strEq", p, lit)
        raise Bad(f"{self.fn.name}:{test.lineno}: unsupported condition `{t}`")

    def is_warn(self, s):
        return isinstance(s, ast.Expr) and isinstance(s.value, ast.Call) and dotted(s.value.func) in ("warnings.warn", "warning")

    def emit_of(self, s, env):
        """`ACC.append(pd.DataFrame(data={…}))` -> [(column, raw text)] or None"""
        if not (isinstance(s, ast.Expr) and isinstance(s.value, ast.Call) and isinstance(s.value.func, ast.Attribute)
                and s.value.func.attr == "append" and isinstance(s.value.func.value, ast.Name) and s.value.func.value.id == self.acc):
            return None
        c = s.value
        where = f"{self.fn.name}:{s.lineno}"
        if len(c.args) != 1 or c.keywords:
            raise Bad(f"{where}: append arguments")
        df = c.args[0]
        if not (isinstance(df, ast.Call) and dotted(df.func) == "pd.DataFrame" and not df.args and len(df.keywords) == 1
                and df.keywords[0].arg == "data" and isinstance(df.keywords[0].value, ast.Dict)):
            raise Bad(f"{where}: appended value is not pd.DataFrame(data={{…}})")
        cols = []
        d = df.keywords[0].value
        for k, v in zip(d.keys, d.values):
            if not (isinstance(k, ast.Constant) and isinstance(k.value, str)):
                raise Bad(f"{where}: column key")
            cols.append((k.value, self.raw(v, env)))
        return cols

    def add_row(self, loop, path, drop, cols, where):
        texts, calls = self.number([t for _, t in cols] + [drop])
        if TOKEN.search(drop) and not set(TOKEN.findall(drop)) <= set(TOKEN.findall(" ".join(t for _, t in cols))):
            raise Bad(f"{where}: the value tested for inf is not the appended one")
        self.rows.append((loop or "", list(path), calls, texts[-1], [(c, t) for (c, _), t in zip(cols, texts[:-1])]))

    def walk(self, stmts, env, loop, path):
        for s in stmts:
            where = f"{self.fn.name}:{s.lineno}"
            if is_doc(s):
                continue
            if self.returned:
                raise Bad(f"{where}: statement after return")
            if isinstance(s, ast.Assign) and len(s.targets) == 1:
                tg = s.targets[0]
                if isinstance(tg, ast.Name):
                    if tg.id in GLOBAL_NAMES or tg.id in self.names or tg.id == self.kw:
                        raise Bad(f"{where}: {tg.id!r} rebound")
                    if isinstance(s.value, ast.List) and not s.value.elts and self.acc is None and loop is None and self.outer is None:
                        self.acc = tg.id
                        continue
                    if tg.id == self.acc:
                        raise Bad(f"{where}: accumulator rebound")
                    if isinstance(s.value, ast.Call) and dotted(s.value.func) == "pd.concat":
                        if not self.outer_done or loop is not None:
                            raise Bad(f"{where}: pd.concat inside / before the loops")
                        env[tg.id] = ast.Name(id="RESULT", ctx=ast.Load())
                        self.result = self.concat_text(s.value, where)
                        continue
                    env[tg.id] = self.canon(s.value, env)
                    continue
                if isinstance(tg, ast.Tuple) and len(tg.elts) == 2 and all(isinstance(e, ast.Name) for e in tg.elts) \
                        and isinstance(s.value, ast.Call) and isinstance(s.value.func, ast.Name) \
                        and s.value.func.id == "_check_if_list_of_two_and_unpack_else_none" and len(s.value.args) == 1 and not s.value.keywords:
                    arg = self.pure(s.value.args[0], env, where)
                    for i, e in enumerate(tg.elts):
                        # the loop value itself may be re-bound by the unpacking (`cm_data_value, t = unpack(cm_data_value)`)
                        if e.id in GLOBAL_NAMES or e.id in self.names or e.id == self.kw or e.id == self.acc:
                            raise Bad(f"{where}: {e.id!r} rebound")
                        env[e.id] = ast.parse(f"UNPACK2({arg})[{i}]", mode="eval").body
                    self.checks.append(("loop" if self.outer else "pre", f"UNPACK2({arg})", "ValueError"))
                    continue
                raise Bad(f"{where}: unsupported assignment")
            if isinstance(s, ast.For):
                if s.orelse:
                    raise Bad(f"{where}: for/else")
                it = s.iter
                if self.outer is None:
                    if loop is not None or path:
                        raise Bad(f"{where}: outer loop nested")
                    if not (isinstance(it, ast.Call) and isinstance(it.func, ast.Attribute) and it.func.attr == "items" and not it.args
                            and not it.keywords and isinstance(it.func.value, ast.Name) and it.func.value.id == self.kw
                            and isinstance(s.target, ast.Tuple) and len(s.target.elts) == 2
                            and all(isinstance(e, ast.Name) for e in s.target.elts)):
                        raise Bad(f"{where}: the outer loop is not `for key, value in **data.items()`")
                    if self.acc is None:
                        raise Bad(f"{where}: no accumulator before the outer loop")
                    self.outer = f"{self.kw}.items()"
                    e2 = dict(env)
                    e2[s.target.elts[0].id] = ast.Name(id="KEY", ctx=ast.Load())
                    e2[s.target.elts[1].id] = ast.Name(id="VALUE", ctx=ast.Load())
                    self.walk(s.body, e2, None, [])
                    self.outer_done = True
                    continue
                if loop is not None or path or self.outer_done:
                    raise Bad(f"{where}: unsupported loop nesting")
                if not (isinstance(it, ast.Name) and it.id in self.names and it.id not in env and isinstance(s.target, ast.Name)):
                    raise Bad(f"{where}: inner loop is not over a list parameter")
                if it.id in self.inner:
                    raise Bad(f"{where}: second loop over {it.id}")
                self.inner.append(it.id)
                e2 = dict(env)
                e2[s.target.id] = ast.Name(id="ITEM", ctx=ast.Load())
                self.walk(s.body, e2, it.id, [])
                continue
            if isinstance(s, ast.If):
                # (1) a check that raises
                if len(s.body) == 1 and isinstance(s.body[0], ast.Raise) and not s.orelse:
                    if loop is not None or path or self.outer_done:
                        raise Bad(f"{where}: raising check inside an inner loop / after the loops")
                    exc = s.body[0].exc
                    exc = exc.func if isinstance(exc, ast.Call) else exc
                    if not isinstance(exc, ast.Name):
                        raise Bad(f"{where}: raise expression")
                    t = self.pure(s.test, env, where)
                    self.checks.append(("loop" if self.outer else "pre", t, exc.id))
                    if t == "len(VALUE) != 2" and exc.id == "ValueError":
                        self.len2 = True
                    continue
                t = self.raw(s.test, env)
                # (2) drop on inf
                if TOKEN.search(t):
                    if not (len(s.body) == 1 and self.is_warn(s.body[0]) and len(s.orelse) == 1):
                        raise Bad(f"{where}: unsupported shape of the inf test")
                    cols = self.emit_of(s.orelse[0], env)
                    if cols is None:
                        raise Bad(f"{where}: else of the inf test does not append")
                    self.add_row(loop, path, t, cols, where)
                    continue
                # (3) a path condition
                c = self.pc(s.test, env)
                self.walk(s.body, dict(env), loop, path + [(c, True)])
                if s.orelse:
                    self.walk(s.orelse, dict(env), loop, path + [(c, False)])
                continue
            if self.is_warn(s):
                if not path:
                    raise Bad(f"{where}: unconditional warning")
                self.warns.append((loop or "", list(path)))
                continue
            cols = self.emit_of(s, env)
            if cols is not None:
                if self.outer is None or self.outer_done:
                    raise Bad(f"{where}: row appended outside the loops")
                self.add_row(loop, path, "", cols, where)
                continue
            if isinstance(s, ast.Return):
                if not self.outer_done or loop is not None or path:
                    raise Bad(f"{where}: return inside / before the loops")
                if isinstance(s.value, ast.Call) and dotted(s.value.func) == "pd.concat":
                    self.result = self.concat_text(s.value, where)
                elif not (isinstance(s.value, ast.Name) and isinstance(env.get(s.value.id), ast.Name) and env[s.value.id].id == "RESULT"):
                    raise Bad(f"{where}: the function does not return pd.concat(<rows>)")
                self.returned = True
                continue
            raise Bad(f"{where}: unsupported statement {type(s).__name__}: {ast.unparse(s)[:60]}")

    def concat_text(self, call, where):
        if len(call.args) != 1 or call.keywords or not (isinstance(call.args[0], ast.Name) and call.args[0].id == self.acc):
            raise Bad(f"{where}: pd.concat of something that is not the list of rows")
        return "pd.concat(ROWS)"

    def run(self):
        env = {}
        self.walk(list(self.fn.body), env, None, [])
        if not self.returned or self.result is None or self.outer is None:
            raise Bad(f"{self.fn.name}: no `return pd.concat(rows)`")
        return self


def r_pc(c):
    if c[0] == "strEq":
        return f"(.strEq {lstr(c[1])} {lstr(c[2])})"
    return "." + c[0]


def r_path(path):
    return "[" + ", ".join(f"({r_pc(c)}, {'true' if b else 'false'})" for c, b in path) + "]"


def r_pairs(ps):
    return "[" + ", ".join(f"({lstr(a)}, {lstr(b)})" for a, b in ps) + "]"


def r_call(c):
    return f"{{ callee := {lstr(c.callee)}, args := {r_pairs(c.args)} }}"


def r_frame(fr):
    rows = []
    for loop, path, calls, drop, cols in fr.rows:
        rows.append(f"    {{ loop := {lstr(loop)}, path := {r_path(path)},\n      calls := [" + ",\n                ".join(r_call(c) for c in calls)
                    + f"],\n      dropIf := {lstr(drop)},\n      columns := {r_pairs(cols)} }}")
    warns = "[" + ", ".join(f"({lstr(lp)}, {r_path(p)})" for lp, p in fr.warns) + "]"
    checks = "[" + ", ".join(f"({lstr(a)}, {lstr(b)}, {lstr(c)})" for a, b, c in fr.checks) + "]"
    return ("  { outer := " + lstr(fr.outer) + ",\n    checks := " + checks + ",\n    inner := [" + ", ".join(lstr(x) for x in fr.inner)
            + "],\n    rows := [\n" + ",\n".join(rows) + "],\n    warns := " + warns + ",\n    result := " + lstr(fr.result) + " }")


# =================================================================== part C: rmse, alpha-normalised helpers
def rmse_spec(fn):
    where = fn.name
    names, _, kw = params_of(fn)
    if not kw or "obs_data" not in names:
        raise Bad(f"{where}: signature")
    body = [s for s in fn.body if not is_doc(s)]
    if len(body) != 5:
        raise Bad(f"{where}: expected [rows = [], for k …, concat, to_numeric, return], got {len(body)} statements")
    init, outer, cat, conv, ret = body
    if not (isinstance(init, ast.Assign) and isinstance(init.targets[0], ast.Name) and isinstance(init.value, ast.List) and not init.value.elts):
        raise Bad(f"{where}: accumulator")
    acc = init.targets[0].id
    if not (isinstance(outer, ast.For) and isinstance(outer.target, ast.Name) and ast.unparse(outer.iter) == f"{kw}.keys()" and len(outer.body) == 1):
        raise Bad(f"{where}: outer loop is not `for k in **data.keys()`")
    kname = outer.target.id
    cell = outer.body[0]
    SHAPE = "np.ndindex(obs_data.shape[1:])"

    def two(loop):
        if not (isinstance(loop, ast.For) and isinstance(loop.target, ast.Tuple) and len(loop.target.elts) == 2
                and all(isinstance(e, ast.Name) for e in loop.target.elts) and not loop.orelse):
            raise Bad(f"{where}: location loop shape")
        return loop.target.elts[0].id, loop.target.elts[1].id, ast.unparse(loop.iter)

    a, b, it1 = two(cell)
    cb = list(cell.body)
    if len(cb) != 5:
        raise Bad(f"{where}: body of the location loop: expected 5 statements, got {len(cb)}")
    z0, z1, inner, rms, app = cb
    mats = []
    for z in (z0, z1):
        if not (isinstance(z, ast.Assign) and isinstance(z.targets[0], ast.Name)
                and ast.unparse(z.value) == "np.zeros((obs_data.shape[1], obs_data.shape[2]))"):
            raise Bad(f"{where}: correlation matrices are not np.zeros((obs_data.shape[1], obs_data.shape[2]))")
        mats.append(z.targets[0].id)
    if mats[0] == mats[1]:
        raise Bad(f"{where}: one matrix")
    i, j, it2 = two(inner)
    ren = {a: "A", b: "B", i: "I", j: "J", kname: "K", mats[0]: "M0", mats[1]: "M1"}
    if len(set(ren)) != 7:
        raise Bad(f"{where}: loop variables collide")

    class Ren(ast.NodeTransformer):
        def visit_Name(self, n):
            return ast.Name(id=ren.get(n.id, n.id), ctx=n.ctx)

    def can(n):
        return ast.unparse(Ren().visit(copy.deepcopy(n)))

    fills = []
    for st in inner.body:
        if not (isinstance(st, ast.Assign) and len(st.targets) == 1 and isinstance(st.targets[0], ast.Subscript)):
            raise Bad(f"{where}: inner loop statement")
        tgt = can(st.targets[0])
        v = st.value
        if not (isinstance(v, ast.Subscript) and can(v.slice) == "(0, 1)" and isinstance(v.value, ast.Call)
                and dotted(v.value.func) == "np.corrcoef" and len(v.value.args) == 2 and not v.value.keywords):
            raise Bad(f"{where}: filled value is not np.corrcoef(x, y)[0, 1]")
        fills.append((tgt, can(v.value.args[0]), can(v.value.args[1])))
    if not (isinstance(rms, ast.Assign) and isinstance(rms.targets[0], ast.Name)):
        raise Bad(f"{where}: rmsd assignment")
    ren[rms.targets[0].id] = "RMSD"
    value = can(rms.value)
    if not (isinstance(app, ast.Expr) and isinstance(app.value, ast.Call) and ast.unparse(app.value.func) == f"{acc}.append"
            and len(app.value.args) == 1 and isinstance(app.value.args[0], ast.Call) and dotted(app.value.args[0].func) == "pd.DataFrame"
            and len(app.value.args[0].keywords) == 1 and isinstance(app.value.args[0].keywords[0].value, ast.Dict)):
        raise Bad(f"{where}: row append")
    d = app.value.args[0].keywords[0].value
    cols = [(k.value, can(v)) for k, v in zip(d.keys, d.values)]
    ren[acc] = "ROWS"
    if not (isinstance(cat, ast.Assign) and isinstance(cat.targets[0], ast.Name) and can(cat.value) == "pd.concat(ROWS)"):
        raise Bad(f"{where}: concat")
    ren[cat.targets[0].id] = "RESULT"
    tail = [can(conv), can(ret)]
    return dict(outer=f"{kw}.keys()", cells=it1.replace(kw, "KW"), inner=it2.replace(kw, "KW"), fills=fills, value=value, columns=cols,
                tail=tail, rowMajor=(it1 == SHAPE and it2 == SHAPE))


def alpha_text(fn):
    """the function's body with parameters and locals renamed to v0, v1, … in order of first occurrence; docstring dropped"""
    fn = copy.deepcopy(fn)
    order = {}

    def name(n):
        if n not in order:
            order[n] = f"v{len(order)}"
        return order[n]

    for p in fn.args.args:
        name(p.arg)
    bound = set(order)
    for n in ast.walk(fn):
        if isinstance(n, ast.Name) and isinstance(n.ctx, ast.Store):
            bound.add(n.id)

    class Ren(ast.NodeTransformer):
        def visit_Name(self, n):
            return ast.Name(id=name(n.id), ctx=n.ctx) if n.id in bound else n

        def visit_arg(self, n):
            return ast.arg(arg=name(n.arg), annotation=None)

        def visit_Raise(self, n):  # the exception class is identity, its message is not
            if isinstance(n.exc, ast.Call) and isinstance(n.exc.func, ast.Name):
                return ast.Raise(exc=n.exc.func, cause=None)
            return self.generic_visit(n)

    body = [s for s in fn.body if not is_doc(s)]
    return "; ".join(" ".join(ast.unparse(Ren().visit(s)).split()) for s in body)


def flatten_order(fn):
    hits = [n for n in ast.walk(fn) if isinstance(n, ast.Call) and isinstance(n.func, ast.Attribute) and n.func.attr in ("flatten", "ravel", "reshape")]
    if len(hits) != 1 or hits[0].func.attr != "flatten":
        raise Bad(f"{fn.name}: expected exactly one .flatten() call")
    c = hits[0]
    if c.args:
        if len(c.args) != 1 or not isinstance(c.args[0], ast.Constant):
            raise Bad(f"{fn.name}: flatten arguments")
        return str(c.args[0].value)
    for k in c.keywords:
        if k.arg == "order" and isinstance(k.value, ast.Constant):
            return str(k.value.value)
        raise Bad(f"{fn.name}: flatten keyword")
    return "C"


# =================================================================== driver
def load(repo):
    trees, funcs = {}, {}
    for rel in (T, M, V, C, U):
        tree = ast.parse(open(os.path.join(repo, rel)).read())
        have = set()
        for n in tree.body:
            if isinstance(n, ast.Import):
                for a in n.names:
                    have.add((a.name, a.asname))
        missing = REQUIRED_IMPORTS[rel] - have
        if missing:
            raise Bad(f"{rel}: expected imports {sorted(missing, key=str)} not found")
        seen = {}
        for n in tree.body:
            if isinstance(n, (ast.FunctionDef, ast.AsyncFunctionDef, ast.ClassDef)):
                if n.name in seen:
                    raise Bad(f"{rel}: {n.name} defined twice")
                seen[n.name] = n
        wanted = {f for r, f in HELPERS + FRAMES + ALPHA + [(C, "rmse_spatial_correlation_distribution")] if r == rel}
        for n in ast.walk(tree):
            if isinstance(n, (ast.Assign, ast.AugAssign, ast.AnnAssign)):
                for t in (n.targets if isinstance(n, ast.Assign) else [n.target]):
                    if isinstance(t, ast.Name) and (t.id in GLOBAL_NAMES or t.id in wanted):
                        raise Bad(f"{rel}: {t.id!r} is rebound")
        trees[rel] = tree
        funcs[rel] = {k: v for k, v in seen.items() if isinstance(v, ast.FunctionDef)}
    # the helpers imported from utils must be imported under their own names
    for rel in (T, M, V):
        for n in trees[rel].body:
            if isinstance(n, ast.ImportFrom):
                for a in n.names:
                    if a.asname is not None and (a.name in funcs[U] or a.asname in funcs[rel]):
                        raise Bad(f"{rel}: {a.name} imported as {a.asname}")
    return funcs


def generate(repo):
    errors = []
    out = ["", "import IbicusModel.Model.EvalGrid", "", "namespace Gen.EvaluateGrid", "open Model.EvalGrid", ""]
    try:
        funcs = load(repo)
    except (OSError, SyntaxError, Bad) as ex:
        funcs = None
        errors.append(f"untranslatable:evalgrid: {type(ex).__name__} {ex}")
    for rel, name in HELPERS:
        lean = name.lstrip("_")
        body, sig = '  (.raise "untranslatable")', "[]"
        if funcs is not None:
            try:
                fn = funcs[rel].get(name)
                if fn is None:
                    raise Bad(f"{rel}: {name} not found")
                names, prog = helper_prog(fn)
                body = r_prog(prog)
                sig = "[" + ", ".join(lstr(n) for n in names) + "]"
            except Bad as ex:
                errors.append(f"untranslatable:evalgrid.{name}: {ex}")
        out += [f"/-- generated from `{rel}`: `{name}` (grid program) -/", f"def {lean} : Prog :=\n{body}", "",
                f"/-- parameter order of `{name}` -/", f"def {lean}_params : List String := {sig}", ""]
    for rel, name in FRAMES:
        body = '  { outer := "untranslatable", checks := [], inner := [], rows := [], warns := [], result := "" }'
        if funcs is not None:
            try:
                fn = funcs[rel].get(name)
                if fn is None:
                    raise Bad(f"{rel}: {name} not found")
                body = r_frame(Frame(fn, funcs[rel], funcs[U]).run())
            except Bad as ex:
                errors.append(f"untranslatable:evalgrid.{name}: {ex}")
        out += [f"/-- generated from `{rel}`: `{name}` (frame specification) -/", f"def {name} : FrameSpec :=\n{body}", ""]
    # rmse
    body = '  { outer := "untranslatable", cells := "", inner := "", rowMajor := false, fills := [], value := "", columns := [], tail := [] }'
    if funcs is not None:
        try:
            fn = funcs[C].get("rmse_spatial_correlation_distribution")
            if fn is None:
                raise Bad("rmse_spatial_correlation_distribution not found")
            r = rmse_spec(fn)
            fills = "[" + ", ".join(f"({lstr(a)}, {lstr(b)}, {lstr(c)})" for a, b, c in r["fills"]) + "]"
            body = (f"  {{ outer := {lstr(r['outer'])}, cells := {lstr(r['cells'])}, inner := {lstr(r['inner'])},\n"
                    f"    rowMajor := {'true' if r['rowMajor'] else 'false'},\n    fills := {fills},\n    value := {lstr(r['value'])},\n"
                    f"    columns := {r_pairs(r['columns'])},\n    tail := [" + ", ".join(lstr(t) for t in r["tail"]) + "] }")
        except Bad as ex:
            errors.append(f"untranslatable:evalgrid.rmse_spatial_correlation_distribution: {ex}")
    out += [f"/-- generated from `{C}`: `rmse_spatial_correlation_distribution` -/", f"def rmse_spatial_correlation_distribution : RmseSpec :=\n{body}", ""]
    # alpha-normalised text of the two small helpers + flatten order
    for rel, name in ALPHA:
        txt = "untranslatable"
        if funcs is not None:
            try:
                fn = funcs[rel].get(name)
                if fn is None:
                    raise Bad(f"{rel}: {name} not found")
                params_of(fn)
                txt = alpha_text(fn)
            except Bad as ex:
                errors.append(f"untranslatable:evalgrid.{name}: {ex}")
        out += [f"/-- generated from `{rel}`: `{name}`, alpha-normalised -/", f"def {name.lstrip('_')}_text : String :=\n  {lstr(txt)}", ""]
    order = "untranslatable"
    if funcs is not None:
        try:
            order = flatten_order(funcs[U]["_unpack_df_of_numpy_arrays"])
        except (Bad, KeyError) as ex:
            errors.append(f"untranslatable:evalgrid.flatten_order: {ex}")
    out += ["/-- memory order in which `_unpack_df_of_numpy_arrays` flattens the per-location array of a row (`C` = row-major) -/",
            f"def unpack_flatten_order : String := {lstr(order)}", "", "end Gen.EvaluateGrid"]
    return "\n".join(out) + "\n", errors


if __name__ == "__main__":
    import sys

    text, errs = generate(sys.argv[1] if len(sys.argv) > 1 else "/repo")
    print(text)
    print(errs)
