"""
Tier-A extractor for C06 / C07 / C08: the *structure* of the write-back loops, as data regenerated from /repo's current AST.

  loops   one `LoopSpec` per loop (DSL of lean/IbicusModel/Model/Loops.lean):
            loopRW            RunningWindowDebiaser.apply_location, running-window branch
            loopDC            DeltaChange.apply_location, running-window branch
            loopIsimipRW      ISIMIP.apply_location, running-window loop
            loopIsimipMonths  ISIMIP.apply_location, month loop
            loopCDFt          CDFt.apply_on_window, loop over year windows of cm_future
            loopQDM           QuantileDeltaMapping.apply_on_window, loop over year windows of cm_future
  gens    one `GenSpec` per generator: RunningWindowOverDaysOfYear.use (useDoy), RunningWindowOverYears.use (useYears)

How a loop is read.  The function is evaluated *symbolically*, statement by statement: every local name is bound to its
ROLE — which series it is derived from and how (`day_of_year(time_cm_hist)` -> doy hist,
`self.running_window.get_indices_vals_in_window(<doy hist>, <centre>)` -> window hist, `cm_hist[<window hist>]` -> slice …).
The spec is written in roles only, so renaming a local variable changes nothing, using the wrong array changes the spec.
The two static helpers `get_mask_vals_to_adjust_in_window` and `get_if_in_chosen_years` are *inlined* (their current
return expression is evaluated on the caller's roles); the loop targets are bound to what the current `use` generator
yields (second component of `RunningWindowOverDaysOfYear.use(x)` = adjust set of `x`).

Part of the identity: the `if` the loop sits under, the construction of the iterator object in `__attrs_post_init__`,
what the `for` runs over, the allocation of the result buffer (function and series), the per-window callee, every keyword
argument (name, source array, index set), the selection applied to the result, the write target, the names of the opaque
calls before / after the loop, and that the function returns the buffer.
NOT part of the identity: names of locals, docstrings, comments, formatting, `warnings.warn(...)`, logging calls, the
verification hook `_verif_mark_unassigned(...)`, `if …: raise …` guards, the other branch of the mode switch, the
bodies of the opaque calls (step1 / step8 / the per-window function — tied elsewhere).

Anything that does not have the expected syntactic shape raises `Shape` (a broken tie); the extractor never guesses.
"""
import ast
import os

WINDOW_FILE = "ibicus/utils/_running_window_mode.py"
SERIES = ("obs", "hist", "fut")
PARAM_ROLES = {
    "obs": ("data", "obs"), "cm_hist": ("data", "hist"), "cm_future": ("data", "fut"),
    "time_obs": ("time", "obs"), "time_cm_hist": ("time", "hist"), "time_cm_future": ("time", "fut"),
}
CANON6 = [("data", "obs"), ("data", "hist"), ("data", "fut"), ("time", "obs"), ("time", "hist"), ("time", "fut")]
IGNORED_CALLS = {"warnings.warn", "_verif_mark_unassigned"}
IGNORED_ROOTS = {"logger", "logging", "log"}

LOOPS = [
    # (lean name, file, class, method, branch of the mode switch)
    ("loopRW", "ibicus/debias/_running_window_debiaser.py", "RunningWindowDebiaser", "apply_location", "body"),
    ("loopDC", "ibicus/debias/_delta_change.py", "DeltaChange", "apply_location", "body"),
    ("loopIsimipRW", "ibicus/debias/_isimip.py", "ISIMIP", "apply_location", "body"),
    ("loopIsimipMonths", "ibicus/debias/_isimip.py", "ISIMIP", "apply_location", "orelse"),
    ("loopCDFt", "ibicus/debias/_cdft.py", "CDFt", "apply_on_window", "body"),
    ("loopQDM", "ibicus/debias/_quantile_delta_mapping.py", "QuantileDeltaMapping", "apply_on_window", "body"),
]


class Shape(ValueError):
    pass


def lstr(s):
    return '"' + s.replace("\\", "\\\\").replace('"', '\\"').replace("\n", " ") + '"'


def find_class(tree, name):
    for n in tree.body:
        if isinstance(n, ast.ClassDef) and n.name == name:
            return n
    raise Shape(f"class {name} not found")


def find_method(cls, name):
    hits = [n for n in cls.body if isinstance(n, ast.FunctionDef) and n.name == name]
    if len(hits) != 1:
        raise Shape(f"{cls.name}.{name}: expected exactly one definition, found {len(hits)}")
    return hits[0]


def is_docstring(st):
    return isinstance(st, ast.Expr) and isinstance(st.value, ast.Constant) and isinstance(st.value.value, str)


def is_ignored_stmt(st):
    """docstrings, `pass`, warnings, logging, the verification hook"""
    if is_docstring(st) or isinstance(st, ast.Pass):
        return True
    if isinstance(st, ast.Expr) and isinstance(st.value, ast.Call):
        f = ast.unparse(st.value.func)
        if f in IGNORED_CALLS or f.split(".")[0] in IGNORED_ROOTS:
            return True
    return False


def is_raise_guard(st):
    """`if <test>: [warn …] raise …` without else"""
    if not isinstance(st, ast.If) or st.orelse:
        return False
    body = [s for s in st.body if not is_ignored_stmt(s)]
    return len(body) == 1 and isinstance(body[0], ast.Raise)


def role_text(r):
    if r[0] == "data":
        return r[1]
    if r[0] in ("time", "doy", "month", "year"):
        return f"{r[0]}_{r[1]}"
    if r[0] == "opaque":
        return r[1]
    raise Shape(f"role {r} cannot be named inside an opaque call")


# ------------------------------------------------------------------------------------------------ the generators
def static_return(win_tree, cls_name, meth, nparams):
    """parameters and return expression of a one-statement @staticmethod"""
    fn = find_method(find_class(win_tree, cls_name), meth)
    if [ast.unparse(d) for d in fn.decorator_list] != ["staticmethod"]:
        raise Shape(f"{cls_name}.{meth}: expected a plain @staticmethod")
    a = fn.args
    if a.vararg or a.kwarg or a.kwonlyargs or a.defaults or a.posonlyargs or len(a.args) != nparams:
        raise Shape(f"{cls_name}.{meth}: unexpected signature {ast.unparse(a)}")
    body = [s for s in fn.body if not is_ignored_stmt(s)]
    if len(body) != 1 or not isinstance(body[0], ast.Return) or body[0].value is None:
        raise Shape(f"{cls_name}.{meth}: expected a single return statement")
    return [p.arg for p in a.args], body[0].value


def gen_expr(node, env, key, win_tree):
    """expression of a generator body -> GenExpr term (Lean text)"""
    if isinstance(node, ast.Name):
        if node.id not in env:
            raise Shape(f"use: unknown name {node.id}")
        return env[node.id]
    if isinstance(node, ast.Subscript):  # np.where(m)[0]
        if isinstance(node.value, ast.Call) and ast.unparse(node.value.func) == "np.where" and len(node.value.args) == 1 \
                and not node.value.keywords and isinstance(node.slice, ast.Constant) and node.slice.value == 0:
            return f"(.whereOf {gen_expr(node.value.args[0], env, key, win_tree)})"
        raise Shape(f"use: unexpected subscript {ast.unparse(node)}")
    if isinstance(node, ast.Call):
        f = ast.unparse(node.func)
        if node.keywords or any(isinstance(a, ast.Starred) for a in node.args):
            raise Shape(f"use: unexpected keywords in {ast.unparse(node)}")
        args = node.args
        if f == "self.get_indices_vals_to_adjust" and len(args) == 2 and gen_expr(args[0], env, key, win_tree) == "KEY" \
                and gen_expr(args[1], env, key, win_tree) == ".centre":
            return ".adjustIdx"
        if f == "self._get_years_in_window_that_are_adjusted" and len(args) == 1 and gen_expr(args[0], env, key, win_tree) == ".centre":
            return ".yearsAdjusted"
        if f == "self._get_years_in_window" and len(args) == 1 and gen_expr(args[0], env, key, win_tree) == ".centre":
            return ".yearsInWindow"
        if f in ("RunningWindowOverYears.get_if_in_chosen_years", "self.get_if_in_chosen_years") and len(args) == 2:
            params, ret = static_return(win_tree, "RunningWindowOverYears", "get_if_in_chosen_years", 2)
            if not (isinstance(ret, ast.Call) and ast.unparse(ret.func) == "np.isin" and not ret.keywords
                    and [ast.unparse(a) for a in ret.args] == params):
                raise Shape("get_if_in_chosen_years: expected `return np.isin(years, chosen_years)`")
            a0 = gen_expr(args[0], env, key, win_tree)
            if gen_expr(args[1], env, key, win_tree) != "KEY" or a0 == "KEY":
                raise Shape(f"use: unexpected arguments in {ast.unparse(node)}")
            return f"(.chosenIn {a0})"
        raise Shape(f"use: unexpected call {ast.unparse(node)}")
    raise Shape(f"use: unexpected expression {ast.unparse(node)}")


def extract_gen(win_tree, cls_name):
    cls = find_class(win_tree, cls_name)
    fn = find_method(cls, "use")
    a = fn.args
    if a.vararg or a.kwarg or a.kwonlyargs or a.defaults or a.posonlyargs or len(a.args) != 2 or a.args[0].arg != "self":
        raise Shape(f"{cls_name}.use: unexpected signature")
    key = a.args[1].arg
    env = {key: "KEY"}
    body = [s for s in fn.body if not is_ignored_stmt(s)]
    if len(body) != 2 or not isinstance(body[0], ast.Assign) or not isinstance(body[1], ast.For):
        raise Shape(f"{cls_name}.use: expected `centres = …; for centre in centres: …`")
    # ---- the centres
    asg, loop = body
    if len(asg.targets) != 1 or not isinstance(asg.targets[0], ast.Name):
        raise Shape(f"{cls_name}.use: unexpected centres assignment")
    v = asg.value
    if not (isinstance(v, ast.Call) and not v.keywords and len(v.args) == 1):
        raise Shape(f"{cls_name}.use: unexpected centres expression {ast.unparse(v)}")
    f = ast.unparse(v.func)
    arg = v.args[0]
    if f == "self._get_window_centers" and isinstance(arg, ast.Name) and arg.id == key:
        centres = ".doyCentres"
    elif f == "self._get_years_forming_window_centers" and isinstance(arg, ast.Call) and ast.unparse(arg.func) == "np.unique" \
            and not arg.keywords and len(arg.args) == 1 and isinstance(arg.args[0], ast.Name) and arg.args[0].id == key:
        centres = ".yearCentresOfUnique"
    else:
        raise Shape(f"{cls_name}.use: unexpected centres expression {ast.unparse(v)}")
    if not (isinstance(loop.iter, ast.Name) and loop.iter.id == asg.targets[0].id and isinstance(loop.target, ast.Name)) or loop.orelse:
        raise Shape(f"{cls_name}.use: the loop does not run over the centres")
    env[loop.target.id] = ".centre"
    # ---- the body: assignments, at most one `if x.size == 0: continue`, then the yield(s)
    skip = None
    yields = []
    stmts = [s for s in loop.body if not is_ignored_stmt(s)]
    for k, st in enumerate(stmts):
        last = k == len(stmts) - 1
        if isinstance(st, ast.Assign) and len(st.targets) == 1 and isinstance(st.targets[0], ast.Name) and not yields:
            env[st.targets[0].id] = gen_expr(st.value, env, key, win_tree)
        elif isinstance(st, ast.If) and not st.orelse and len(st.body) == 1 and isinstance(st.body[0], ast.Continue) and not last:
            t = st.test
            if not (isinstance(t, ast.Compare) and len(t.ops) == 1 and isinstance(t.ops[0], ast.Eq) and isinstance(t.left, ast.Attribute)
                    and t.left.attr == "size" and isinstance(t.comparators[0], ast.Constant) and t.comparators[0].value == 0):
                raise Shape(f"{cls_name}.use: unexpected skip condition {ast.unparse(t)}")
            if skip is not None:
                raise Shape(f"{cls_name}.use: more than one skip condition")
            skip = gen_expr(t.left.value, env, key, win_tree)
        elif last and isinstance(st, ast.Expr) and isinstance(st.value, ast.Yield):
            yields.append(("", yield_tuple(st.value, env, key, win_tree, cls_name)))
        elif last and isinstance(st, ast.If):
            # if self.returns == 'a': yield … elif …: yield … else: raise
            cur = st
            while True:
                t = cur.test
                if not (isinstance(t, ast.Compare) and ast.unparse(t.left) == "self.returns" and len(t.ops) == 1 and isinstance(t.ops[0], ast.Eq)
                        and isinstance(t.comparators[0], ast.Constant) and isinstance(t.comparators[0].value, str)):
                    raise Shape(f"{cls_name}.use: unexpected branch test {ast.unparse(t)}")
                b = [s for s in cur.body if not is_ignored_stmt(s)]
                if len(b) != 1 or not (isinstance(b[0], ast.Expr) and isinstance(b[0].value, ast.Yield)):
                    raise Shape(f"{cls_name}.use: a branch on self.returns must consist of one yield")
                yields.append((t.comparators[0].value, yield_tuple(b[0].value, env, key, win_tree, cls_name)))
                o = [s for s in cur.orelse if not is_ignored_stmt(s)]
                if len(o) == 1 and isinstance(o[0], ast.If):
                    cur = o[0]
                elif len(o) == 1 and isinstance(o[0], ast.Raise):
                    break
                else:
                    raise Shape(f"{cls_name}.use: the branches on self.returns must end in `else: raise`")
        else:
            raise Shape(f"{cls_name}.use: unexpected statement `{ast.unparse(st)[:70]}`")
    if not yields:
        raise Shape(f"{cls_name}.use: no yield")
    for n in ast.walk(fn):
        if isinstance(n, (ast.Yield, ast.YieldFrom)):
            pass
    n_yield = sum(isinstance(n, (ast.Yield, ast.YieldFrom)) for n in ast.walk(fn))
    if n_yield != len(yields):
        raise Shape(f"{cls_name}.use: {n_yield} yields in the source, {len(yields)} understood")
    return dict(centres=centres, skip=skip, yields=yields, key=key)


def yield_tuple(y, env, key, win_tree, cls_name):
    if not isinstance(y.value, ast.Tuple):
        raise Shape(f"{cls_name}.use: expected a tuple to be yielded")
    out = [gen_expr(e, env, key, win_tree) for e in y.value.elts]
    if "KEY" in out:
        raise Shape(f"{cls_name}.use: yields its argument")
    return out


def returns_default(win_tree):
    """default of the attrs field `returns` of RunningWindowOverYears"""
    cls = find_class(win_tree, "RunningWindowOverYears")
    for st in cls.body:
        if isinstance(st, ast.AnnAssign) and isinstance(st.target, ast.Name) and st.target.id == "returns" and isinstance(st.value, ast.Call):
            for kw in st.value.keywords:
                if kw.arg == "default" and isinstance(kw.value, ast.Constant) and isinstance(kw.value.value, str):
                    return kw.value.value
    raise Shape("RunningWindowOverYears.returns: default not found")


# ------------------------------------------------------------------------------------------------ the loops
class LoopEval:
    def __init__(self, repo, name, rel, cls_name, meth, branch, win_tree, gens):
        self.name, self.rel, self.cls_name, self.meth, self.branch = name, rel, cls_name, meth, branch
        self.win_tree, self.gens = win_tree, gens
        self.tree = ast.parse(open(os.path.join(repo, rel)).read())
        self.cls = find_class(self.tree, cls_name)
        self.fn = find_method(self.cls, meth)
        self.env = {}
        self.pre, self.post = [], []
        self.guard = None
        self.alloc = None
        self.loop = None          # dict(iter=…, iterObj=…, callee=…, args=[…], select=…, target=…)
        self.phase = "pre"        # pre | loop | post | done
        self.iter_receiver = None
        self.iter_kind = None
        self.locals = {}          # role text -> local names (for the comment)

    def where(self):
        return f"{self.cls_name}.{self.meth}[{self.name}]"

    def fail(self, msg):
        raise Shape(f"{self.where()}: {msg}")

    # ---- expressions
    def ev(self, node):
        if isinstance(node, ast.Name):
            if node.id not in self.env:
                self.fail(f"name `{node.id}` has no role")
            return self.env[node.id]
        if isinstance(node, ast.Attribute):
            if node.attr == "size":
                r = self.ev(node.value)
                if r[0] == "data":
                    return ("size", r[1])
            self.fail(f"unexpected attribute {ast.unparse(node)}")
        if isinstance(node, ast.Subscript):
            x = self.ev(node.value)
            i = self.ev(node.slice)
            if x[0] in ("data", "time", "year") and i[0] == "idx":
                return ("slice", x, i)
            self.fail(f"unexpected indexing {ast.unparse(node)} ({x} by {i})")
        if isinstance(node, ast.Compare):
            if len(node.ops) == 1 and isinstance(node.ops[0], ast.Eq):
                a, b = self.ev(node.left), self.ev(node.comparators[0])
                if a[0] == "month" and b == ("centre",) and self.iter_kind == "months":
                    return ("idx", "whereMonth", a[1])
            self.fail(f"unexpected comparison {ast.unparse(node)}")
        if isinstance(node, ast.Call):
            return self.ev_call(node)
        self.fail(f"unexpected expression {ast.unparse(node)[:80]}")

    def pos_args(self, node, n=None):
        if node.keywords or any(isinstance(a, ast.Starred) for a in node.args) or (n is not None and len(node.args) != n):
            self.fail(f"unexpected arguments in {ast.unparse(node)[:100]}")
        return [self.ev(a) for a in node.args]

    def note_call(self, fname):
        if self.phase == "pre":
            self.pre.append(fname)
        elif self.phase == "post":
            self.post.append(fname)
        else:
            self.fail(f"opaque call {fname} inside the loop")

    def isin(self, a, b, node):
        if a[0] == "idx" and b[0] == "idx" and a[1] in ("window", "adjust") and b[1] in ("window", "adjust"):
            return ("isin", a, b)
        if a[0] == "year" and b[0] == "yearset":
            return ("idx", "yearWindow" if b[1] == "window" else "yearAdjusted", a[1])
        if a[0] == "slice" and a[1][0] == "year" and b == ("yearset", "adjusted"):
            return ("mask", "yearAdjustedOf", a[1][1], a[2])
        self.fail(f"unexpected membership test {ast.unparse(node)} ({a} in {b})")

    def inline_static(self, cls_name, meth, args, node):
        params, ret = static_return(self.win_tree, cls_name, meth, len(args))
        saved = self.env
        self.env = dict(zip(params, args))
        try:
            return self.ev(ret)
        finally:
            self.env = saved

    def ev_call(self, node):
        f = ast.unparse(node.func)
        if f in ("day_of_year", "month", "year"):
            (a,) = self.pos_args(node, 1)
            if a[0] != "time":
                self.fail(f"{f} of something that is not a time axis: {ast.unparse(node)}")
            return ({"day_of_year": "doy", "month": "month", "year": "year"}[f], a[1])
        if f in ("np.empty_like", "np.zeros_like"):
            (a,) = self.pos_args(node, 1)
            if a[0] != "data":
                self.fail(f"result buffer allocated like {a}")
            return ("alloc", f, a[1])
        if self.iter_receiver is not None and f in (self.iter_receiver + ".get_indices_vals_in_window", self.iter_receiver + ".get_indices_vals_to_adjust"):
            a, c = self.pos_args(node, 2)
            if a[0] != "doy" or c != ("centre",) or self.iter_kind != "doy":
                self.fail(f"unexpected arguments in {ast.unparse(node)}")
            return ("idx", "window" if f.endswith("in_window") else "adjust", a[1])
        if f == "RunningWindowOverDaysOfYear.get_mask_vals_to_adjust_in_window":
            return self.inline_static("RunningWindowOverDaysOfYear", "get_mask_vals_to_adjust_in_window", self.pos_args(node, 2), node)
        if f == "RunningWindowOverYears.get_if_in_chosen_years":
            return self.inline_static("RunningWindowOverYears", "get_if_in_chosen_years", self.pos_args(node, 2), node)
        if f == "np.isin":
            a, b = self.pos_args(node, 2)
            return self.isin(a, b, node)
        if f == "get_mask_for_unique_subarray":
            (a,) = self.pos_args(node, 1)
            if a[0] != "idx":
                self.fail(f"unexpected argument in {ast.unparse(node)}")
            return ("uniq", a)
        if f == "np.logical_and":
            a, b = self.pos_args(node, 2)
            if a[0] == "uniq":
                a, b = b, a  # conjunction is commutative
            if a[0] == "isin" and b[0] == "uniq" and a[1] == b[1]:
                return ("mask", "maskOf", a[1], a[2])
            self.fail(f"unexpected mask {ast.unparse(node)[:100]} ({a} and {b})")
        if f == "infer_and_create_time_arrays_if_not_given":
            if self.pos_args(node) != CANON6:
                self.fail(f"unexpected arguments in {ast.unparse(node)}")
            self.note_call(f)
            return ("tuple", [("time", "obs"), ("time", "hist"), ("time", "fut")])
        if f == "create_array_of_consecutive_dates":
            (a,) = self.pos_args(node, 1)
            if a[0] != "size":
                self.fail(f"unexpected argument in {ast.unparse(node)}")
            self.note_call(f)
            return ("time", a[1])
        if f == "self.step1":
            if self.pos_args(node) != CANON6:
                self.fail(f"unexpected arguments in {ast.unparse(node)}")
            self.note_call(f)
            return ("tuple", [("data", "obs"), ("data", "hist"), ("data", "fut"), ("opaque", "self.step1.3")])
        if f.startswith("self.") and f.count(".") == 1:
            args = self.pos_args(node)
            if self.phase == "post" and args and args[0] == ("buffer",) and all(a[0] in ("data", "time", "opaque") for a in args[1:]):
                self.note_call(f)
                return ("buffer",)
            if self.phase == "pre" and all(a[0] in ("data", "time") for a in args):
                self.note_call(f)
                return ("opaque", f + "(" + ", ".join(role_text(a) for a in args) + ")")
        self.fail(f"unexpected call {ast.unparse(node)[:100]}")

    # ---- statements
    def bind(self, target, role):
        if isinstance(target, ast.Name):
            if role[0] == "tuple":
                self.fail(f"tuple assigned to the single name {target.id}")
            if role[0] == "alloc":
                if self.alloc is not None or self.phase != "pre":
                    self.fail("more than one result buffer / allocation after the loop")
                self.alloc = (role[1], role[2])
                role = ("buffer",)
            if role[0] in ("isin", "uniq", "size"):
                self.fail(f"intermediate {role} bound to a name")
            self.env[target.id] = role
            self.locals.setdefault(str(role), []).append(target.id)
            return
        if isinstance(target, (ast.Tuple, ast.List)):
            if role[0] == "opaque":
                roles = [("opaque", f"{role[1]}.{k}") for k in range(len(target.elts))]
            elif role[0] == "tuple":
                roles = role[1]
            else:
                self.fail(f"{role} unpacked into a tuple")
            if len(roles) != len(target.elts):
                self.fail("tuple assignment of the wrong length")
            for t, r in zip(target.elts, roles):
                self.bind(t, r)
            return
        self.fail(f"unexpected assignment target {ast.unparse(target)}")

    def is_time_inference(self, st):
        """`if time_x is None [or time_y is None …]:` without else"""
        if not isinstance(st, ast.If) or st.orelse:
            return False
        tests = st.test.values if isinstance(st.test, ast.BoolOp) and isinstance(st.test.op, ast.Or) else [st.test]
        for t in tests:
            if not (isinstance(t, ast.Compare) and len(t.ops) == 1 and isinstance(t.ops[0], ast.Is) and isinstance(t.left, ast.Name)
                    and isinstance(t.comparators[0], ast.Constant) and t.comparators[0].value is None
                    and self.env.get(t.left.id, ("?",))[0] == "time"):
                return False
        return True

    def block(self, stmts):
        for st in stmts:
            if is_ignored_stmt(st) or is_raise_guard(st):
                continue
            if self.phase == "done":
                self.fail(f"statement after the return of the buffer: `{ast.unparse(st)[:70]}`")
            if isinstance(st, ast.Assign):
                if len(st.targets) != 1:
                    self.fail("chained assignment")
                if isinstance(st.targets[0], ast.Subscript):
                    self.fail(f"write outside the loop: `{ast.unparse(st)[:70]}`")
                self.bind(st.targets[0], self.ev(st.value))
            elif isinstance(st, ast.Expr) and isinstance(st.value, ast.Call) and isinstance(st.value.func, ast.Name):
                # a check of the inputs: f(obs, cm_hist, cm_future, time_obs, time_cm_hist, time_cm_future)
                if self.phase != "pre" or self.pos_args(st.value) != CANON6:
                    self.fail(f"unexpected call statement `{ast.unparse(st)[:80]}`")
                self.pre.append(st.value.func.id)
            elif self.is_time_inference(st):
                before = {k: v for k, v in self.env.items()}
                self.block(st.body)
                for k, v in before.items():
                    if self.env[k] != v:
                        self.fail(f"the time-inference block changes the role of {k}")
            elif isinstance(st, ast.If) and isinstance(st.test, ast.Attribute) and isinstance(st.test.value, ast.Name) and st.test.value.id == "self":
                if self.guard is not None:
                    self.fail("nested mode switches")
                self.guard = ("" if self.branch == "body" else "not ") + ast.unparse(st.test)
                self.block(st.body if self.branch == "body" else st.orelse)
            elif isinstance(st, ast.For):
                self.for_loop(st)
            elif isinstance(st, ast.Return):
                if self.phase != "post" or st.value is None or self.ev(st.value) != ("buffer",):
                    self.fail(f"`{ast.unparse(st)[:70]}` does not return the result buffer after the loop")
                self.phase = "done"
            else:
                self.fail(f"unexpected statement `{ast.unparse(st)[:80]}`")

    def iterator(self, it):
        """-> (Iter term, iterObj text, roles of the loop targets)"""
        if isinstance(it, ast.Call) and ast.unparse(it.func) == "range":
            if it.keywords or len(it.args) != 2 or not all(isinstance(a, ast.Constant) and type(a.value) is int for a in it.args):
                self.fail(f"unexpected range {ast.unparse(it)}")
            self.iter_kind = "months"
            return f".monthRange {it.args[0].value} {it.args[1].value}", "", [("centre",)]
        if isinstance(it, ast.Call) and isinstance(it.func, ast.Attribute) and it.func.attr == "use" \
                and isinstance(it.func.value, ast.Attribute) and isinstance(it.func.value.value, ast.Name) and it.func.value.value.id == "self":
            attr = it.func.value.attr
            (a,) = self.pos_args(it, 1)
            ctor = self.ctor_of(attr)
            cname = ast.unparse(ctor.func)
            kws = {kw.arg: kw.value for kw in ctor.keywords}
            if ctor.args or None in kws:
                self.fail(f"unexpected construction {ast.unparse(ctor)}")
            self.iter_receiver = "self." + attr
            if cname == "RunningWindowOverDaysOfYear":
                if a[0] != "doy":
                    self.fail(f"{ast.unparse(it)} runs over {a}, not over days of year")
                self.iter_kind = "doy"
                g = self.gens["useDoy"]
                ys = [y for m, y in g["yields"] if m == ""]
                term = f".useDoy .{a[1]}"
            elif cname == "RunningWindowOverYears":
                if a[0] != "year":
                    self.fail(f"{ast.unparse(it)} runs over {a}, not over years")
                self.iter_kind = "years"
                g = self.gens["useYears"]
                mode = returns_default(self.win_tree)
                if "returns" in kws:
                    if not (isinstance(kws["returns"], ast.Constant) and isinstance(kws["returns"].value, str)):
                        self.fail("non-constant `returns`")
                    mode = kws["returns"].value
                ys = [y for m, y in g["yields"] if m == mode]
                term = f".useYears .{a[1]}"
            else:
                self.fail(f"unexpected iterator class {cname}")
            if len(ys) != 1:
                self.fail("the generator has no unique yield for this mode")
            table = {".centre": ("centre",), ".adjustIdx": ("idx", "adjust", a[1]),
                     ".yearsAdjusted": ("yearset", "adjusted"), ".yearsInWindow": ("yearset", "window")}
            roles = []
            for y in ys[0]:
                if y not in table:
                    self.fail(f"the generator yields {y}, which the loop DSL cannot bind")
                roles.append(table[y])
            return term, ast.unparse(ctor), roles
        self.fail(f"unexpected iterator {ast.unparse(it)[:80]}")

    def ctor_of(self, attr):
        """the single `self.<attr> = Ctor(...)` of this class's __attrs_post_init__"""
        init = find_method(self.cls, "__attrs_post_init__")
        hits = [n for n in ast.walk(init) if isinstance(n, ast.Assign) and len(n.targets) == 1 and ast.unparse(n.targets[0]) == "self." + attr]
        others = [n for n in ast.walk(self.cls) if isinstance(n, (ast.Assign, ast.AugAssign, ast.AnnAssign))
                  and any(ast.unparse(t) == "self." + attr for t in (n.targets if isinstance(n, ast.Assign) else [n.target]))]
        if len(hits) != 1 or len(others) != 1 or not isinstance(hits[0].value, ast.Call):
            self.fail(f"self.{attr}: expected exactly one construction in __attrs_post_init__")
        return hits[0].value

    def for_loop(self, st):
        if self.phase != "pre" or st.orelse:
            self.fail("more than one loop / for-else")
        if self.alloc is None:
            self.fail("loop before the result buffer is allocated")
        term, obj, roles = self.iterator(st.iter)
        self.phase = "loop"
        targets = st.target.elts if isinstance(st.target, ast.Tuple) else [st.target]
        if len(targets) != len(roles) or not all(isinstance(t, ast.Name) for t in targets):
            self.fail(f"loop targets `{ast.unparse(st.target)}` do not match what the iterator yields")
        for t, r in zip(targets, roles):
            self.env[t.id] = r
            self.locals.setdefault(str(r), []).append(t.id)
        write = None
        for s in st.body:
            if is_ignored_stmt(s):
                continue
            if write is not None:
                self.fail(f"statement after the write: `{ast.unparse(s)[:70]}`")
            if isinstance(s, ast.Assign) and len(s.targets) == 1 and isinstance(s.targets[0], ast.Name):
                self.bind(s.targets[0], self.ev(s.value))
            elif isinstance(s, ast.Assign) and len(s.targets) == 1 and isinstance(s.targets[0], ast.Subscript):
                write = self.write(s)
            else:
                self.fail(f"unexpected statement in the loop: `{ast.unparse(s)[:80]}`")
        if write is None:
            self.fail("the loop writes nothing")
        self.loop = dict(iter=term, iterObj=obj, **write)
        self.phase = "post"

    def write(self, s):
        t = s.targets[0]
        if self.ev(t.value) != ("buffer",):
            self.fail(f"write into something that is not the result buffer: `{ast.unparse(t)[:60]}`")
        target = self.ev(t.slice)
        if target[0] != "idx":
            self.fail(f"unexpected write target {target}")
        v = s.value
        select = None
        if isinstance(v, ast.Subscript):
            select = self.ev(v.slice)
            if select[0] != "mask":
                self.fail(f"the result is indexed by {select}, not by a mask")
            v = v.value
        if not (isinstance(v, ast.Call) and isinstance(v.func, ast.Attribute) and isinstance(v.func.value, ast.Name) and v.func.value.id == "self"):
            self.fail(f"the written value is not a call of a method of self: `{ast.unparse(v)[:60]}`")
        if v.args or any(kw.arg is None for kw in v.keywords):
            self.fail("the per-window call must use keyword arguments only")
        args = []
        for kw in v.keywords:
            r = self.ev(kw.value)
            if r[0] == "slice":
                args.append((kw.arg, r[1], r[2]))
            elif r[0] in ("data", "time", "year", "opaque"):
                args.append((kw.arg, r, None))
            else:
                self.fail(f"argument {kw.arg}={ast.unparse(kw.value)[:50]} has the unexpected role {r}")
        return dict(callee=ast.unparse(v.func), args=args, select=select, target=target)

    def run(self):
        a = self.fn.args
        names = [p.arg for p in a.args]
        if a.vararg or a.kwarg or a.kwonlyargs or a.posonlyargs or names != ["self"] + list(PARAM_ROLES):
            self.fail(f"unexpected signature ({ast.unparse(a)})")
        self.env = dict(PARAM_ROLES)
        self.block(self.fn.body)
        if self.phase != "done" or self.loop is None:
            self.fail("no loop followed by the return of the buffer was found")
        return self


def idx_term(r):
    return f".{r[1]} .{r[2]}"


def src_term(r):
    if r[0] == "data":
        return f".data .{r[1]}"
    if r[0] == "time":
        return f".time .{r[1]}"
    if r[0] == "year":
        return f".years .{r[1]}"
    if r[0] == "opaque":
        return f".opaque {lstr(r[1])}"
    raise Shape(f"no source term for {r}")


def mask_term(m):
    if m is None:
        return ".all"
    if m[1] == "maskOf":
        return f".maskOf ({idx_term(m[2])}) ({idx_term(m[3])})"
    if m[1] == "yearAdjustedOf":
        return f".yearAdjustedOf .{m[2]} ({idx_term(m[3])})"
    raise Shape(f"no mask term for {m}")


def loop_lean(ev):
    lp = ev.loop
    args = []
    for (p, src, sel) in lp["args"]:
        args.append(f"⟨{lstr(p)}, {src_term(src)}, " + (".whole" if sel is None else f".sub ({idx_term(sel)})") + "⟩")
    out = [f"/-- `{ev.cls_name}.{ev.meth}` ({ev.rel}), branch `{ev.guard}` -/",
           f"def {ev.name} : LoopSpec where",
           f"  guard := {lstr(ev.guard or '')}",
           f"  iterObj := {lstr(lp['iterObj'])}",
           "  pre := [" + ", ".join(lstr(x) for x in ev.pre) + "]",
           f"  iter := {lp['iter']}",
           f"  alloc := ({lstr(ev.alloc[0])}, .{ev.alloc[1]})",
           f"  callee := {lstr(lp['callee'])}",
           "  args := [" + ",\n           ".join(args) + "]",
           f"  select := {mask_term(lp['select'])}",
           f"  target := {idx_term(lp['target'])}",
           "  post := [" + ", ".join(lstr(x) for x in ev.post) + "]"]
    names = "; ".join(f"{k} = {', '.join(v)}" for k, v in sorted(ev.locals.items()))
    out.append(f"-- locals by role (not part of the identity): {names}")
    return "\n".join(out)


def gen_lean(name, cls_name, g):
    ys = ", ".join(f"({lstr(m)}, [{', '.join(y)}])" for m, y in g["yields"])
    return "\n".join([
        f"/-- `{cls_name}.use` ({WINDOW_FILE}) -/",
        f"def {name} : GenSpec where",
        f"  centres := {g['centres']}",
        "  skipIfEmpty := " + ("none" if g["skip"] is None else f"some {g['skip']}"),
        f"  yields := [{ys}]"])


def generate(repo):
    errors = []
    out = ["", "import IbicusModel.Model.Loops", "", "namespace Gen.Loops", "open Model.Loops", ""]
    gens = {}
    win_tree = None
    try:
        win_tree = ast.parse(open(os.path.join(repo, WINDOW_FILE)).read())
    except (OSError, SyntaxError) as ex:
        errors.append(f"untranslatable:loops: {type(ex).__name__} {ex}")
    if win_tree is not None:
        for name, cls_name in (("useDoy", "RunningWindowOverDaysOfYear"), ("useYears", "RunningWindowOverYears")):
            try:
                gens[name] = extract_gen(win_tree, cls_name)
                out += [gen_lean(name, cls_name, gens[name]), ""]
            except (Shape, OSError, SyntaxError) as ex:
                errors.append(f"untranslatable:loops.{name}: {ex}")
        for (name, rel, cls_name, meth, branch) in LOOPS:
            try:
                ev = LoopEval(repo, name, rel, cls_name, meth, branch, win_tree, gens).run()
                out += [loop_lean(ev), ""]
            except (Shape, OSError, SyntaxError, KeyError) as ex:
                errors.append(f"untranslatable:loops.{name}: {type(ex).__name__} {ex}")
    out.append("end Gen.Loops")
    return "\n".join(out) + "\n", errors


if __name__ == "__main__":
    import sys

    text, errs = generate(sys.argv[1] if len(sys.argv) > 1 else "/repo")
    print(text)
    print(errs)
