"""Alias of harness/deb.py (`./check DEB` imports `harness.deb`); kept under the name the coordinator's brief uses."""
from harness.deb import GEN, PROP, TARGETS, run  # noqa: F401
