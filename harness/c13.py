"""C13 — failsafe mode isolates failing locations."""
import random
import re

import numpy as np

from harness import common as C
from harness import gridprobes as G

PROP = "C13"
TARGETS = ["IbicusModel.Props.C13", "IbicusModel.Lemmas.GenGridLoops"]
GEN = ["GridLoops"]

ERRNAME = G.ERRNAME


def check_failsafe_on(label, r, clean, S, cells, out_T, problems, case):
    """failsafe=True: an array; NaN column exactly at S; every other column bitwise the clean run's"""
    if r[0] != "ok":
        problems.append((f"{label} failsafe=True: {r[1]} raised ({r[2][:80]}) instead of NaN at the failing cells", case))
        return
    out = r[1]
    if out.shape != clean.shape or out.dtype != clean.dtype:
        problems.append((f"{label} failsafe=True: shape/dtype {out.shape}/{out.dtype}, clean run {clean.shape}/{clean.dtype}", case))
        return
    for c in cells:
        col = out[:, c[0], c[1]]
        if c in S:
            if not np.isnan(col).all():
                problems.append((f"{label} failsafe=True: failing cell {c} is not NaN over its whole column ({int(np.isnan(col).sum())}/{out_T} NaN)", case))
        elif not np.array_equal(col, clean[:, c[0], c[1]], equal_nan=True):
            what = "NaN" if np.isnan(col).any() and not np.isnan(clean[:, c[0], c[1]]).any() else "different values"
            problems.append((f"{label} failsafe=True: non-failing cell {c} differs from the run in which nothing failed ({what})", case))


def check_failsafe_off(label, r, clean, S_classes_in_order, serial, problems, case, also=()):
    """failsafe=False: S empty -> the clean array; otherwise an exception (serial: of the first failing cell, row-major).
    also: further classes accepted from a pool run (MaybeEncodingError, which Python's pool substitutes for an exception object
    that it cannot send to the parent — the property asks for 'an exception and no array', not for a class)"""
    if not S_classes_in_order:
        if r[0] != "ok" or not G.same(r[1], clean):
            problems.append((f"{label} failsafe=False, nothing fails: result differs from the clean run ({r[0]})", case))
        return
    if r[0] == "ok":
        problems.append((f"{label} failsafe=False: an array was returned although {len(S_classes_in_order)} cells raise", case))
        return
    if serial and r[1] != S_classes_in_order[0]:
        problems.append((f"{label} failsafe=False: raised {r[1]}, the first failing cell in row-major order raises {S_classes_in_order[0]}", case))
    if not serial and r[1] not in S_classes_in_order and r[1] not in also:
        problems.append((f"{label} failsafe=False: raised {r[1]}, which no failing cell raises ({sorted(set(S_classes_in_order))})", case))


# ---------------------------------------------------------------------------------------------------------------------------
# round 6.  Quantifier parts covered here:
#   * "configurations": the FORM in which obs / cm_hist / cm_future reach `apply` — every dtype kind the input contract accepts
#     (unsigned and signed integers of all widths, bool, float32/float64 mixed across the three arrays), masked arrays (with and
#     without masked entries; a masked entry in a cell IS a built-in failure: it becomes NaN and the fit rejects it) and
#     non-contiguous memory layouts.  The property's "NaN for that whole cell" needs an output that can hold NaN whatever came in.
#   * "failures raised by a user-defined debiaser" x "serial and parallel with several process counts": the exception OBJECT
#     (not only its class / message): objects that pickle.dumps cannot serialise (class local to the raising function, a lambda or
#     a lock among the args).  failsafe=True must contain them in a pool exactly as in the serial loop.
#     (Objects that serialise but cannot be REBUILT in the parent — e.g. two required constructor arguments — make CPython's own
#     pool hang for ever with failsafe=False; they are left out on purpose.)
UNSIGNED = ("uint8", "uint16", "uint32", "uint64")
SIGNED = ("int8", "int16", "int32", "int64")
FLOATS = ("float64", "float32")
NAMES3 = ("obs", "hist", "fut")


def plain(a):
    """what the input contract (C14: conversions_int / conversions_masked) turns an accepted array into, computed independently:
    non-float dtype -> float64, masked entries -> NaN, a plain ndarray"""
    b = a if np.issubdtype(a.dtype, np.floating) else a.astype(float)
    return np.ascontiguousarray(b.filled(np.nan) if isinstance(b, np.ma.MaskedArray) else b)


def dress(values, form, layout="C", mask=None):
    """the logical values in the given form ('<dtype>' | 'masked:<dtype>') and memory layout (plain arrays only)"""
    x = np.asarray(values).astype(form.split(":")[-1])
    if form.startswith("masked:"):
        return np.ma.masked_array(x, mask=(np.ma.nomask if mask is None else np.asarray(mask, dtype=bool).reshape(x.shape)))
    return G.relayout(x, layout)


def pack_forms(arrs, forms, layouts, prefix=""):
    """self-contained, JSON-able record of three dressed arrays (values of the underlying data + masks)"""
    d = G.pack(*[np.ascontiguousarray(np.ma.getdata(a)) for a in arrs], prefix)
    d[prefix + "masks"] = {n: ([bool(v) for v in np.ma.getmaskarray(a).ravel()] if (isinstance(a, np.ma.MaskedArray) and a.mask is not np.ma.nomask) else None)
                           for n, a in zip(NAMES3, arrs)}
    d["forms"], d["layouts"] = list(forms), list(layouts)
    return d


def load_arrays(fi, prefix=""):
    """the three arrays of a replay record, dressed as recorded (plain float arrays when no forms were recorded)"""
    arrs = list(G.unpack(fi, prefix))
    if fi.get("forms"):
        masks = fi.get(prefix + "masks") or {}
        arrs = [dress(a, form, lay, masks.get(n)) for a, n, form, lay in zip(arrs, NAMES3, fi["forms"], fi.get("layouts") or ["C"] * 3)]
    return arrs


def form_classes(rng, kind, real=False):
    """one (obs, cm_hist, cm_future) triple of forms per CLASS of input form; the concrete dtypes are drawn.
    real=True: temperature-like data (values ~250..320: no 8-bit integers, no bool)"""
    uns, sig = (UNSIGNED[1:], SIGNED[1:]) if real else (UNSIGNED, SIGNED)
    anyd = uns + sig + FLOATS
    drv = 0 if kind == "dc" else 2  # the array whose first element carries the raise-marker (a number up to 99: not bool)
    out = {}
    t = [rng.choice(anyd) for _ in range(3)]
    t[2] = rng.choice(uns)
    out["unsigned-integer cm_future"] = t
    t = [rng.choice(anyd) for _ in range(3)]
    t[2] = rng.choice(sig)
    out["signed-integer cm_future"] = t
    out["all three integer"] = [rng.choice(uns + sig) for _ in range(3)]
    f = rng.choice(FLOATS)
    t = [f, f, f]
    t[rng.randrange(3)] = FLOATS[1 - FLOATS.index(f)]
    out["mixed float widths"] = t
    t = [("masked:" if rng.random() < 0.6 else "") + rng.choice(anyd) for _ in range(3)]
    t[2] = "masked:" + rng.choice(anyd)
    out["masked arrays"] = t
    if not real:
        t = [rng.choice(anyd) for _ in range(3)]
        for k in rng.sample([k for k in range(3) if k != drv], rng.randint(1, 2)):
            t[k] = "bool"
        out["boolean"] = t
    return out


def input_forms_and_exception_objects(tier, res, boost, problems):
    rng = random.Random(C.seed() * 15485863 + 1306)  # own stream
    quick = tier == "quick" and not boost
    forms_seen, objs_seen = {}, {}
    deferred = []  # reports about the reference run itself: listed after the violations of the failsafe clauses

    def pick_subsets(cells):
        allsub = list(G.subsets(cells))
        if tier != "quick" and len(cells) <= 4:
            return allsub[1:]
        mid = [s_ for s_ in allsub if 1 < len(s_) < len(cells)]
        more = 0 if quick else 3 if tier == "quick" else 8  # quick tier after a broken tie: a wider, still bounded search
        return [(rng.choice(cells),)] + ([rng.choice(mid)] if mid else []) + [tuple(cells)] + rng.sample(allsub[1:-1], min(more, len(allsub) - 2))

    def judge(deb_factory, arrs, clean, S, cells, out_T, classes, procs, pcase, label0="", also=(), **kw):
        for failsafe in (True, False):
            runs = [("serial", True, G.run_apply(deb_factory(), *arrs, failsafe=failsafe, **kw))]
            runs += [(f"parallel/{p or 'default'}", False, G.run_apply(deb_factory(), *arrs, parallel=True, nproc=p, failsafe=failsafe, **kw)) for p in procs]
            for label, serial, r in runs:
                if failsafe:
                    check_failsafe_on(label0 + label, r, clean, set(S), cells, out_T, problems, pcase)
                else:
                    check_failsafe_off(label0 + label, r, clean, classes, serial, problems, pcase, also=also)

    # ---- (a) user-defined failures, every class of input form, both probes
    for kind in ("deb", "dc"):
        for fclass, forms in form_classes(rng, kind).items():
            nx, ny = rng.choice([(2, 2), (1, 3), (3, 1), (2, 3)] if quick else [(2, 2), (2, 3), (1, 3)])
            cells = [(i, j) for i in range(nx) for j in range(ny)]
            nprs = np.random.RandomState(rng.randint(0, 2**31 - 1))
            To, Th, Tf = rng.sample(range(1, 6), 3)
            base = [G.rand_data(nprs, T, nx, ny, np.float64) for T in (To, Th, Tf)]
            layouts = [rng.choice(G.LAYOUTS) for _ in range(3)]
            masks = [(np.zeros(b.shape, dtype=bool) if rng.random() < 0.5 else None) for b in base]  # an all-False mask array or np.ma.nomask
            mk = lambda vals: [dress(v, f_, l_, m_) for v, f_, l_, m_ in zip(vals, forms, layouts, masks)]  # noqa: E731
            arrs0 = mk(base)
            out_T = To if kind == "dc" else Tf
            case0 = dict(what="user-defined/" + kind, kind=kind, nx=nx, ny=ny, To=To, Th=Th, Tf=Tf, form_class=fclass,
                         forms=list(forms), layouts=layouts, seed=C.seed())
            clean_r = G.run_apply(G.make(kind), *arrs0)
            if clean_r[0] != "ok":
                deferred.append((f"input form '{fclass}' {forms}: the run in which nothing fails raised {clean_r[1]}: {clean_r[2]}",
                                 {**case0, "S": [], **pack_forms(arrs0, forms, layouts), **pack_forms(arrs0, forms, layouts, "clean_")}))
                continue
            for nsub, S in enumerate(pick_subsets(cells)):
                vals = [b.copy() for b in base]
                marks = {c: G.ERR_CYCLE[(n + nsub) % len(G.ERR_CYCLE)] for n, c in enumerate(S)}
                for c, m in marks.items():
                    vals[0 if kind == "dc" else 2][0, c[0], c[1]] = m
                arrs = mk(vals)
                classes = [ERRNAME[marks[c]] for c in cells if c in marks]
                procs = [rng.choice((1, 2, 3))] if quick else sorted(rng.sample((1, 2, 3), 2))
                case = {**case0, "S": [list(c) for c in S], "markers": [marks[c] for c in S], "nprocs": procs}
                pcase = {**case, **pack_forms(arrs, forms, layouts), **pack_forms(arrs0, forms, layouts, "clean_")}
                judge(lambda: G.make(kind), arrs, clean_r[1], S, cells, out_T, classes, procs, pcase, label0=f"input form '{fclass}' {tuple(forms)}: ")
                forms_seen[fclass] = forms_seen.get(fclass, 0) + 1
                res.count(("form", kind, fclass, tuple(forms), nx, ny, S), True, sample={**case, "clean_dtype": str(clean_r[1].dtype)} if nsub == 0 and kind == "deb" else None)

    # ---- (b) built-in failures under the same classes of form: NaN / inf planted in a float array, or an entry of a cell MASKED
    #      (the contract fills it with NaN) -> scipy's fit rejects the cell (ground truth: scipy.stats.norm.fit on the converted column)
    debs = G.real_debiasers()
    plans = [("QuantileMapping", "obs", "nan", "unsigned-integer cm_future"), ("QuantileMapping", "obs", "masked", "masked arrays"),
             ("QuantileMapping", "hist", "inf", "signed-integer cm_future"), ("ECDFM", "hist", "masked", "masked arrays"),
             ("ScaledDistributionMapping", "obs", "nan", "unsigned-integer cm_future"), ("QuantileDeltaMapping", "hist", "nan", "mixed float widths")]
    for name, where, bad, fclass in (plans[:3] if quick else plans):
        forms = form_classes(rng, "deb", real=True)[fclass]
        w = NAMES3.index(where)
        forms[w] = ("masked:" if bad == "masked" else "") + rng.choice(FLOATS)  # the contaminated array must be able to carry the contamination
        nx, ny = (2, 2)
        cells = [(i, j) for i in range(nx) for j in range(ny)]
        nprs = np.random.RandomState(rng.randint(0, 2**31 - 1))
        T = rng.randint(25, 40)
        base = [np.round(G.tas_grid(nprs, T + d, nx, ny, m), 2) for d, m in ((0, 283), (3, 285), (5, 287))]
        layouts = [rng.choice(G.LAYOUTS) for _ in range(3)]
        arrs0 = [dress(v, f_, l_, None) for v, f_, l_ in zip(base, forms, layouts)]
        case0 = dict(what="builtin/" + name, kind="deb", nx=nx, ny=ny, T=T, form_class=fclass, forms=list(forms), layouts=layouts, seed=C.seed())
        clean_r = G.run_apply(debs[name](), *arrs0)
        if clean_r[0] != "ok":
            deferred.append((f"{name}, input form '{fclass}' {forms}: the run in which nothing fails raised {clean_r[1]}: {clean_r[2]}",
                             {**case0, "S": [], **pack_forms(arrs0, forms, layouts), **pack_forms(arrs0, forms, layouts, "clean_")}))
            continue
        for S in pick_subsets(cells):
            vals = [b.copy() for b in base]
            mask = np.zeros(base[w].shape, dtype=bool)
            for c in S:
                t_ = rng.randrange(base[w].shape[0])
                if bad == "masked":
                    mask[t_, c[0], c[1]] = True
                else:
                    vals[w][t_, c[0], c[1]] = float(bad)
            arrs = [dress(v, f_, l_, (mask if (k == w and bad == "masked") else None)) for k, (v, f_, l_) in enumerate(zip(vals, forms, layouts))]
            conv = [plain(a) for a in arrs]
            must = {c: G.fit_rejects(conv[w][:, c[0], c[1]]) for c in S}
            _, errs = G.stacked(debs[name](), *conv, conv[2].shape[0], conv[2].dtype)
            procs = [2] if quick else sorted(rng.sample((1, 2, 3), 2))
            case = {**case0, "planted": f"{bad} in {where}", "S": [list(c) for c in S], "nprocs": procs}
            pcase = {**case, **pack_forms(arrs, forms, layouts), **pack_forms(arrs0, forms, layouts, "clean_")}
            if where not in G.FITTED.get(name, ()) or not all(must.values()):
                if set(errs) != set(S):
                    res.notes.append(f"{name} form '{fclass}': planted {sorted(S)}, raising {sorted(errs)} — case skipped")
                    continue
                classes = [type(errs[c]).__name__ for c in cells if c in errs]
            else:
                classes = case["expected_classes"] = pcase["expected_classes"] = [must[c] for c in cells if c in must]
                silent = sorted(set(S) - set(errs))
                if silent:
                    problems.append((f"{name}: location {silent[0]} must fail (scipy.stats.norm.fit rejects its {where} series with {must[silent[0]]}) but "
                                     f"apply_location on the cell alone returned a result", pcase))
            judge(debs[name], arrs, clean_r[1], S, cells, conv[2].shape[0], classes, procs, pcase, label0=f"{name}, input form '{fclass}' {tuple(forms)}: ")
            forms_seen[fclass + " (built-in failure)"] = forms_seen.get(fclass + " (built-in failure)", 0) + 1
            res.count(("form-builtin", name, fclass, tuple(forms), S, bad), True, sample={**case, "clean_dtype": str(clean_r[1].dtype)} if len(S) == 1 else None)

    # ---- (c) exception objects that cannot be pickled, alone, mixed with ordinary ones, and at every cell
    for kind in ("deb", "dc"):
        nx, ny = rng.choice([(2, 2), (1, 3), (2, 3), (3, 1)])
        cells = [(i, j) for i in range(nx) for j in range(ny)]
        nprs = np.random.RandomState(rng.randint(0, 2**31 - 1))
        To, Th, Tf = rng.sample(range(1, 6), 3)
        dtype = rng.choice([np.float64, np.float32])
        base = [G.rand_data(nprs, T, nx, ny, dtype) for T in (To, Th, Tf)]
        out_T = To if kind == "dc" else Tf
        clean_r = G.run_apply(G.make(kind), *base)
        if clean_r[0] != "ok":
            problems.append((f"clean run of the probe raised {clean_r[1]}: {clean_r[2]}", {"kind": kind, "nx": nx, "ny": ny}))
            continue
        plans_c = [((rng.choice(cells),), (m,)) for m in G.UNPICKLABLE]
        mixc = tuple(sorted(rng.sample(cells, min(len(cells), 3))))
        plans_c.append((mixc, tuple(rng.sample([G.M_ERR, rng.choice(G.UNPICKLABLE), G.M_ASSERT], len(mixc)))))
        plans_c.append((tuple(cells), tuple(G.UNPICKLABLE[(k + rng.randrange(3)) % 3] for k in range(len(cells)))))
        for S, ms in plans_c:
            arrs = [b.copy() for b in base]
            marks = dict(zip(S, ms))
            for c, m in marks.items():
                arrs[0 if kind == "dc" else 2][0, c[0], c[1]] = m
                objs_seen[G.ERRSHAPE[m]] = objs_seen.get(G.ERRSHAPE[m], 0) + 1
            classes = [ERRNAME[marks[c]] for c in cells if c in marks]
            procs = ([rng.choice((1, 2, 3))] + ([None] if len(S) == len(cells) else [])) if quick else [1, 2, 3, None]
            case = dict(what="user-defined/" + kind, kind=kind, nx=nx, ny=ny, To=To, Th=Th, Tf=Tf, dtype=str(np.dtype(dtype)), S=[list(c) for c in S],
                        markers=list(ms), exception_shapes=[G.ERRSHAPE[m] for m in ms], nprocs=procs, accept_from_pool=["MaybeEncodingError"], seed=C.seed())
            pcase = {**case, **G.pack(*arrs), **G.pack(*base, "clean_")}
            judge(lambda: G.make(kind), arrs, clean_r[1], S, cells, out_T, classes, procs, pcase,
                  label0=("unpicklable exception object: " if all(m in G.UNPICKLABLE for m in ms) else
                          "unpicklable among ordinary exception objects: " if any(m in G.UNPICKLABLE for m in ms) else ""),
                  also=("MaybeEncodingError",))
            res.count(("exc-object", kind, nx, ny, S, ms), True, sample=case if len(S) == 1 and ms[0] == G.M_LOCALCLS else None)
    problems.extend(deferred)
    res.extra["input_form_classes_run"] = forms_seen
    res.extra["unpicklable_exception_objects_raised"] = objs_seen


def run(tier, res, force_search=False):
    rng = random.Random(C.seed() * 15485863 + 13)
    res.rule = ("user-defined failure: EVERY subset S of the cells of a small grid (2x2 quick, 2x3 and 2x2 thorough) gets a raise-marker, for the bare Debiaser "
                "subclass and the DeltaChange probe, failsafe on/off, serial and nr_processes in {1,2,3}; built-in failure: NaN/inf planted in the cells of S makes "
                "the real debiaser's scipy fit / quantile call raise (verified per cell by calling apply_location alone). non-trivial = S non-empty; "
                "distinct = distinct (debiaser, grid, S, failsafe, contamination). Input forms: every class of accepted array form (unsigned / signed integer cm_future, "
                "all-integer, bool, mixed float widths, masked arrays incl. masked entries as the built-in failure, non-contiguous layouts; concrete dtypes drawn) with "
                "user-defined and built-in failures; exception objects that pickle cannot serialise (local class, lambda / lock among the args) alone, mixed, at every cell")
    res.trusted = C.BASE_TRUSTED + [
        "multiprocessing.Pool.starmap is modelled by Model.Grid.poolRun/starmap: the first *completed* raising task ends the map with its exception; which one that is "
        "depends on the schedule, so for parallel runs the harness only requires the exception class to be one a failing cell raises",
        "numpy: assigning the scalar np.nan to output[:, i, j] fills the column (Model.Grid.colOf)",
    ]
    res.assumptions = [
        f"process start, pickling and logging are runtime behaviour and are not modelled (start method observed: {G.start_method()})",
        "a 'failure' is an exception raised inside apply_location; a location that returns a series of the wrong length is not caught by failsafe mode "
        "(the assignment is outside the try) — stated as Props.C05.wrong_length_no_array and excluded here",
        "failures are exceptions derived from Exception, of every realistic shape (message, no arguments / bare assert, non-string arguments, empty message, "
        "__str__ that raises); classes derived directly from BaseException (KeyboardInterrupt, SystemExit, GeneratorExit) are not caught by the code's "
        "`except Exception` by design and are out of scope; in the Lean model the error value is abstract (any type ε)",
        "the non-failing cells' results are compared with a clean run on the same data without the planted failure (cell independence: C05)",
        "RUNTIME-ONLY clauses (oracle on the real code only): what an exception object looks like (arguments, __str__, picklability) — the model's error value is "
        "abstract, so a handler that inspects the exception cannot be exhibited; logging; state that a failing location leaves OUTSIDE the arguments of the model "
        "(e.g. a cache on a helper object filled while iterating) — the logic part is modelled as instance state: failsafe_isolates_chunked / _stateful_serial assume "
        "PureSt (also on failure), Example.damaging shows the failure mode, and the running-window failing-subset runs decide it for the real debiasers",
        "input forms: the reference for 'which cells fail' is computed on the arrays as the input contract converts them (non-float -> float64, masked -> NaN: "
        "Props.C14 conversions_int / conversions_masked), independently of the code under test; under a pool with failsafe=False an exception object that cannot "
        "be pickled surfaces as multiprocessing.pool.MaybeEncodingError (CPython) — accepted, the property asks for an exception and no array",
        "tier A: the catch wrapper's statements (caught class Exception, scalar np.nan, bare raise) and the failsafe keyword at all four call sites are regenerated "
        "from the source with names resolved to roles (Gen/GridLoops.lean = Model/GridLoops.lean, denotation = runCatch: Props.C13.catch_wrapper_denotes)",
    ]
    lean_ok = C.lean_phase(res, PROP, GEN, TARGETS)
    problems, lines, expect, par_expect = [], [], [], []
    boost = force_search or not lean_ok

    # ---- user-defined failing debiaser: all subsets
    grids = [(2, 2)] if tier == "quick" else [(2, 3), (2, 2), (1, 3), (3, 1), (1, 1)]
    nprocs_all = (1, 2, 3)
    exhaustive = []
    shapes_seen = {}
    for (nx, ny) in grids:
        cells = [(i, j) for i in range(nx) for j in range(ny)]
        for kind in ("deb", "dc"):
            deb = G.make(kind)
            nprs = np.random.RandomState(rng.randint(0, 2**31 - 1))
            To, Th, Tf = rng.sample(range(1, 6), 3)  # three DIFFERENT time lengths (DeltaChange's output follows obs, the others cm_future)
            dtype = rng.choice([np.float64, np.float32])
            obs0, hist0, fut0 = (G.rand_data(nprs, T, nx, ny, dtype) for T in (To, Th, Tf))
            out_T = To if kind == "dc" else Tf
            clean_r = G.run_apply(deb, obs0, hist0, fut0)
            if clean_r[0] != "ok":
                problems.append((f"clean run of the probe raised {clean_r[1]}: {clean_r[2]}", {"kind": kind, "nx": nx, "ny": ny}))
                continue
            clean = clean_r[1]
            nsub = 0
            for S in G.subsets(cells):
                nsub += 1
                obs, hist, fut = obs0.copy(), hist0.copy(), fut0.copy()
                drive = obs if kind == "dc" else fut
                marks = {}
                for n, c in enumerate(S):  # deal out the exception shapes (message, no args, bare assert, non-string args, unprintable, …);
                    marks[c] = G.ERR_CYCLE[(n + nsub) % len(G.ERR_CYCLE)]  # neighbours differ in class: "which cell's exception" is observable
                    drive[0, c[0], c[1]] = marks[c]
                    shapes_seen[G.ERRSHAPE[marks[c]]] = shapes_seen.get(G.ERRSHAPE[marks[c]], 0) + 1
                classes = [ERRNAME[marks[c]] for c in cells if c in marks]
                # quick: every subset serial + one process count per flag; thorough / boost: all three process counts
                procs = list(nprocs_all) if (tier != "quick" or boost) else [nprocs_all[nsub % 3]]
                case = dict(what="user-defined/" + kind, kind=kind, nx=nx, ny=ny, To=To, Th=Th, Tf=Tf, dtype=str(np.dtype(dtype)),
                            S=[list(c) for c in S], markers=[marks[c] for c in S], nprocs=procs)
                pcase = {**case, **G.pack(obs, hist, fut), **G.pack(obs0, hist0, fut0, "clean_")}  # self-contained replay
                for failsafe in (True, False):
                    runs = [("serial", True, G.run_apply(deb, obs, hist, fut, failsafe=failsafe))]
                    runs += [(f"parallel/{p}", False, G.run_apply(deb, obs, hist, fut, parallel=True, nproc=p, failsafe=failsafe)) for p in procs]
                    for label, serial, r in runs:
                        if failsafe:
                            check_failsafe_on(label, r, clean, set(S), cells, out_T, problems, pcase)
                        else:
                            check_failsafe_off(label, r, clean, classes, serial, problems, pcase)
                    res.count((kind, nx, ny, S, failsafe), len(S) > 0, sample={**case, "failsafe": failsafe, "serial": G.canon(runs[0][2])[:100]} if nsub in (4, 11) else None)
                    # model correspondence: serial exactly; parallel under a random completion schedule
                    lines.append(G.grid_line(kind, "serial", failsafe, obs, hist, fut, []))
                    expect.append(("serial", {**case, "failsafe": failsafe}, G.canon(runs[0][2]), None))
                    for label, _, r in runs[1:]:
                        sched = list(range(len(cells)))
                        rng.shuffle(sched)
                        lines.append(G.grid_line(kind, "par", failsafe, obs, hist, fut, sched))
                        # an exception under the pool: the class depends on the schedule -> compare as a set
                        expect.append((label, {**case, "failsafe": failsafe, "sched": sched}, G.canon(r),
                                       (["error " + c for c in classes] if (classes and not failsafe) else None)))
            exhaustive.append({"grid": f"{nx}x{ny}", "kind": kind, "subsets": nsub})
    # ---- every exception shape as the only failure, and all shapes at once (both probes, a non-square grid)
    for kind in ("deb", "dc"):
        deb = G.make(kind)
        nx, ny = rng.choice([(2, 3), (3, 2), (1, 4)])
        cells = [(i, j) for i in range(nx) for j in range(ny)]
        nprs = np.random.RandomState(rng.randint(0, 2**31 - 1))
        To, Th, Tf = rng.sample(range(1, 6), 3)
        obs0, hist0, fut0 = (G.rand_data(nprs, T, nx, ny, np.float64) for T in (To, Th, Tf))
        out_T = To if kind == "dc" else Tf
        clean_r = G.run_apply(deb, obs0, hist0, fut0)
        if clean_r[0] != "ok":
            problems.append((f"clean run of the probe raised {clean_r[1]}: {clean_r[2]}", {"kind": kind, "nx": nx, "ny": ny}))
            continue
        plans = [((rng.choice(cells),), (m,)) for m in G.ERR_CYCLE]
        allc = tuple(rng.sample(cells, min(len(cells), len(G.ERR_CYCLE))))
        plans.append((tuple(sorted(allc)), tuple(G.ERR_CYCLE[: len(allc)])))
        for S, ms in plans:
            obs, hist, fut = obs0.copy(), hist0.copy(), fut0.copy()
            drive = obs if kind == "dc" else fut
            marks = dict(zip(S, ms))
            for c, m in marks.items():
                drive[0, c[0], c[1]] = m
                shapes_seen[G.ERRSHAPE[m]] = shapes_seen.get(G.ERRSHAPE[m], 0) + 1
            classes = [ERRNAME[marks[c]] for c in cells if c in marks]
            procs = [rng.choice(nprocs_all)] if (tier == "quick" and not boost) else list(nprocs_all)
            case = dict(what="user-defined/" + kind, kind=kind, nx=nx, ny=ny, To=To, Th=Th, Tf=Tf, dtype="float64", S=[list(c) for c in S],
                        markers=list(ms), exception_shapes=[G.ERRSHAPE[m] for m in ms], nprocs=procs)
            pcase = {**case, **G.pack(obs, hist, fut), **G.pack(obs0, hist0, fut0, "clean_")}
            for failsafe in (True, False):
                runs = [("serial", True, G.run_apply(deb, obs, hist, fut, failsafe=failsafe))]
                runs += [(f"parallel/{p}", False, G.run_apply(deb, obs, hist, fut, parallel=True, nproc=p, failsafe=failsafe)) for p in procs]
                for label, serial, r in runs:
                    if failsafe:
                        check_failsafe_on(label, r, clean_r[1], set(S), cells, out_T, problems, pcase)
                    else:
                        check_failsafe_off(label, r, clean_r[1], classes, serial, problems, pcase)
                res.count((kind, nx, ny, S, ms, failsafe), True, sample={**case, "failsafe": failsafe, "serial": G.canon(runs[0][2])[:60]} if len(S) == 1 and ms[0] == G.M_ASSERT else None)
                lines.append(G.grid_line(kind, "serial", failsafe, obs, hist, fut, []))
                expect.append(("serial", {**case, "failsafe": failsafe}, G.canon(runs[0][2]), None))
    res.extra["exception_shapes_raised"] = shapes_seen
    res.extra["exhaustive_subsets"] = exhaustive
    res.extra["all_subsets_of_each_grid_enumerated"] = all(e["subsets"] == 2 ** (int(e["grid"][0]) * int(e["grid"][2])) for e in exhaustive)

    mismatches = []
    try:
        out = C.run_driver("DrvGrid", lines)
        for (what, case, exp, anyof), got in zip(expect, out):
            res.cov["traces_validated_against_impl"] += 1
            if anyof is not None:
                good = exp in anyof and got in anyof
            else:
                good = exp == got
            if not good:
                mismatches.append({"op": what, "case": case, "impl": exp[:300], "model": got[:300]})
    except (C.DriverError, Exception) as ex:  # noqa: BLE001
        mismatches.append({"op": "driver", "case": {}, "impl": "", "model": f"{type(ex).__name__}: {str(ex)[:400]}"})
    if mismatches:
        res.tie_broken.append(f"correspondence DrvGrid: {len(mismatches)} mismatches, first: {mismatches[0]}")
        boost = True

    # ---- chunked pool + instance state (Model.Grid.applyParallelSt / chunkTask): the counting probe (not pure) with failing cells;
    #      the real pool (chunk size read off the real MapResult) vs the model under a random completion order of the chunks
    st_lines, st_expect = [], []
    for nx, ny, p_ in [(3, 3, 1), (2, 3, 1), (3, 3, 2)][: (2 if tier == "quick" and not boost else 3)]:
        n_ = nx * ny
        kch = G.real_default_chunksizes(p_, [n_])[n_]
        cells = [(i, j) for i in range(nx) for j in range(ny)]
        nprs = np.random.RandomState(rng.randint(0, 2**31 - 1))
        To, Th, Tf = rng.sample(range(1, 5), 3)
        for S in [tuple(rng.sample(cells, r)) for r in (1, 2, 4)]:
            obs, hist, fut = (G.rand_data(nprs, T, nx, ny, np.float64) for T in (To, Th, Tf))
            for n, c in enumerate(S):
                fut[0, c[0], c[1]] = G.ERR_CYCLE[n % len(G.ERR_CYCLE)]
            for fs in (True, False):
                for mode in ("serial", "par"):
                    deb = G.CountingProbe(calls=0)
                    r = G.run_apply(deb, obs, hist, fut, parallel=(mode == "par"), nproc=p_, failsafe=fs)
                    sched = list(range(len(G.real_chunks(kch, n_))))
                    rng.shuffle(sched)
                    st_lines.append(f"gridst {mode} {int(fs)} {nx} {ny} {To} {Th} {Tf} {C.ilist(obs.ravel())} {C.ilist(hist.ravel())} {C.ilist(fut.ravel())} "
                                    f"0 {kch} {C.ilist(sched) if mode == 'par' else '-'}")
                    classes = ["error " + ERRNAME[int(fut[0, c[0], c[1]])] for c in cells if c in S]
                    st_expect.append(("gridst-" + mode, dict(what="counting-probe", nx=nx, ny=ny, S=[list(c) for c in S], failsafe=fs, nr_processes=p_, chunksize=kch, sched=sched),
                                      G.canon(r) + (f" state {deb.calls}" if r[0] == "ok" else ""), (classes if (mode == "par" and not fs) else None)))
                    res.count(("counting", nx, ny, p_, S, fs, mode), True)
    try:
        out = C.run_driver("DrvGrid", st_lines)
        for (what, case, exp, anyof), got in zip(st_expect, out):
            res.cov["traces_validated_against_impl"] += 1
            if not ((exp in anyof and got in anyof) if anyof is not None else exp == got):
                mismatches.append({"op": what, "case": case, "impl": exp[:300], "model": got[:300]})
    except (C.DriverError, Exception) as ex:  # noqa: BLE001
        mismatches.append({"op": "driver", "case": {}, "impl": "", "model": f"{type(ex).__name__}: {str(ex)[:400]}"})
    if mismatches and not any("correspondence DrvGrid" in t for t in res.tie_broken):
        res.tie_broken.append(f"correspondence DrvGrid: {len(mismatches)} mismatches, first: {mismatches[0]}")
        boost = True

    # ---- more worker processes than grid cells (library default 4; 5; 8) on 1x1, 1x2, 1x3 grids: all subsets
    for (nx, ny) in [(1, 3), (1, 2), (1, 1)]:
        cells = [(i, j) for i in range(nx) for j in range(ny)]
        for kind in (("deb", "dc") if (tier != "quick" or boost or (nx, ny) == (1, 3)) else ("deb",)):
            deb = G.make(kind)
            nprs = np.random.RandomState(rng.randint(0, 2**31 - 1))
            To, Th, Tf = rng.sample(range(1, 6), 3)
            obs0, hist0, fut0 = (G.rand_data(nprs, T, nx, ny, np.float64) for T in (To, Th, Tf))
            out_T = To if kind == "dc" else Tf
            clean_r = G.run_apply(deb, obs0, hist0, fut0)
            if clean_r[0] != "ok":
                problems.append((f"clean run of the probe raised {clean_r[1]}: {clean_r[2]}", {"kind": kind, "nx": nx, "ny": ny}))
                continue
            for nsub, S in enumerate(G.subsets(cells)):
                obs, hist, fut = obs0.copy(), hist0.copy(), fut0.copy()
                drive = obs if kind == "dc" else fut
                marks = {c: G.ERR_CYCLE[(n + nsub) % len(G.ERR_CYCLE)] for n, c in enumerate(S)}
                for c, m in marks.items():
                    drive[0, c[0], c[1]] = m
                classes = [ERRNAME[marks[c]] for c in cells if c in marks]
                procs = [None, 5, 8] if (tier != "quick" or boost) else [None, (5, 8)[nsub % 2]]
                case = dict(what="user-defined/" + kind, kind=kind, nx=nx, ny=ny, To=To, Th=Th, Tf=Tf, dtype="float64", S=[list(c) for c in S],
                            markers=[marks[c] for c in S], nprocs=procs, note="more processes than cells")
                pcase = {**case, **G.pack(obs, hist, fut), **G.pack(obs0, hist0, fut0, "clean_")}
                for failsafe in (True, False):
                    for p in procs:
                        r = G.run_apply(deb, obs, hist, fut, parallel=True, nproc=p, failsafe=failsafe)
                        label = f"parallel/{p or 'default'} ({len(cells)} cells)"
                        if failsafe:
                            check_failsafe_on(label, r, clean_r[1], set(S), cells, out_T, problems, pcase)
                        else:
                            check_failsafe_off(label, r, clean_r[1], classes, False, problems, pcase)
                    res.count((kind, nx, ny, S, failsafe, "many-procs"), len(S) > 0)

    # ---- failures inside a running window (time arrays passed through apply): the failing cell raises in a window in the MIDDLE of the year;
    #      subsets in which the first processed cell fails are always included
    import datetime

    more = G.more_debiasers()
    for name in ("rw/QuantileMapping", "rw/WindowProbe"):
        nx, ny = (2, 2)
        cells = [(i, j) for i in range(nx) for j in range(ny)]
        nprs = np.random.RandomState(rng.randint(0, 2**31 - 1))
        lengths = [rng.randint(380, 450) for _ in range(3)]
        starts = [(datetime.date(rng.randint(1970, 2050), 1, 1) + datetime.timedelta(days=rng.randint(0, 60))).isoformat() for _ in range(3)]
        obs0, hist0, fut0 = (G.tas_grid(nprs, T, nx, ny, m) + 8 * np.sin(np.arange(T) / 58.0)[:, None, None] for T, m in zip(lengths, (283, 285, 287)))
        kw = G.time_kwargs(starts, lengths)
        deb = more[name]()
        clean_r = G.run_apply(deb, obs0, hist0, fut0, **kw)
        if clean_r[0] != "ok":
            problems.append((f"{name}: clean run raised {clean_r[1]}: {clean_r[2]}", {"what": "builtin/" + name}))
            continue
        all_subsets = list(G.subsets(cells))
        if tier == "quick" and not boost:
            chosen = [((0, 0),), ((0, 0), (1, 1)), ((0, 1),), tuple(cells)]
        else:
            chosen = all_subsets
        procs = [2] if (tier == "quick" and not boost) else [1, 2, 3]
        for S in chosen:
            obs, hist, fut = obs0.copy(), hist0.copy(), fut0.copy()
            arr, tkey, bad = (obs, "time_obs", np.nan) if name == "rw/QuantileMapping" else (fut, "time_cm_future", float(rng.choice([G.M_ERR, G.M_ERR2])))
            mid = [t for t, d in enumerate(kw[tkey]) if 120 <= d.timetuple().tm_yday <= 250]
            for c in S:
                arr[rng.choice(mid), c[0], c[1]] = bad
            _, errs = G.stacked(more[name], obs, hist, fut, fut.shape[0], fut.dtype, **kw)
            case = dict(what="builtin/" + name, kind="deb", nx=nx, ny=ny, starts=starts, lengths=lengths, planted=f"{bad} mid-year in {tkey[5:]}",
                        S=[list(c) for c in S], nprocs=procs, seed=C.seed())
            # ground truth that does not go through the code under test: scipy's fit rejects the contaminated column / the probe raises by construction
            if name == "rw/QuantileMapping":
                must = {c: G.fit_rejects(obs[:, c[0], c[1]]) for c in S}
            else:
                must = {c: ("ProbeError" if bad == G.M_ERR else "ValueError") for c in S}
            pcase = {**case, **G.pack(obs, hist, fut), **G.pack(obs0, hist0, fut0, "clean_")}
            if all(must.values()):
                case["expected_classes"] = pcase["expected_classes"] = [must[c] for c in cells if c in must]
                silent = sorted(set(S) - set(errs))
                if silent:
                    problems.append((f"{name}: location {silent[0]} must fail (its window function is handed data that {'scipy.stats.norm.fit rejects with ' + must[silent[0]] if 'Quantile' in name else 'makes it raise ' + must[silent[0]]}) "
                                     f"but apply_location on the cell alone returned a result", pcase))
                classes = case["expected_classes"]
            elif set(errs) != set(S):
                res.notes.append(f"{name}: planted {sorted(S)}, raising {sorted(errs)} — case skipped")
                continue
            else:
                classes = [type(errs[c]).__name__ for c in cells if c in errs]
            for failsafe in (True, False):
                runs = [("serial", True, G.run_apply(more[name](), obs, hist, fut, failsafe=failsafe, **kw))]
                runs += [(f"parallel/{p}", False, G.run_apply(more[name](), obs, hist, fut, parallel=True, nproc=p, failsafe=failsafe, **kw)) for p in procs]
                for label, serial, r in runs:
                    if failsafe:
                        check_failsafe_on(f"{name} {label}", r, clean_r[1], set(S), cells, fut.shape[0], problems, pcase)
                    else:
                        check_failsafe_off(f"{name} {label}", r, clean_r[1], classes, serial, problems, pcase)
                res.count((name, S, failsafe, "running-window"), len(S) > 0, sample={**case, "failsafe": failsafe} if S == ((0, 0),) and failsafe and "Quantile" in name else None)

    # ---- built-in failures: non-finite data rejected inside the real debiasers
    debs = G.real_debiasers()
    plans = [("QuantileMapping", "obs", np.nan), ("ECDFM", "fut", np.inf), ("ScaledDistributionMapping", "hist", np.nan),
             ("QuantileDeltaMapping", "hist", np.inf), ("CDFt", "obs", np.nan), ("QuantileMapping", "hist", np.inf), ("ECDFM", "obs", np.nan)]
    if tier == "quick" and not boost:
        plans = plans[:5]
    raising_seen = {}
    for pk, (name, where, bad) in enumerate(plans):
        nx, ny = (2, 2) if (tier == "quick" or pk % 3) else (2, 3)
        cells = [(i, j) for i in range(nx) for j in range(ny)]
        nprs = np.random.RandomState(rng.randint(0, 2**31 - 1))
        T = rng.randint(25, 40)
        obs0, hist0, fut0 = G.tas_grid(nprs, T, nx, ny, 283), G.tas_grid(nprs, T + 3, nx, ny, 285), G.tas_grid(nprs, T + 5, nx, ny, 287)
        deb = debs[name]()
        clean_r = G.run_apply(deb, obs0, hist0, fut0)
        if clean_r[0] != "ok":
            problems.append((f"{name}: clean run raised {clean_r[1]}: {clean_r[2]}", {"what": "builtin/" + name}))
            continue
        clean = clean_r[1]
        all_subsets = list(G.subsets(cells))
        if tier == "quick" and not boost:
            chosen = [all_subsets[-1]] + [s for s in all_subsets if len(s) == 1][:2] + rng.sample(all_subsets[1:-1], 3)
        elif len(cells) > 4:
            chosen = [all_subsets[-1]] + rng.sample(all_subsets[1:-1], 15)
        else:
            chosen = all_subsets
        procs = [2] if (tier == "quick" and not boost) else [1, 2, 3]
        for S in chosen:
            obs, hist, fut = obs0.copy(), hist0.copy(), fut0.copy()
            arr = {"obs": obs, "hist": hist, "fut": fut}[where]
            for c in S:
                arr[rng.randrange(arr.shape[0]), c[0], c[1]] = bad
            _, errs = G.stacked(deb, obs, hist, fut, fut.shape[0], fut.dtype)
            case = dict(what="builtin/" + name, kind="deb", nx=nx, ny=ny, T=T, planted=f"{bad} in {where}", S=[list(c) for c in S], nprocs=procs, seed=C.seed())
            pcase = {**case, **G.pack(obs, hist, fut), **G.pack(obs0, hist0, fut0, "clean_")}
            must = {c: (G.fit_rejects(arr[:, c[0], c[1]]) if where in G.FITTED.get(name, ()) else None) for c in S}
            raising_seen.setdefault(name, set()).update(f"{type(e).__name__}: {str(e)[:50]}" for e in errs.values())
            if S and all(must.values()):  # independent ground truth: the debiaser fits this input and scipy's fit rejects the contaminated series
                case["expected_classes"] = pcase["expected_classes"] = [must[c] for c in cells if c in must]
                silent = sorted(set(S) - set(errs))
                if silent:
                    problems.append((f"{name}: location {silent[0]} must fail (scipy.stats.norm.fit rejects its {where} series with {must[silent[0]]}) but "
                                     f"apply_location on the cell alone returned a result", pcase))
                classes = case["expected_classes"]
            elif set(errs) != set(S):  # the contamination does not make exactly these cells raise: not an instance of the property
                res.notes.append(f"{name}: {bad} in {where} made {sorted(errs)} raise, planted {sorted(S)} — case skipped")
                continue
            else:
                classes = [type(errs[c]).__name__ for c in cells if c in errs]
            for failsafe in (True, False):
                runs = [("serial", True, G.run_apply(deb, obs, hist, fut, failsafe=failsafe))]
                runs += [(f"parallel/{p}", False, G.run_apply(deb, obs, hist, fut, parallel=True, nproc=p, failsafe=failsafe)) for p in procs]
                for label, serial, r in runs:
                    if failsafe:
                        check_failsafe_on(f"{name} {label}", r, clean, set(S), cells, fut.shape[0], problems, pcase)
                    else:
                        check_failsafe_off(f"{name} {label}", r, clean, classes, serial, problems, pcase)
                res.count((name, nx, ny, S, failsafe, where, str(bad)), len(S) > 0,
                          sample={**case, "failsafe": failsafe, "exception": classes[:1]} if len(S) == 1 and failsafe else None)
    res.extra["builtin_failures_observed"] = {k: sorted(v)[:3] for k, v in raising_seen.items()}
    res.extra["start_method"] = G.start_method()

    # ---- round 6: forms of the three input arrays (dtype kinds, mixed dtypes, masked arrays, memory layouts) and exception objects
    #      that cannot cross the pool's result pipe — own PRNG stream, nothing above shifts
    try:
        input_forms_and_exception_objects(tier, res, boost, problems)
    except Exception as ex:  # noqa: BLE001  (a defect of the generator must not hide the verdict of the sections above)
        res.notes.append(f"input-forms section aborted: {type(ex).__name__}: {G.safe_str(ex)}")
        raise

    # ---- verdict
    seen = set()
    for p, case in problems:
        key = (re.sub(r"[0-9]+", "#", p)[:60], case.get("what"))
        if key in seen or len(seen) >= 6:
            continue
        seen.add(key)
        res.violations.append((p, {"property": PROP, "failing_input": case, "problem": p, "signature": {"what": case.get("what")}}))
    if res.tie_broken and not problems:
        res.violations.append(("proof obligation / correspondence no longer checks: " + "; ".join(res.tie_broken)[:600],
                               {"property": PROP, "failing_input": None, "broken": res.tie_broken, "mismatches": mismatches[:5]}))
    return res


def replay(data):
    """re-run the failing input of a replay file against the real code; exit 1 iff the violation reproduces"""
    fi = data.get("failing_input")
    if not fi or "obs" not in fi or "clean_obs" not in fi:
        print("replay: no failing input recorded (a proof obligation / the correspondence broke):", str(data.get("broken"))[:300])
        return 2
    obs, hist, fut = load_arrays(fi)
    obs0, hist0, fut0 = load_arrays(fi, "clean_")
    deb = G.debiaser_for(fi)
    nx, ny = fi["nx"], fi["ny"]
    cells = [(i, j) for i in range(nx) for j in range(ny)]
    S = [tuple(c) for c in fi["S"]]
    out_T = obs.shape[0] if fi.get("kind") == "dc" else fut.shape[0]
    kw = G.time_kwargs(fi["starts"], [obs.shape[0], hist.shape[0], fut.shape[0]]) if fi.get("starts") else {}
    fresh = lambda: G.debiaser_for(fi)  # noqa: E731
    clean_r = G.run_apply(fresh(), obs0, hist0, fut0, **kw)
    if clean_r[0] != "ok":
        print("REPRODUCED: the clean run raises", clean_r[1:])
        return 1
    conv = [plain(a) for a in (obs, hist, fut)]  # per-cell reference on what the input contract hands to the locations
    _, errs = G.stacked(fresh, *conv, out_T, conv[2].dtype, **kw)
    classes = [type(errs[c]).__name__ for c in cells if c in errs]
    problems = []
    failing = set(errs)
    if fi.get("expected_classes"):  # ground truth recorded independently of the code under test
        classes, failing = fi["expected_classes"], set(S)
        for c in sorted(set(S) - set(errs)):
            problems.append((f"location {c} must fail but apply_location on the cell alone returned a result", fi))
    elif set(errs) != set(S):
        print(f"note: cells that raise on their own: {sorted(errs)}; recorded S: {sorted(S)}")
    case = {k: v for k, v in fi.items() if not k.endswith(("obs", "hist", "fut"))}
    for failsafe in (True, False):
        runs = [("serial", True, G.run_apply(fresh(), obs, hist, fut, failsafe=failsafe, **kw))]
        runs += [(f"parallel/{p or 'default'}", False, G.run_apply(fresh(), obs, hist, fut, parallel=True, nproc=p, failsafe=failsafe, **kw)) for p in fi.get("nprocs") or [2]]
        for label, serial, r in runs:
            if failsafe:
                check_failsafe_on(label, r, clean_r[1], failing, cells, out_T, problems, case)
            else:
                check_failsafe_off(label, r, clean_r[1], classes, serial, problems, case, also=tuple(fi.get("accept_from_pool") or ()))
    for p, _ in problems:
        print("REPRODUCED:", p)
    if not problems:
        print("not reproduced: the property holds on this input")
    return 1 if problems else 0
