"""C18 — derived-variable conversions round-trip (ibicus/utils/_utils.py)."""
import random
import warnings
from fractions import Fraction

import numpy as np

from harness import common as C

PROP = "C18"
TARGETS = ["IbicusModel.Props.C18"]
GEN = ["Convert"]

REL = 1e-12  # the property's "to rounding": relative to the magnitude of the inputs


class RealRaised(Exception):
    """the real code raised on an input of the property's domain: always a violation with that input, never exit 2"""

    def __init__(self, name, ex, args):
        super().__init__(f"{name} raised {type(ex).__name__}: {str(ex)[:160]}")
        self.name, self.ex, self.call_args = name, ex, args

    def problem(self, extra=None):
        args = [np.asarray(a) for a in self.call_args]
        return (f"{self.name} raised {type(self.ex).__name__} on valid input ({str(self.ex)[:120]}); argument shapes {[list(a.shape) for a in args]}",
                {"oracle": "raise", "function": self.name, "args": [a.astype(float).tolist() for a in args], "shapes": [list(a.shape) for a in args],
                 "dtypes": [str(a.dtype) for a in args], **(extra or {})})


class _Real:
    """ibicus.utils._utils with every function wrapped: an exception becomes RealRaised (carrying the arguments)"""

    def __init__(self, mod):
        self._m = mod

    def __getattr__(self, name):
        f = getattr(self._m, name)

        def wrapped(*a):
            try:
                return f(*a)
            except Exception as ex:  # noqa: BLE001
                raise RealRaised(name, ex, a) from ex

        return wrapped


def U():
    import ibicus.utils._utils as u

    return _Real(u)


def no_raise(oracle):
    """an oracle never lets an exception of the real code escape: it is reported as a problem of that oracle"""

    def run_oracle(*a):
        try:
            return oracle(*a)
        except RealRaised as rr:
            p, d = rr.problem()
            return [(p, {"raised": d})]

    return run_oracle


# ------------------------------------------------------------------ generation (dyadic values k/64)
SHAPES = [(), (1,), (7,), (2, 3), (3, 2, 2), (4, 1, 3), (1, 1, 1), (0,), (2, 0, 3), (5, 2, 2, 2), (6, 1, 1), (1, 3, 2), (5, 1), (1, 4)]


def dy(rng, lo, hi):
    """a dyadic rational k/64 in [lo, hi]"""
    return rng.randint(int(lo * 64), int(hi * 64)) / 64.0


def gen_shape(rng, tier):
    if rng.random() < 0.7:
        return rng.choice(SHAPES)
    nd = rng.randint(1, 4)
    mx = 4 if tier == "quick" else 7
    return tuple(rng.randint(1, mx) for _ in range(nd))


def fill(shape, f):
    n = int(np.prod(shape)) if shape != () else 1
    a = np.array([f() for _ in range(n)], dtype=float).reshape(shape)
    return a


def gen_tas(rng, tier, flavour):
    """(tas, tasmin, tasmax): 'wellformed' = the property's quantifier; 'degenerate' has tasmax == tasmin somewhere;
    'free' ignores the ordering (the round trip needs tasmax != tasmin only)"""
    shape = gen_shape(rng, tier)
    scale = rng.choice([1, 8, 64, 320])  # Kelvin-like magnitudes included
    trip = []

    def one():
        lo = dy(rng, -scale, scale)
        if flavour == "wellformed":
            hi = lo + rng.randint(1, 64 * 40) / 64.0
            t = lo + rng.randint(0, int(round((hi - lo) * 64))) / 64.0
            if rng.random() < 0.3:  # skew at the extremes: 2^-k and 1 - 2^-k down to ~1e-9 (exact in binary), and exactly 0 / 1
                e = (hi - lo) * 2.0 ** -rng.randint(10, 30)
                t = rng.choice([lo + e, hi - e, lo, hi])
        elif flavour == "degenerate":
            hi = lo if rng.random() < 0.4 else lo + rng.randint(1, 640) / 64.0
            t = rng.choice([lo, hi, lo + rng.randint(0, 640) / 64.0])
        else:
            hi = dy(rng, -scale, scale)
            if hi == lo:
                hi = lo + 1 / 64.0
            t = dy(rng, -scale, scale)
        trip.append((t, lo, hi))
        return 0.0

    fill(shape, one)
    arr = np.array(trip, dtype=float).reshape(shape + (3,)) if trip else np.zeros(shape + (3,))
    return arr[..., 0].copy(), arr[..., 1].copy(), arr[..., 2].copy()


def gen_inverse(rng, tier, flavour):
    """(tas, tasrange, tasskew) given directly: 'wellformed' = 0 <= skew <= 1, range >= 0"""
    shape = gen_shape(rng, tier)
    scale = rng.choice([1, 8, 64, 320])
    tas = fill(shape, lambda: dy(rng, -scale, scale))
    if flavour == "wellformed":
        r = fill(shape, lambda: rng.randint(0, 64 * 40) / 64.0)
        s = fill(shape, lambda: rng.choice([rng.randint(0, 64) / 64.0, rng.randint(0, 64) / 64.0, 2.0 ** -rng.randint(10, 40),
                                            1 - 2.0 ** -rng.randint(10, 40), 0.0, 1.0]))
    else:
        r = fill(shape, lambda: dy(rng, -40, 40))
        s = fill(shape, lambda: dy(rng, -2, 3))
    return tas, r, s


def gen_pr(rng, tier, flavour):
    """values k/64 scaled by a power of two (exact): precipitation fluxes in kg m-2 s-1 are 1e-8 .. 1e-3, in mm/day 0.01 .. 100;
    the property quantifies over ALL pr > 0, so the tiny magnitudes are part of it"""
    shape = gen_shape(rng, tier)
    pairs = []
    unit = 2.0 ** -rng.choice([0, 0, 10, 17, 20, 24, 30])

    def one():
        if flavour == "wellformed":
            p = rng.randint(1, 64 * 50) / 64.0
            s = rng.choice([0.0, p, rng.randint(0, int(p * 64)) / 64.0])
            if rng.random() < 0.3:  # trace snow / trace rain: prsn/pr = 2^-k or 1 - 2^-k, 1e-4 down to ~1e-12 (exact in binary)
                f = 2.0 ** -rng.randint(12, 38)
                s = rng.choice([p * f, p - p * f])
        elif flavour == "degenerate":
            p = rng.choice([0.0, 0.0, rng.randint(1, 640) / 64.0])
            s = rng.choice([0.0, p, rng.randint(0, 640) / 64.0])
        else:
            p = dy(rng, -50, 50) or 1 / 64.0
            s = dy(rng, -50, 50)
        pairs.append((p, s))
        return 0.0

    fill(shape, one)
    arr = np.array(pairs, dtype=float).reshape(shape + (2,)) if pairs else np.zeros(shape + (2,))
    return arr[..., 0].copy() * unit, arr[..., 1].copy() * unit


def as_input(a, rng):
    """0-d cases are passed as numpy scalars or python floats as well (the functions are plain formulas)"""
    if a.shape == ():
        return a
    return a


# ------------------------------------------------------------------ property oracle on the real code
def mag(*arrs):
    m = 1.0
    for a in arrs:
        a = np.asarray(a, dtype=float)
        if a.size:
            m = max(m, float(np.max(np.abs(a[np.isfinite(a)]))) if np.isfinite(a).any() else 1.0)
    return m


def first_bad(mask, *arrs):
    idx = tuple(int(i) for i in np.argwhere(mask)[0])
    return {"index": list(idx), "values": [float(np.asarray(a)[idx]) for a in arrs]}


@no_raise
def oracle_tas(tas, tasmin, tasmax):
    """C18 on the real functions, for tasmin < tasmax and tasmin <= tas <= tasmax (element-wise, any shape)."""
    u = U()
    problems = []
    with warnings.catch_warnings(), np.errstate(all="ignore"):
        warnings.simplefilter("ignore")
        r, s = u.get_tasrange_tasskew(tas, tasmin, tasmax)
        r1, s1 = u.get_tasrange(tasmin, tasmax), u.get_tasskew(tas, tasmin, tasmax)
        mn, mx = u.get_tasmin_tasmax(tas, r, s)
        mn1, mx1 = u.get_tasmin(tas, r, s), u.get_tasmax(tas, r, s)
    tol = REL * mag(tas, tasmin, tasmax)
    for name, a in (("tasrange", r), ("tasskew", s), ("tasmin", mn), ("tasmax", mx)):
        if np.shape(a) != np.shape(tas):
            problems.append((f"{name}: shape {np.shape(a)} differs from the input shape {np.shape(tas)}", {}))
    if problems:
        return problems
    if not (np.array_equal(r, r1, equal_nan=True) and np.array_equal(s, s1, equal_nan=True)):
        problems.append(("get_tasrange_tasskew differs from (get_tasrange, get_tasskew)", {}))
    if not (np.array_equal(mn, mn1, equal_nan=True) and np.array_equal(mx, mx1, equal_nan=True)):
        problems.append(("get_tasmin_tasmax differs from (get_tasmin, get_tasmax)", {}))
    bad = ~(np.abs(np.asarray(mn) - tasmin) <= tol)
    if np.any(bad):
        problems.append(("round trip does not return tasmin", first_bad(bad, tas, tasmin, tasmax, mn)))
    bad = ~(np.abs(np.asarray(mx) - tasmax) <= tol)
    if np.any(bad):
        problems.append(("round trip does not return tasmax", first_bad(bad, tas, tasmin, tasmax, mx)))
    bad = ~((np.asarray(s) >= 0) & (np.asarray(s) <= 1) & (np.asarray(r) > 0))
    if np.any(bad):
        problems.append(("tasskew outside [0,1] or tasrange <= 0 for tasmin <= tas <= tasmax, tasmin < tasmax",
                         first_bad(bad, tas, tasmin, tasmax, s)))
    return problems


@no_raise
def oracle_order(tas, r, s):
    """0 <= skew <= 1, range >= 0  =>  tasmin <= tas <= tasmax (and tasmax - tasmin = range)"""
    u = U()
    with warnings.catch_warnings(), np.errstate(all="ignore"):
        warnings.simplefilter("ignore")
        mn, mx = u.get_tasmin_tasmax(tas, r, s)
    tol = REL * mag(tas, r)
    problems = []
    bad = ~((np.asarray(mn) <= tas + tol) & (tas <= np.asarray(mx) + tol))
    if np.any(bad):
        problems.append(("tasmin <= tas <= tasmax violated for 0 <= tasskew <= 1, tasrange >= 0", first_bad(bad, tas, r, s, mn, mx)))
    bad = ~(np.abs((np.asarray(mx) - np.asarray(mn)) - r) <= tol)
    if np.any(bad):
        problems.append(("tasmax - tasmin differs from tasrange", first_bad(bad, tas, r, s, mn, mx)))
    return problems


@no_raise
def oracle_pr(pr, prsn):
    """pr > 0, 0 <= prsn <= pr"""
    u = U()
    with warnings.catch_warnings(), np.errstate(all="ignore"):
        warnings.simplefilter("ignore")
        q = u.get_prsnratio(pr, prsn)
        s2 = u.get_prsn(pr, q)
        p2 = u.get_pr(prsn, q)
    # element-wise and relative to the value that must come back: the fluxes can be tiny (kg m-2 s-1) and the snow
    # fraction can be a trace (prsn = 1e-12 pr); float rounding of q = prsn/pr, q*pr, prsn/q is a few ulp of the result
    tol = 1e-13 * np.abs(np.asarray(pr, dtype=float))
    tol_s = 1e-13 * np.abs(np.asarray(prsn, dtype=float))
    problems = []
    if np.shape(q) != np.shape(pr) or np.shape(s2) != np.shape(pr) or np.shape(p2) != np.shape(pr):
        return [(f"pr conversions change the shape: inputs {np.shape(pr)}, get_prsnratio {np.shape(q)}, get_prsn {np.shape(s2)}, get_pr {np.shape(p2)}", {})]
    bad = ~((np.asarray(q) >= 0) & (np.asarray(q) <= 1))
    if np.any(bad):
        problems.append(("prsnratio outside [0,1] for 0 <= prsn <= pr, pr > 0", first_bad(bad, pr, prsn, q)))
    bad = ~(np.abs(np.asarray(s2) - prsn) <= tol_s)
    if np.any(bad):
        problems.append(("get_prsn(pr, get_prsnratio(pr, prsn)) differs from prsn", first_bad(bad, pr, prsn, q, s2)))
    snow = np.asarray(prsn) != 0
    bad = snow & ~(np.abs(np.asarray(p2) - pr) <= tol)
    if np.any(bad):
        problems.append(("get_pr(prsn, get_prsnratio(pr, prsn)) differs from pr where prsn > 0", first_bad(bad, pr, prsn, q, p2)))
    return problems


@no_raise
def oracle_formulas(v, names):
    """each named function on the arrays of `v` (keys as in FUNC_ARGS) equals the documented formula of the values, to a
    few ulp of the operands — whatever the magnitude of a ratio / skew (trace fractions 1e-12, 1 - 1e-12, exact 0 and 1)"""
    u = U()
    problems = []
    for f in names:
        args = [v[a] for a in FUNC_ARGS[f]]
        with warnings.catch_warnings(), np.errstate(all="ignore"):
            warnings.simplefilter("ignore")
            want = seq_reference(f, {**{k: np.zeros(1) for k in ("tas", "tasmin", "tasmax", "r", "s", "pr", "prsn", "q")}, **v})
            out = getattr(u, f)(*args)
        got = out if isinstance(out, tuple) else (out,)
        for pos, (g, w) in enumerate(zip(got, want)):
            g = np.asarray(g, dtype=float)
            if g.shape != w.shape:
                problems.append((f"{f} output {pos} has shape {g.shape}, inputs {w.shape}", {"function": f}))
                continue
            fin = np.isfinite(w)
            wz = np.where(fin, w, 0.0)
            # a product / quotient is exact to an ulp of itself; a sum / difference to an ulp of its operands
            ulp = 1e-13 * (np.abs(wz) if f in ("get_prsn", "get_pr", "get_prsnratio") else np.maximum.reduce([np.abs(np.asarray(a, dtype=float)) for a in args] + [np.abs(wz)]))
            if f == "get_tasskew" or (f == "get_tasrange_tasskew" and pos == 1):
                ulp = 1e-13 * (np.abs(wz) + mag(*args) / np.maximum(np.abs(np.asarray(v["tasmax"]) - np.asarray(v["tasmin"])), 1e-300))
            bad = (np.isfinite(g) != fin) | (fin & ~(np.abs(np.where(fin, g, 0.0) - wz) <= ulp))
            if np.any(bad):
                problems.append((f"{f} output {pos} differs from the documented formula of its arguments", {"function": f, **first_bad(bad, *args, g, w)}))
    return problems


# ------------------------------------------------------------------ stateful sequences on the same array objects
# The conversions are documented as plain element-wise formulas: every call must equal a fresh computation from the
# CURRENT content of its arguments, whatever was called before on the same array objects and however the arrays were
# modified in place between the calls.  The reference is the documented formula evaluated here (never the functions
# under test, so the reference cannot disturb any hidden state), and no call may change its arguments.
SEQ_CALLS = ["get_tasrange", "get_tasskew", "get_tasrange_tasskew", "get_tasmin", "get_tasmax", "get_tasmin_tasmax",
             "get_prsnratio", "get_prsn", "get_pr"]
SEQ_MODS = ["shift_t", "scale_t", "perturb_tas", "swap_content_rs", "scale_pr"]


def seq_reference(name, v):
    """documented formulas on the current content of the named arrays"""
    tas, mn, mx, r, s, pr, prsn, q = (v[k] for k in ("tas", "tasmin", "tasmax", "r", "s", "pr", "prsn", "q"))
    with np.errstate(all="ignore"):
        if name == "get_tasrange":
            return (mx - mn,)
        if name == "get_tasskew":
            return ((tas - mn) / (mx - mn),)
        if name == "get_tasrange_tasskew":
            return (mx - mn, (tas - mn) / (mx - mn))
        if name == "get_tasmin":
            return (tas - s * r,)
        if name == "get_tasmax":
            return ((tas - s * r) + r,)
        if name == "get_tasmin_tasmax":
            return (tas - s * r, (tas - s * r) + r)
        if name == "get_prsnratio":
            return (prsn / pr,)
        if name == "get_prsn":
            return (q * pr,)
        return (prsn / q,)


def seq_call(u, name, v):
    f = getattr(u, name)
    args = {"get_tasrange": ("tasmin", "tasmax"), "get_tasskew": ("tas", "tasmin", "tasmax"), "get_tasrange_tasskew": ("tas", "tasmin", "tasmax"),
            "get_tasmin": ("tas", "r", "s"), "get_tasmax": ("tas", "r", "s"), "get_tasmin_tasmax": ("tas", "r", "s"),
            "get_prsnratio": ("pr", "prsn"), "get_prsn": ("pr", "q"), "get_pr": ("prsn", "q")}[name]
    out = f(*[v[a] for a in args])
    return (out if isinstance(out, tuple) else (out,)), args


def seq_mod(step, v):
    """in-place modifications of the SAME array objects (ids unchanged)"""
    kind, c = step[1], step[2]
    if kind == "shift_t":  # unit change K <-> degC: range and skew are invariant, so r and s stay valid
        for k in ("tas", "tasmin", "tasmax"):
            v[k] -= c
    elif kind == "scale_t":
        for k in ("tas", "tasmin", "tasmax", "r"):
            v[k] *= c
    elif kind == "perturb_tas":
        v["tas"] += c
    elif kind == "swap_content_rs":  # new content in r and s (still 0 <= s <= 1 not required for the formulas)
        v["r"] *= c
        v["s"] *= 0.5
    elif kind == "scale_pr":
        v["pr"] *= c
        v["prsn"] *= c


def gen_sequence(rng, n):
    """a script: calls and in-place modifications interleaved; the scripted prefixes are the patterns in which a value
    cached from an earlier call on the same objects would be stale"""
    pre = rng.choice([
        [("call", "get_tasmin"), ("mod", "shift_t", 273.15), ("call", "get_tasmax")],
        [("call", "get_tasmin"), ("mod", "perturb_tas", 1.5), ("call", "get_tasmin_tasmax")],
        [("call", "get_tasmin_tasmax"), ("mod", "shift_t", -40.0), ("call", "get_tasmax"), ("call", "get_tasmin")],
        [("call", "get_tasmax"), ("mod", "swap_content_rs", 2.0), ("call", "get_tasmax"), ("call", "get_tasmin_tasmax")],
        [("call", "get_tasskew"), ("mod", "perturb_tas", -0.25), ("call", "get_tasrange_tasskew"), ("call", "get_tasskew")],
        [("call", "get_tasrange"), ("mod", "scale_t", 2.0), ("call", "get_tasrange_tasskew"), ("call", "get_tasrange")],
        [("call", "get_prsnratio"), ("mod", "scale_pr", 4.0), ("call", "get_prsn"), ("call", "get_pr"), ("call", "get_prsnratio")],
        [("call", "get_prsn"), ("mod", "scale_pr", 0.5), ("call", "get_prsn"), ("call", "get_pr")],
    ])
    script = list(pre)
    for _ in range(n):
        if rng.random() < 0.35:
            kind = rng.choice(SEQ_MODS)
            c = {"shift_t": rng.choice([273.15, -273.15, 10.0]), "scale_t": rng.choice([2.0, 0.5]), "perturb_tas": rng.randint(-64, 64) / 64.0,
                 "swap_content_rs": rng.choice([2.0, 0.5]), "scale_pr": rng.choice([2.0, 0.25, 86400.0])}[kind]
            script.append(("mod", kind, c))
        else:
            script.append(("call", rng.choice(SEQ_CALLS)))
    return script


def run_sequence(init, script, record=None):
    """init: dict of lists (tas, tasmin, tasmax, pr, prsn). returns problems [(description, step index)].
    record (a dict): receives the eight initial arrays and the real outputs of every call, for the driver op `seq`"""
    u = U()
    v = {k: np.array(init[k], dtype=float) for k in ("tas", "tasmin", "tasmax", "pr", "prsn")}
    # np.array(..): 0-d results of arithmetic are numpy scalars, which cannot be modified in place
    v["r"], v["s"] = np.array(v["tasmax"] - v["tasmin"]), np.array((v["tas"] - v["tasmin"]) / (v["tasmax"] - v["tasmin"]))
    v["q"] = np.array(v["prsn"] / v["pr"])
    ids = {k: id(a) for k, a in v.items()}
    problems = []
    # results handed out by earlier calls (the objects as returned) with a copy of their content: a LATER CALL must not change
    # them (the value the caller holds is the clause's "returns the original tasmin / tasmax").  The caller's own in-place
    # modifications between calls are re-snapshotted right before the next call, so only the call itself is judged.
    held = []
    if record is not None:
        record["v0"] = {k: a.copy() for k, a in v.items()}
        record["outs"] = []
    for n, step in enumerate(script):
        if step[0] == "mod":
            seq_mod(step, v)
            continue
        name = step[1]
        before = {k: a.copy() for k, a in v.items()}
        held = [(m, nm, pos, obj, np.array(obj, copy=True)) for m, nm, pos, obj, _ in held]
        with warnings.catch_warnings(), np.errstate(all="ignore"):
            warnings.simplefilter("ignore")
            want = seq_reference(name, before)
            try:
                got, args = seq_call(u, name, v)
            except RealRaised as rr:
                problems.append((f"step {n} {name}: {rr.problem()[0]}", n))
                break
        if record is not None:
            record["outs"].append((name, tuple(np.array(g, dtype=float, copy=True) for g in got), mag(*[before[a] for a in args])))
        for k in v:
            if not np.array_equal(v[k], before[k], equal_nan=True) or id(v[k]) != ids[k]:
                problems.append((f"step {n} {name}: the call changed its argument '{k}'", n))
        for m, nm, pos, obj, snap in held:
            if not np.array_equal(np.asarray(obj), snap, equal_nan=True):
                problems.append((f"step {n} {name}: the call changed the result that step {m} {nm} (output {pos}) had returned", n))
                break
        held += [(n, name, pos, g, None) for pos, g in enumerate(got)]
        tol = REL * mag(*[before[a] for a in args])
        for pos, (g, w) in enumerate(zip(got, want)):
            g = np.asarray(g, dtype=float)
            if g.shape != w.shape:
                problems.append((f"step {n} {name} (output {pos}) has shape {g.shape}, the inputs have shape {w.shape}", n))
                continue
            fin = np.isfinite(w)
            bad = (np.isfinite(g) != fin) | (fin & ~(np.abs(np.where(fin, g - w, 0.0)) <= tol + REL * np.abs(np.where(fin, w, 0.0))))
            if g.shape != w.shape or np.any(bad):
                where = first_bad(bad, g, w) if g.shape == w.shape else {}
                problems.append((f"step {n} {name} (output {pos}) differs from a fresh computation on the current content of its arguments "
                                 f"after the calls/in-place changes before it: {where}", n))
        if problems:
            break
    return problems


# ------------------------------------------------------------------ dtypes and memory layouts
# "Arrays of any shape": numpy arrays come in integer and single-precision dtypes and in non-contiguous layouts
# (transposed / Fortran-ordered / strided / reversed views, singleton axes, broadcasting).  Every conversion must return
# the documented formula of the VALUES, with the broadcast shape of its inputs, a floating result wherever it divides, and
# must leave its inputs untouched.
LAYOUTS = ["C", "F", "T", "strided", "reversed", "moveaxis"]
DTYPES = ["float64", "float32", "int16", "int32", "int64"]
FUNC_ARGS = {"get_tasrange": ("tasmin", "tasmax"), "get_tasskew": ("tas", "tasmin", "tasmax"), "get_tasrange_tasskew": ("tas", "tasmin", "tasmax"),
             "get_tasmin": ("tas", "r", "s"), "get_tasmax": ("tas", "r", "s"), "get_tasmin_tasmax": ("tas", "r", "s"),
             "get_prsnratio": ("pr", "prsn"), "get_prsn": ("pr", "q"), "get_pr": ("prsn", "q")}
DIVIDES = {"get_tasskew": (0,), "get_tasrange_tasskew": (1,), "get_prsnratio": (0,), "get_pr": (0,)}


def make_variant(a, layout, dtype):
    """the same values in another dtype / memory layout (a view wherever the layout needs one)"""
    a = np.array(a, dtype=dtype, order="C")
    if a.ndim == 0 or layout == "C":
        return a
    if layout == "F":
        return np.asfortranarray(a)
    if layout == "T":
        return np.ascontiguousarray(a.T).T
    if layout == "strided":
        big = np.zeros((2 * a.shape[0],) + a.shape[1:], dtype=a.dtype)
        big[::2] = a
        return big[::2]
    if layout == "reversed":
        return np.ascontiguousarray(a[::-1])[::-1]
    return np.moveaxis(np.ascontiguousarray(np.moveaxis(a, 0, -1)), -1, 0)


def gen_layout_case(rng, tier):
    """integer-valued well-formed data (so every dtype holds it exactly); skew / ratio are genuinely fractional"""
    shape = rng.choice([(5,), (4, 3), (3, 2, 4), (6, 1, 1), (4, 1, 3), (1, 3, 2), (2, 3, 1), (7, 2)])
    n = int(np.prod(shape))
    mn = np.array([rng.randint(-40, 300) for _ in range(n)], dtype=float).reshape(shape)
    rg = np.array([rng.randint(1, 30) for _ in range(n)], dtype=float).reshape(shape)
    mx = mn + rg
    tas = mn + np.array([rng.randint(0, int(r)) for r in rg.reshape(-1)], dtype=float).reshape(shape)
    pr = np.array([rng.randint(1, 200) for _ in range(n)], dtype=float).reshape(shape)
    prsn = np.array([rng.randint(0, int(p)) for p in pr.reshape(-1)], dtype=float).reshape(shape)
    prsn.reshape(-1)[0] = max(1.0, prsn.reshape(-1)[0])
    base = {"tas": tas, "tasmin": mn, "tasmax": mx, "r": rg, "s": (tas - mn) / rg, "pr": pr, "prsn": prsn, "q": prsn / pr}
    func = rng.choice(sorted(FUNC_ARGS))
    spec = {}
    for a in FUNC_ARGS[func]:
        frac = a in ("s", "q")  # fractional by nature: floating dtypes only
        spec[a] = (rng.choice(LAYOUTS), rng.choice(["float64", "float32"] if frac else DTYPES))
    bc = None
    if rng.random() < 0.25 and len(shape) >= 2:  # broadcasting: one argument constant along an axis, passed with a singleton axis
        bc = rng.choice(FUNC_ARGS[func])
    return base, func, spec, bc


@no_raise
def oracle_layout(base, func, spec, bc, record=None):
    u = U()
    args, ref_v = [], {k: np.array(v, dtype=float) for k, v in base.items()}
    for a in FUNC_ARGS[func]:
        x = np.array(base[a], dtype=float)
        if bc == a:
            x = x[:1] if x.ndim else x  # shape (1, ...) broadcasts along the first axis
            ref_v[a] = np.broadcast_to(x, np.shape(base[a])).copy()
        if spec[a][1] == "float32":
            ref_v[a] = ref_v[a].astype(np.float32).astype(float)
        args.append(make_variant(x, *spec[a]))
    snap = [(a.tobytes(), a.shape, a.strides, a.dtype) for a in args]
    want = seq_reference(func, ref_v)
    with warnings.catch_warnings(), np.errstate(all="ignore"):
        warnings.simplefilter("ignore")
        out = getattr(u, func)(*args)
    got = out if isinstance(out, tuple) else (out,)
    if record is not None:  # the values in logical order (what the model sees) and the real outputs, for the driver
        record["args"] = [ref_v[a] for a in FUNC_ARGS[func]]
        record["got"] = got
    problems = []
    what = f"{func}({', '.join(f'{a}: {spec[a][1]} {spec[a][0]}' + (' broadcast' if bc == a else '') for a in FUNC_ARGS[func])})"
    for a, sn in zip(args, snap):
        if (a.tobytes(), a.shape, a.strides, a.dtype) != sn:
            problems.append((f"{what} changed one of its arguments", {}))
    single = any(spec[a][1] == "float32" for a in FUNC_ARGS[func])
    rel = 2e-6 if single else REL
    bshape = np.broadcast_shapes(*[a.shape for a in args])
    for pos, (g, w) in enumerate(zip(got, want)):
        g = np.asarray(g)
        if g.shape != tuple(bshape):
            problems.append((f"{what}: output {pos} has shape {g.shape}, the broadcast shape of the inputs is {tuple(bshape)}", {}))
            continue
        if pos in DIVIDES.get(func, ()) and g.dtype.kind != "f":
            problems.append((f"{what}: output {pos} (a quotient) has dtype {g.dtype}", {}))
        gf, fin = g.astype(float), np.isfinite(w)  # prsn = 0: ratio 0, pr not recoverable (NaN / inf on both sides)
        wz = np.where(fin, w, 0.0)
        bad = (np.isfinite(gf) != fin) | (fin & ~(np.abs(np.where(fin, gf, 0.0) - wz) <= rel * (mag(wz) + np.abs(wz))))
        if np.any(bad):
            problems.append((f"{what}: output {pos} differs from the documented formula of the values", first_bad(bad, g.astype(float), w)))
    return problems


# ------------------------------------------------------------------ ambient settings
# The conversions are pure formulas of their arguments: what the process has configured around them (verbosity of the
# library logger, numpy's floating-point error state, the warnings filters, print options) must not change a result.
# harness/common.py silences the 'ibicus' logger, so the oracle sets the level itself and restores everything.
AMBIENTS = ["logger DEBUG", "logger INFO", "root logger DEBUG", "errstate raise", "warnings as errors", "errstate ignore", "printoptions"]


class ambient:
    def __init__(self, name):
        self.name = name

    def __enter__(self):
        import logging

        self.lg, self.root = logging.getLogger("ibicus"), logging.getLogger()
        self.saved = (self.lg.level, self.lg.propagate, list(self.lg.handlers), self.root.level, logging.root.manager.disable, list(self.root.handlers))
        self.cm = []
        if self.name.startswith("logger") or self.name == "root logger DEBUG":
            logging.disable(logging.NOTSET)
            self.lg.addHandler(logging.NullHandler())
            # only a NullHandler on the root: without handlers it would print through logging.lastResort, and
            # logging.warning() installs a StreamHandler (basicConfig) the first time it is called
            self.root.handlers[:] = [logging.NullHandler()]
            self.lg.propagate = False  # nothing is printed
            if self.name == "root logger DEBUG":
                self.root.setLevel(logging.DEBUG)
                self.lg.setLevel(logging.NOTSET)  # inherits DEBUG from the root
            else:
                level = logging.DEBUG if self.name.endswith("DEBUG") else logging.INFO
                try:
                    import ibicus.utils._utils as uu

                    uu.set_verbosity_library_logger(level)  # the documented way
                except Exception:  # noqa: BLE001
                    self.lg.setLevel(level)
        elif self.name == "errstate raise":
            self.cm = [np.errstate(all="raise")]
        elif self.name == "errstate ignore":
            self.cm = [np.errstate(all="ignore")]
        elif self.name == "warnings as errors":
            w = warnings.catch_warnings()
            self.cm = [w]
        elif self.name == "printoptions":
            self.cm = [np.printoptions(precision=1, threshold=3, suppress=True)]
        for c in self.cm:
            c.__enter__()
        if self.name == "warnings as errors":
            warnings.simplefilter("error")
        return self

    def __exit__(self, *exc):
        import logging

        for c in reversed(self.cm):
            c.__exit__(*exc)
        self.lg.setLevel(self.saved[0])
        self.lg.propagate = self.saved[1]
        self.lg.handlers[:] = self.saved[2]
        self.root.setLevel(self.saved[3])
        self.root.handlers[:] = self.saved[5]
        logging.disable(self.saved[4])
        return False


@no_raise
def oracle_ambient(name, tas, tasmin, tasmax, pr, prsn):
    """well-formed float64 data: under the ambient setting `name` every function returns the documented formula, the
    paired functions equal the single ones bit for bit, the round trip holds and the inputs are untouched"""
    u = U()
    v = {"tas": tas, "tasmin": tasmin, "tasmax": tasmax, "pr": pr, "prsn": prsn}
    v["r"], v["s"], v["q"] = np.array(tasmax - tasmin), np.array((tas - tasmin) / (tasmax - tasmin)), np.array(prsn / pr)
    before = {k: np.array(a, copy=True) for k, a in v.items()}
    want = {f: seq_reference(f, before) for f in FUNC_ARGS}
    got = {}
    with ambient(name):
        for f in sorted(FUNC_ARGS):
            out = getattr(u, f)(*[v[a] for a in FUNC_ARGS[f]])
            got[f] = tuple(np.array(o, copy=True) for o in (out if isinstance(out, tuple) else (out,)))
        r, s = u.get_tasrange_tasskew(tas, tasmin, tasmax)
        back = u.get_tasmin_tasmax(tas, r, s)
    problems = []
    what = f"with {name}"
    for k in v:
        if not np.array_equal(np.asarray(v[k]), before[k], equal_nan=True):
            problems.append((f"{what}: a call changed its argument '{k}'", {}))
    for f in sorted(FUNC_ARGS):
        tol = REL * mag(*[before[a] for a in FUNC_ARGS[f]])
        for pos, (g, w) in enumerate(zip(got[f], want[f])):
            if g.shape != w.shape:
                problems.append((f"{what}: {f} output {pos} has shape {g.shape}, inputs {w.shape}", {}))
                continue
            fin = np.isfinite(w)
            wz = np.where(fin, w, 0.0)
            bad = (np.isfinite(g) != fin) | (fin & ~(np.abs(np.where(fin, g, 0.0) - wz) <= tol + REL * np.abs(wz)))
            if np.any(bad):
                problems.append((f"{what}: {f} output {pos} differs from the documented formula", first_bad(bad, g, w)))
    for pair, singles in (("get_tasrange_tasskew", ("get_tasrange", "get_tasskew")), ("get_tasmin_tasmax", ("get_tasmin", "get_tasmax"))):
        for pos, sg in enumerate(singles):
            if not np.array_equal(got[pair][pos], got[sg][0], equal_nan=True):
                problems.append((f"{what}: {pair}(...)[{pos}] differs from {sg}(...)", {}))
    tol = REL * mag(tas, tasmin, tasmax)
    for nm, b, orig in (("tasmin", back[0], tasmin), ("tasmax", back[1], tasmax)):
        bad = ~(np.abs(np.asarray(b) - orig) <= tol)
        if np.shape(b) != np.shape(orig) or np.any(bad):
            problems.append((f"{what}: round trip does not return {nm}", first_bad(bad, tas, tasmin, tasmax, np.asarray(b)) if np.shape(b) == np.shape(orig) else {}))
    return problems


# ------------------------------------------------------------------ magnitudes over the whole floating range
# Quantifier covered: "for ALL arrays ... with tasmin < tasmax, tasmin <= tas <= tasmax, and ALL pr > 0, 0 <= prsn <= pr" —
# *all* includes every magnitude a float of the storage dtype can hold: subnormal ("numerical drizzle" of model output,
# float64 below 2.2e-308, float32 below 1.2e-38), barely normal, tiny, huge.  The other generators stay within
# 2^-30 .. 2^9, where a reciprocal, a square, a product of two inputs ... can neither overflow nor underflow, so a rewrite
# that is only the same formula over the reals is indistinguishable there.  Values are k/64 * 2^e with e chosen so that
# every value is exactly representable in the dtype (quantum 2^e/64 >= smallest subnormal), per array or per element
# (ordinary days mixed with drizzle days).  The largest values leave 2^17 of headroom below the overflow threshold, so
# tasmin + tasrange and prsn / prsnratio (= pr up to rounding) of the documented formulas cannot overflow.
MAG_EXPS = {"float64": [-1068, -1062, -1055, -1047, -1040, -1033, -1030, -1026, -1022, -1015, -1000, -600, -200, -60, -17, 0, 60, 200, 600, 1000],
            "float32": [-143, -141, -138, -135, -132, -129, -127, -126, -124, -120, -90, -40, -17, 0, 40, 90, 100]}
MAG_ORDINARY = {"pr": -17, "tas": 0}


def gen_magnitude(rng, tier):
    import math

    family = rng.choice(["pr", "pr", "tas"])
    dtype = rng.choice(["float64", "float64", "float32"])
    while True:
        shape = gen_shape(rng, tier)
        if int(np.prod(shape)) > 0:
            break
    n = int(np.prod(shape))
    exps = MAG_EXPS[dtype]
    mode = rng.choice(["uniform", "mixed", "drizzle"])
    e0 = rng.choice(exps)
    low = [e for e in exps if e < (-1020 if dtype == "float64" else -124)]  # values k/64 * 2^e below the smallest normal number
    cols = {k: [] for k in (("pr", "prsn") if family == "pr" else ("tas", "tasmin", "tasmax"))}
    for _ in range(n):
        e = e0 if mode == "uniform" else rng.choice(exps) if mode == "mixed" else (rng.choice(low) if rng.random() < 0.3 else MAG_ORDINARY[family])
        if family == "pr":
            pk = rng.randint(1, 3200)
            sk = rng.choice([0, pk, rng.randint(0, pk), rng.randint(0, pk)])
            cols["pr"].append(math.ldexp(pk / 64.0, e))
            cols["prsn"].append(math.ldexp(sk / 64.0, e))
        else:
            sc = rng.choice([1, 8, 64, 320])
            lk = rng.randint(-sc * 64, sc * 64)
            rk = rng.randint(1, 2560)
            tk = lk + rng.choice([0, rk, rng.randint(0, rk), rng.randint(0, rk)])
            cols["tas"].append(math.ldexp(tk / 64.0, e))
            cols["tasmin"].append(math.ldexp(lk / 64.0, e))
            cols["tasmax"].append(math.ldexp((lk + rk) / 64.0, e))
    case = {"family": "magnitude-" + family, "dtype": dtype, "shape": list(shape), "mode": mode}
    for k, col in cols.items():
        a = np.array(col, dtype=float).reshape(shape)
        assert np.array_equal(a.astype(dtype).astype(float), a), "generator: value not representable in " + dtype
        case[k] = a.tolist()
    return case


def _rows(bad, **arrs):
    idx = tuple(int(i) for i in np.argwhere(bad)[0])
    return {"index": list(idx), "n_bad": int(np.sum(bad)), **{k: float(np.asarray(a)[idx]) for k, a in arrs.items()}}


@no_raise
def oracle_magnitude(case):
    """C18 for data of any magnitude of the dtype.  Tolerances are element-wise: 8 eps of the dtype relative to the value that
    must come back (each documented formula is at most three correctly rounded operations), plus 4 smallest-subnormals for
    a result that is itself subnormal (there an operation rounds to the subnormal grid, not relatively)."""
    u = U()
    dt = np.dtype(case["dtype"])
    eps, tiny = float(np.finfo(dt).eps), float(np.finfo(dt).smallest_subnormal)
    A = lambda k: np.asarray(case[k], dtype=float).astype(dt).reshape(case["shape"])  # noqa: E731
    F = lambda a: np.asarray(a, dtype=float)  # noqa: E731
    problems = []
    if case["family"] == "magnitude-pr":
        pr, prsn = A("pr"), A("prsn")
        with warnings.catch_warnings(), np.errstate(all="ignore"):
            warnings.simplefilter("ignore")
            q = u.get_prsnratio(pr, prsn)
            s2 = u.get_prsn(pr, q)
            p2 = u.get_pr(prsn, q)
            exact = F(prsn) / F(pr)
        for nm, a in (("get_prsnratio", q), ("get_prsn", s2), ("get_pr", p2)):
            if np.shape(a) != pr.shape:
                return [(f"{nm} changes the shape", {"got": list(np.shape(a))})]
        q, s2, p2 = F(q), F(s2), F(p2)
        bad = ~((q >= 0) & (q <= 1))
        if np.any(bad):
            problems.append(("prsnratio outside [0,1] (or not finite) for 0 <= prsn <= pr, pr > 0", _rows(bad, pr=pr, prsn=prsn, prsnratio=q, exact=exact)))
        bad = ~(np.abs(q - exact) <= 8 * eps * exact)
        if np.any(bad):
            problems.append(("get_prsnratio differs from prsn / pr", _rows(bad, pr=pr, prsn=prsn, prsnratio=q, exact=exact)))
        bad = ~(np.abs(s2 - F(prsn)) <= 8 * eps * F(prsn) + 4 * tiny)
        if np.any(bad):
            problems.append(("get_prsn(pr, get_prsnratio(pr, prsn)) differs from prsn", _rows(bad, pr=pr, prsn=prsn, prsnratio=q, got=s2)))
        bad = (F(prsn) > 0) & ~(np.abs(p2 - F(pr)) <= 8 * eps * F(pr) + 4 * tiny)
        if np.any(bad):
            problems.append(("get_pr(prsn, get_prsnratio(pr, prsn)) differs from pr where prsn > 0", _rows(bad, pr=pr, prsn=prsn, prsnratio=q, got=p2)))
        return problems
    tas, tasmin, tasmax = A("tas"), A("tasmin"), A("tasmax")
    with warnings.catch_warnings(), np.errstate(all="ignore"):
        warnings.simplefilter("ignore")
        r, s = u.get_tasrange_tasskew(tas, tasmin, tasmax)
        r1, s1 = u.get_tasrange(tasmin, tasmax), u.get_tasskew(tas, tasmin, tasmax)
        mn, mx = u.get_tasmin_tasmax(tas, r, s)
        mn1, mx1 = u.get_tasmin(tas, r, s), u.get_tasmax(tas, r, s)
        exact_s = (F(tas) - F(tasmin)) / (F(tasmax) - F(tasmin))  # numerator and denominator are exact (multiples of one quantum)
    for nm, a in (("tasrange", r), ("tasskew", s), ("tasmin", mn), ("tasmax", mx), ("get_tasrange", r1), ("get_tasskew", s1), ("get_tasmin", mn1), ("get_tasmax", mx1)):
        if np.shape(a) != tas.shape:
            return [(f"{nm} changes the shape", {"got": list(np.shape(a))})]
    if not (np.array_equal(r, r1, equal_nan=True) and np.array_equal(s, s1, equal_nan=True)):
        problems.append(("get_tasrange_tasskew differs from (get_tasrange, get_tasskew)", {}))
    if not (np.array_equal(mn, mn1, equal_nan=True) and np.array_equal(mx, mx1, equal_nan=True)):
        problems.append(("get_tasmin_tasmax differs from (get_tasmin, get_tasmax)", {}))
    r, s, mn, mx = F(r), F(s), F(mn), F(mx)
    tol = 8 * eps * np.maximum.reduce([np.abs(F(tas)), np.abs(F(tasmin)), np.abs(F(tasmax))]) + 4 * tiny
    bad = ~((s >= 0) & (s <= 1) & (r > 0))
    if np.any(bad):
        problems.append(("tasskew outside [0,1] or tasrange <= 0 for tasmin <= tas <= tasmax, tasmin < tasmax", _rows(bad, tas=tas, tasmin=tasmin, tasmax=tasmax, tasrange=r, tasskew=s)))
    bad = ~(np.abs(r - (F(tasmax) - F(tasmin))) <= tol)
    if np.any(bad):
        problems.append(("get_tasrange differs from tasmax - tasmin", _rows(bad, tasmin=tasmin, tasmax=tasmax, tasrange=r)))
    bad = ~(np.abs(s - exact_s) <= 8 * eps * exact_s)
    if np.any(bad):
        problems.append(("get_tasskew differs from (tas - tasmin) / (tasmax - tasmin)", _rows(bad, tas=tas, tasmin=tasmin, tasmax=tasmax, tasskew=s, exact=exact_s)))
    bad = ~(np.abs(mn - F(tasmin)) <= tol)
    if np.any(bad):
        problems.append(("round trip does not return tasmin", _rows(bad, tas=tas, tasmin=tasmin, tasmax=tasmax, got=mn)))
    bad = ~(np.abs(mx - F(tasmax)) <= tol)
    if np.any(bad):
        problems.append(("round trip does not return tasmax", _rows(bad, tas=tas, tasmin=tasmin, tasmax=tasmax, got=mx)))
    bad = ~((mn <= F(tas) + tol) & (F(tas) <= mx + tol))
    if np.any(bad):
        problems.append(("tasmin <= tas <= tasmax violated after the round trip", _rows(bad, tas=tas, tasmin_back=mn, tasmax_back=mx)))
    return problems


# ------------------------------------------------------------------ realistic array sizes, results kept while other data is converted
# Quantifier covered: "arrays of ANY shape" — any *size* as well: the other generators stop at ~100 elements, so a code path
# that is only taken from some size on (work buffers kept for big grids, chunking, a different numpy code path) was never
# run.  And the clause "returns the original tasmin and tasmax" is a statement about the VALUE handed to the caller: it must
# still be that value when the caller looks at it after converting the next data set (obs, then cm_hist, then cm_future —
# the ordinary workflow), i.e. no later call on OTHER arrays may change a result returned earlier.  The sequence oracle above
# judges every call right after it returns and so cannot see a result that is overwritten later.
# A case is a recipe (sizes, seeds, call order) — the arrays themselves are regenerated from it (replay files stay small).
GRID_SIZES = {"small": [1000, 4096, 10_000, 2 ** 15, 2 ** 16], "mid": [100_000, 2 ** 17, 250_000, 2 ** 18, 500_000],
              "large": [1_000_000, 2 ** 20, 1_200_000, 1_500_000], "huge": [2_000_000, 2 ** 21, 3_000_000, 4_000_000, 2 ** 22]}


def grid_shape(rng, size):
    """a shape with (at least, and for the exact variants exactly) `size` elements: [time], [time, cell] or [time, lat, lon]"""
    kind = rng.choice(["1d", "2d", "3d", "3d", "3d-exact"])
    if kind == "1d":
        return (size,)
    if kind == "2d":
        c = rng.randint(2, 40)
        return (-(-size // c), c)
    if kind == "3d-exact":
        for la, lo in rng.sample([(50, 50), (40, 25), (32, 32), (20, 10), (16, 8), (10, 10), (8, 8), (5, 4), (4, 4), (2, 2)], 10):
            if size % (la * lo) == 0:
                return (size // (la * lo), la, lo)
        return (size, 1, 1)
    la, lo = rng.randint(2, 60), rng.randint(2, 60)
    return (max(1, -(-size // (la * lo))), la, lo)


def gen_retained(rng, cls):
    size = rng.choice(GRID_SIZES[cls])
    shape = grid_shape(rng, size)
    dtype = rng.choice(["float64", "float64", "float64", "float32"])
    nds = 2 if cls in ("large", "huge") else rng.choice([2, 3])
    datasets = []
    for d in range(nds):
        sh = shape
        if d > 0 and rng.random() < 0.25:  # another period: a different number of time steps
            sh = (max(1, shape[0] + rng.choice([-1, 1]) * rng.randint(1, max(1, shape[0] // 4))),) + tuple(shape[1:])
        calls = list(SEQ_CALLS)
        rng.shuffle(calls)
        calls += [rng.choice(SEQ_CALLS) for _ in range(rng.randint(0, 2))]
        datasets.append({"shape": list(sh), "dtype": dtype if (d == 0 or rng.random() < 0.85) else ("float32" if dtype == "float64" else "float64"),
                         "seed": rng.getrandbits(32), "calls": calls})
    return {"family": "retained", "size_class": cls, "shape": list(shape), "datasets": datasets}


def make_grid(seed, shape, dtype):
    """well-formed data k/64 (exact in float32 as well) of one data set, drawn by numpy's generator from `seed`:
    tasmin < tasmax, tasmin <= tas <= tasmax (the bounds occur), pr > 0, 0 <= prsn <= pr (0 and pr occur), a flux unit"""
    g = np.random.default_rng(seed)
    shape = tuple(shape)
    off = int(g.integers(-40, 300))
    mnk = np.rint((off + 8.0 * g.standard_normal(shape)) * 64.0)
    rk = g.integers(1, 64 * 15 + 1, size=shape)
    tk = mnk + np.floor(g.random(shape) * (rk + 1))  # 0 .. rk
    prk = g.integers(1, 3201, size=shape)
    snk = np.floor(g.random(shape) * (prk + 1))  # 0 .. prk
    unit = 2.0 ** -int(g.choice([0, 10, 17]))
    v = {"tas": tk / 64.0, "tasmin": mnk / 64.0, "tasmax": (mnk + rk) / 64.0, "pr": prk / 64.0 * unit, "prsn": snk / 64.0 * unit}
    v = {k: np.ascontiguousarray(a, dtype=dtype) for k, a in v.items()}
    with np.errstate(all="ignore"):
        v["r"] = v["tasmax"] - v["tasmin"]
        v["s"] = (v["tas"] - v["tasmin"]) / v["r"]
        v["q"] = v["prsn"] / v["pr"]
    return v


def _differs(g, w, scale, rel):
    """element mask: g is not the reference w to rounding (w non-finite: g must be non-finite as well)"""
    ok = np.abs(g - w) <= rel * scale + rel * np.abs(w)  # False wherever g or w is not finite
    if ok.all():
        return ~ok
    fin = np.isfinite(w)
    return (np.isfinite(g) != fin) | (fin & ~ok)


def _same_content(obj, snap):
    a = np.asarray(obj)
    if a.shape != snap.shape or a.dtype != snap.dtype:
        return False
    return bool((a == snap).all()) or np.array_equal(a, snap, equal_nan=True)


def oracle_retained(case):
    """every call equals the documented formula of its arguments when it returns; every result returned so far is STILL what
    was returned (bit for bit, hence still the formula of the unchanged arguments it was computed from) after the following
    calls — looked at after every call for grids up to 1e5 values, after every data set and at the end for the bigger ones;
    no call changes an argument"""
    u = U()
    problems = []
    data, held = [], []  # held: (data set, position of the call in its script, function, output number, the object as returned, copy of its content)
    every_call = int(np.prod(case["shape"])) <= 100_000

    def rel_of(d):
        return 2e-6 if case["datasets"][d]["dtype"] == "float32" else REL

    def check_held(after):
        for d, c, name, pos, obj, snap in held:
            if _same_content(obj, snap):
                continue
            v, ref, amax = data[d]
            want = seq_reference(name, ref)[pos]
            g = np.asarray(obj, dtype=float)
            bad = _differs(g, want, max([1.0] + [amax[a] for a in FUNC_ARGS[name]]), rel_of(d)) if g.shape == want.shape else np.ones(1, dtype=bool)
            if not np.any(bad):  # changed within rounding: report the first changed element
                bad = ~((g == snap) | (np.isnan(g) & np.isnan(snap)))
            problems.append((f"a result returned earlier ({name}, output {pos}) was changed by later calls on other arrays: it no longer equals the "
                             f"formula of the unchanged arguments it was computed from",
                             {"result_of": {"dataset": d, "call": c, "function": name, "output": pos}, "changed_after": after,
                              **(_rows(bad, now=g, returned=snap, formula=want) if g.shape == want.shape else {"shape_now": list(g.shape)})}))
            return True
        return False

    with warnings.catch_warnings(), np.errstate(all="ignore"):
        warnings.simplefilter("ignore")
        for d, ds in enumerate(case["datasets"]):
            v = make_grid(ds["seed"], ds["shape"], ds["dtype"])
            ref = {k: a.astype(float) for k, a in v.items()}  # copies: the reference side never sees the arrays handed to the real code
            amax = {k: float(np.max(np.abs(a))) if a.size else 0.0 for k, a in ref.items()}
            data.append((v, ref, amax))
            for c, name in enumerate(ds["calls"]):
                try:
                    got, args = seq_call(u, name, v)
                except RealRaised as rr:
                    return [(f"{name} raised {type(rr.ex).__name__} on valid input ({str(rr.ex)[:120]})", {"dataset": d, "call": c, "function": name})]
                want = seq_reference(name, ref)
                for k in args:
                    if not (v[k] == ref[k]).all():
                        problems.append((f"{name} changed its argument '{k}'", {"dataset": d, "call": c}))
                for pos, (g, w) in enumerate(zip(got, want)):
                    gf = np.asarray(g, dtype=float)
                    if gf.shape != w.shape:
                        problems.append((f"{name} output {pos} has shape {gf.shape}, the inputs have shape {w.shape}", {"dataset": d, "call": c}))
                        continue
                    bad = _differs(gf, w, max([1.0] + [amax[a] for a in args]), rel_of(d))
                    if np.any(bad):
                        problems.append((f"{name} output {pos} differs from the documented formula of its arguments", {"dataset": d, "call": c, **_rows(bad, got=gf, expected=w)}))
                if problems or (every_call and check_held({"dataset": d, "call": c, "function": name})):
                    return problems
                held += [(d, c, name, pos, g, np.array(g, copy=True)) for pos, g in enumerate(got)]
            for k in v:  # all arrays of the data set, also those the last calls did not take
                if not (v[k] == ref[k]).all():
                    problems.append((f"the calls changed the array '{k}' of the data set", {"dataset": d}))
            if problems or check_held({"dataset": d, "calls": ds["calls"]}):
                return problems
        # the round-trip clause on the retained results: what get_tasmin_tasmax returned for (tas, range, skew) of a data set is
        # that data set's tasmin / tasmax, and tasmin <= tas <= tasmax, looked at when everything has been converted
        done = set()
        for d, c, name, pos, obj, snap in held:
            if name != "get_tasmin_tasmax" or (d, pos) in done:
                continue
            done.add((d, pos))
            v, ref, amax = data[d]
            orig = ref["tasmin"] if pos == 0 else ref["tasmax"]
            tol = rel_of(d) * max(1.0, amax["tas"], amax["tasmin"], amax["tasmax"])
            g = np.asarray(obj, dtype=float)
            bad = ~(np.abs(g - orig) <= tol) | ~((g <= ref["tas"] + tol) if pos == 0 else (ref["tas"] <= g + tol))
            if np.any(bad):
                problems.append((f"round trip does not return {'tasmin' if pos == 0 else 'tasmax'} (looked at when all data sets were converted)",
                                 {"dataset": d, "call": c, **_rows(bad, got=g, original=orig, tas=ref["tas"])}))
                break
    return problems


# ------------------------------------------------------------------ mixed precision of the arguments
# Quantifier covered: "for ALL arrays ... (tas, tasmin, tasmax)" / "(pr, prsn)" — the arrays of ONE call are separate objects
# and each comes in its own dtype: tas as float64 out of a debiaser while tasrange / tasskew were stored in single (or half)
# precision, integer-packed observations beside float model output, ...  The other generators give every argument of a call
# values k/64 (representable in every floating dtype), and the layout oracle judges a call with one single-precision
# argument at single-precision tolerance as a whole — so a result that silently loses the precision of its FINER argument
# (computed in, or written into a buffer of, the coarser dtype) was indistinguishable.  Here every argument carries values
# with the full mantissa of its own dtype (not representable in the coarser dtype of its neighbours), and every clause is
# judged against the exact rational value of the anchored formula on the values as given.  Tolerance: the forward error bound
# of that formula when every operation is rounded at numpy's promoted dtype of ITS operands (4 eps of that dtype, relative to
# the operands of that operation) — i.e. each argument may cost what its own precision explains and nothing more.
PREC_FLOATS = ["float64", "float32", "float16"]
PREC_INTS = ["int16", "int32", "int64"]
PREC_K = 4.0


def _prec_eps(div, *dts):
    """(eps, smallest subnormal) of the dtype in which numpy evaluates one operation on operands of dtypes dts;
    integer +, -, * are exact; a quotient of integers is float64"""
    rt = np.result_type(*[np.dtype(d) for d in dts])
    if rt.kind != "f":
        if not div:
            return 0.0, 0.0, rt
        rt = np.dtype("float64")
    fi = np.finfo(rt)
    return float(fi.eps), float(fi.smallest_subnormal), rt


def _prec_cast(x, dt):
    """x as a python float holding exactly the value that dtype dt stores for it (integers: rounded)"""
    d = np.dtype(dt)
    return float(np.array(round(x) if d.kind in "iu" else x, dtype=float).astype(d))


def _prec_dtypes(rng, names, frac=()):
    """one dtype per argument; fractional arguments (skew, ratio) are floating.  Patterns: one argument finer than the rest,
    one coarser, all different at random, all equal (control)"""
    pat = rng.choice(["finer", "finer", "coarser", "random", "random", "equal"])
    fl = lambda: rng.choice(["float64", "float64", "float32", "float32", "float32", "float16"])  # noqa: E731
    if pat == "equal":
        d = fl()
        out = {a: d for a in names}
    elif pat in ("finer", "coarser"):
        lo, hi = rng.choice([("float32", "float64"), ("float32", "float64"), ("float16", "float32"), ("float16", "float64")])
        odd = rng.choice(names)
        out = {a: ((hi if pat == "finer" else lo) if a == odd else (lo if pat == "finer" else hi)) for a in names}
    else:
        out = {a: fl() for a in names}
    if rng.random() < 0.25:  # integer data (whole Kelvin / packed) beside floating data
        cand = [a for a in names if a not in frac]
        if cand:
            out[rng.choice(cand)] = rng.choice(PREC_INTS)
    return out


def gen_precision(rng, tier, family):
    """family 'tas' (tas, tasmin, tasmax with tasmin < tasmax, tasmin <= tas <= tasmax AS STORED VALUES), 'inv' (tas, tasrange >= 0,
    0 <= tasskew <= 1), 'pr' (pr > 0, 0 <= prsn <= pr, and a ratio q in [0, 1] of its own dtype for the single formulas)"""
    while True:
        shape = gen_shape(rng, tier)
        if int(np.prod(shape)) > 0:
            break
    n = int(np.prod(shape))
    names = {"tas": ("tas", "tasmin", "tasmax"), "inv": ("tas", "r", "s"), "pr": ("pr", "prsn", "q")}[family]
    dts = _prec_dtypes(rng, list(names), frac=("s", "q"))
    if family == "pr":  # half precision cannot hold fluxes (kg m-2 s-1 are subnormal there): single / double / integers only
        dts = {a: ("float32" if d == "float16" else d) for a, d in dts.items()}
    kelvin = rng.random() < 0.4
    scale = rng.choice([1, 8, 64, 320])
    anyint = any(np.dtype(d).kind in "iu" for d in dts.values())
    unit = 1.0 if anyint else 2.0 ** -rng.choice([0, 0, 10, 17, 20])
    cols = {a: [] for a in names}
    for _ in range(n):
        for attempt in range(200):
            if family == "tas":
                lo = _prec_cast(rng.uniform(230.0, 320.0) if kelvin else rng.uniform(-scale, scale), dts["tasmin"])
                hi = _prec_cast(lo + rng.choice([rng.uniform(2.0 ** -6, 40.0), rng.uniform(1.0, 40.0), float(rng.randint(1, 40))]), dts["tasmax"])
                kind = rng.choice(["in", "in", "in", "min", "max", "nearmin", "nearmax"]) if attempt < 100 else "in"
                e = (hi - lo) * 2.0 ** -rng.randint(8, 30)
                t = _prec_cast({"in": lo + rng.random() * (hi - lo), "min": lo, "max": hi, "nearmin": lo + e, "nearmax": hi - e}[kind], dts["tas"])
                if lo < hi and lo <= t <= hi:
                    for a, x in zip(names, (t, lo, hi)):
                        cols[a].append(x)
                    break
            elif family == "inv":
                t = _prec_cast(rng.uniform(230.0, 320.0) if kelvin else rng.uniform(-scale, scale), dts["tas"])
                r = _prec_cast(rng.choice([0.0, rng.uniform(0.0, 40.0), rng.uniform(0.0, 40.0), rng.randint(0, 2560) / 64.0]), dts["r"])
                s = _prec_cast(rng.choice([0.0, 1.0, rng.random(), rng.random(), rng.randint(0, 64) / 64.0, 2.0 ** -rng.randint(8, 40),
                                           1 - 2.0 ** -rng.randint(8, 40)]), dts["s"])
                if r >= 0 and 0 <= s <= 1:
                    for a, x in zip(names, (t, r, s)):
                        cols[a].append(x)
                    break
            else:
                p = _prec_cast((float(rng.randint(1, 200)) if anyint else rng.uniform(2.0 ** -6, 50.0)) * unit, dts["pr"])
                f = 2.0 ** -rng.randint(8, 38)
                sn = _prec_cast(rng.choice([0.0, p, rng.random() * p, rng.random() * p, p * f, p - p * f]), dts["prsn"])
                q = _prec_cast(rng.choice([0.0, 1.0, rng.random(), rng.random(), f, 1 - f]), dts["q"])
                if p > 0 and 0 <= sn <= p and 0 <= q <= 1:
                    for a, x in zip(names, (p, sn, q)):
                        cols[a].append(x)
                    break
        else:
            raise AssertionError("generator: no well-formed element found for " + str(dts))
    return {"family": "precision-" + family, "shape": list(shape), "dtypes": dts, **{a: np.array(c).reshape(shape).tolist() for a, c in cols.items()}}


def _fr(a):
    return [Fraction(float(x)) for x in np.asarray(a, dtype=float).reshape(-1)]


def _prec_bad(got, exact, tol):
    """element mask (flat): got (array) is not the exact value (list of Fraction, None = undefined: got must be non-finite)
    within tol (flat float array)"""
    g = np.asarray(got, dtype=float).reshape(-1)
    bad = np.zeros(g.size, dtype=bool)
    err = np.zeros(g.size)
    for i, (x, e) in enumerate(zip(g, exact)):
        if e is None:
            bad[i] = bool(np.isfinite(x))
        elif not np.isfinite(x):
            bad[i] = True
        else:
            err[i] = float(abs(Fraction(float(x)) - e))
            bad[i] = not (err[i] <= tol[i])
    return bad, err


@no_raise
def oracle_precision(case):
    """C18 for arguments of different precision (see the section comment).  Clauses judged: every function = its anchored formula
    of the values as given; paired = single functions; the round trip returns tasmin / tasmax; tasmin <= tas <= tasmax for
    0 <= tasskew <= 1, tasrange >= 0; prsnratio in [0, 1] and pr / prsn recovered; the shape is kept; no argument is changed."""
    u = U()
    fam, dts, shape = case["family"], case["dtypes"], tuple(case["shape"])
    A = lambda k: np.asarray(case[k], dtype=float).astype(dts[k]).reshape(shape)  # noqa: E731
    F = lambda a: np.asarray(a, dtype=float).reshape(-1)  # noqa: E731
    K = PREC_K
    problems = []
    what = ", ".join(f"{a}: {d}" for a, d in dts.items())

    def judge(desc, got, exact, tol, **shown):
        if np.shape(got) != shape:
            problems.append((f"{desc}: the result has shape {np.shape(got)}, the inputs {shape}", {"dtypes": what}))
            return
        bad, err = _prec_bad(got, exact, tol)
        if np.any(bad):
            i = int(np.argmax(bad))
            problems.append((f"{desc} beyond what the precision of the arguments explains",
                             {"dtypes": what, "result_dtype": str(np.asarray(got).dtype), "flat_index": i, "n_bad": int(bad.sum()), "got": float(F(got)[i]),
                              "exact": None if exact[i] is None else float(exact[i]), "error": float(err[i]), "allowed": float(tol[i]),
                              **{k: float(F(a)[i]) for k, a in shown.items()}}))

    def same(desc, a, b):
        if np.shape(a) != np.shape(b) or not np.array_equal(np.asarray(a), np.asarray(b), equal_nan=True):
            problems.append((desc, {"dtypes": what}))

    with warnings.catch_warnings(), np.errstate(all="ignore"):
        warnings.simplefilter("ignore")
        if fam == "precision-pr":
            pr, prsn, q = A("pr"), A("prsn"), A("q")
            args = (pr, prsn, q)
            snap = [a.tobytes() for a in args]
            ratio = u.get_prsnratio(pr, prsn)
            s_own, p_own = u.get_prsn(pr, q), u.get_pr(prsn, q)
            back = None
            if np.shape(ratio) == shape:
                back = (u.get_prsn(pr, ratio), u.get_pr(prsn, ratio))
            ec, tc, _ = _prec_eps(True, dts["pr"], dts["prsn"])
            xp, xs, xq = _fr(pr), _fr(prsn), _fr(q)
            judge("get_prsnratio differs from prsn / pr", ratio, [b / a for a, b in zip(xp, xs)], K * ec * F(prsn) / F(pr) + 4 * tc, pr=pr, prsn=prsn)
            e1, t1, _ = _prec_eps(False, dts["pr"], dts["q"])
            judge("get_prsn differs from prsnratio * pr", s_own, [a * b for a, b in zip(xq, xp)], K * e1 * F(q) * F(pr) + 4 * t1, pr=pr, prsnratio=q)
            e2, t2, _ = _prec_eps(True, dts["prsn"], dts["q"])
            judge("get_pr differs from prsn / prsnratio", p_own, [None if b == 0 else a / b for a, b in zip(xs, xq)],
                  K * e2 * F(prsn) / np.where(F(q) == 0, 1.0, F(q)) + 4 * t2, prsn=prsn, prsnratio=q)
            if back is not None and not problems:
                rq = F(ratio)
                if np.any(~((rq >= 0) & (rq <= 1))):
                    problems.append(("prsnratio outside [0,1] for 0 <= prsn <= pr, pr > 0", {"dtypes": what, **_rows(~((rq >= 0) & (rq <= 1)), pr=F(pr), prsn=F(prsn), prsnratio=rq)}))
                judge("get_prsn(pr, get_prsnratio(pr, prsn)) differs from prsn", back[0], xs, 3 * K * ec * F(prsn) + 8 * tc, pr=pr, prsn=prsn, prsnratio=ratio)
                snow = F(prsn) > 0
                judge("get_pr(prsn, get_prsnratio(pr, prsn)) differs from pr where prsn > 0", np.where(snow.reshape(shape), np.asarray(back[1], dtype=float), F(pr).reshape(shape)),
                      xp, 3 * K * ec * F(pr) + 8 * tc, pr=pr, prsn=prsn, prsnratio=ratio)
        elif fam == "precision-inv":
            tas, r, s = A("tas"), A("r"), A("s")
            args = (tas, r, s)
            snap = [a.tobytes() for a in args]
            mn, mx = u.get_tasmin_tasmax(tas, r, s)
            mn1, mx1 = u.get_tasmin(tas, r, s), u.get_tasmax(tas, r, s)
            same("get_tasmin_tasmax differs from (get_tasmin, get_tasmax)", mn, mn1)
            same("get_tasmin_tasmax differs from (get_tasmin, get_tasmax)", mx, mx1)
            esr, tsr, dsr = _prec_eps(False, dts["s"], dts["r"])
            eo, to, _ = _prec_eps(False, dts["tas"], dsr)
            xt, xr, xs = _fr(tas), _fr(r), _fr(s)
            off = F(s) * F(r)
            tol_mn = K * (esr * off + eo * np.maximum(np.abs(F(tas)), off)) + 4 * (tsr + to)
            xmn = [t - b * a for t, a, b in zip(xt, xr, xs)]
            judge("get_tasmin differs from tas - tasskew * tasrange", mn, xmn, tol_mn, tas=tas, tasrange=r, tasskew=s)
            fmn = np.array([float(x) for x in xmn])
            tol_mx = tol_mn + K * eo * np.maximum(np.abs(fmn), F(r))
            judge("get_tasmax differs from tasmin + tasrange", mx, [m + a for m, a in zip(xmn, xr)], tol_mx, tas=tas, tasrange=r, tasskew=s)
            if np.shape(mn) == shape and np.shape(mx) == shape:  # the property's own clause, judged whatever the formulas above said
                lo_ok = F(mn) <= F(tas) + K * eo * np.abs(F(tas))
                hi_ok = F(tas) <= F(mx) + K * eo * (np.abs(F(tas)) + F(r))
                bad = ~(lo_ok & hi_ok)
                if np.any(bad):
                    problems.append(("tasmin <= tas <= tasmax violated for 0 <= tasskew <= 1, tasrange >= 0",
                                     {"dtypes": what, **_rows(bad, tas=F(tas), tasrange=F(r), tasskew=F(s), tasmin=F(mn), tasmax=F(mx))}))
        else:
            tas, tasmin, tasmax = A("tas"), A("tasmin"), A("tasmax")
            args = (tas, tasmin, tasmax)
            snap = [a.tobytes() for a in args]
            r, s = u.get_tasrange_tasskew(tas, tasmin, tasmax)
            r1, s1 = u.get_tasrange(tasmin, tasmax), u.get_tasskew(tas, tasmin, tasmax)
            same("get_tasrange_tasskew differs from (get_tasrange, get_tasskew)", r, r1)
            same("get_tasrange_tasskew differs from (get_tasrange, get_tasskew)", s, s1)
            ea, ta, da = _prec_eps(False, dts["tasmin"], dts["tasmax"])  # the range
            eb, tb, db = _prec_eps(False, dts["tas"], dts["tasmin"])  # the numerator of the skew
            ec, tc, dc = _prec_eps(True, da, db)  # the quotient, and everything computed from it
            xt, xn, xx = _fr(tas), _fr(tasmin), _fr(tasmax)
            m_tn = np.maximum(np.abs(F(tas)), np.abs(F(tasmin)))
            m_xn = np.maximum(np.abs(F(tasmax)), np.abs(F(tasmin)))
            den = F(tasmax) - F(tasmin)
            xsk = [(t - a) / (b - a) for t, a, b in zip(xt, xn, xx)]
            fsk = np.array([float(x) for x in xsk])
            tol_r = K * ea * m_xn + 4 * ta
            tol_s = K * (eb * m_tn / den + ea * m_xn / den * fsk + ec * fsk) + 4 * tc
            judge("get_tasrange differs from tasmax - tasmin", r, [b - a for a, b in zip(xn, xx)], tol_r, tasmin=tasmin, tasmax=tasmax)
            judge("get_tasskew differs from (tas - tasmin) / (tasmax - tasmin)", s, xsk, tol_s, tas=tas, tasmin=tasmin, tasmax=tasmax)
            if not problems:
                rs_ok = (F(r) > 0) & (F(s) >= -tol_s) & (F(s) <= 1 + tol_s)
                if np.any(~rs_ok):
                    problems.append(("tasskew outside [0,1] or tasrange <= 0 for tasmin <= tas <= tasmax, tasmin < tasmax",
                                     {"dtypes": what, **_rows(~rs_ok, tas=F(tas), tasmin=F(tasmin), tasmax=F(tasmax), tasrange=F(r), tasskew=F(s))}))
                mn, mx = u.get_tasmin_tasmax(tas, r, s)
                mn1, mx1 = u.get_tasmin(tas, r, s), u.get_tasmax(tas, r, s)
                same("get_tasmin_tasmax differs from (get_tasmin, get_tasmax)", mn, mn1)
                same("get_tasmin_tasmax differs from (get_tasmin, get_tasmax)", mx, mx1)
                # propagated through range -> skew -> skew * range -> tas - .. (-> + range): see the section comment
                tol_mn = K * (eb * m_tn + ea * m_xn * fsk + ec * (2 * (F(tas) - F(tasmin)) + m_tn)) + 4 * (ta + tb + tc)
                tol_mx = tol_mn + K * (ea * m_xn + ec * np.abs(F(tasmax)))
                judge("round trip does not return tasmin", mn, xn, tol_mn, tas=tas, tasmin=tasmin, tasmax=tasmax)
                judge("round trip does not return tasmax", mx, xx, tol_mx, tas=tas, tasmin=tasmin, tasmax=tasmax)
                if not problems:
                    bad = ~((F(mn) <= F(tas) + tol_mn) & (F(tas) <= F(mx) + tol_mx))
                    if np.any(bad):
                        problems.append(("tasmin <= tas <= tasmax violated after the round trip",
                                         {"dtypes": what, **_rows(bad, tas=F(tas), tasmin_back=F(mn), tasmax_back=F(mx))}))
    for name, a, sn in zip(dts, args, snap):
        if a.tobytes() != sn:
            problems.append((f"a call changed its argument '{name}'", {"dtypes": what}))
    return problems


# ------------------------------------------------------------------ correspondence helpers
def flat(a):
    return [float(x) for x in np.asarray(a, dtype=float).reshape(-1)]


def rl(a):
    return C.rlist(flat(a))


def cmp_vals(impl, model_txt, scale):
    """impl: real output (array); model_txt: driver list with `none` for div0. returns None or a description"""
    impl = flat(impl)
    model = [] if model_txt == "-" else model_txt.split(",")
    if len(impl) != len(model):
        return f"length impl={len(impl)} model={len(model)}"
    for k, (a, m) in enumerate(zip(impl, model)):
        if m == "none":
            if np.isfinite(a):
                return f"element {k}: impl={a!r} but the model divides by zero"
            continue
        mv = Fraction(m)
        if not np.isfinite(a):
            return f"element {k}: impl={a!r} model={float(mv)!r}"
        if abs(Fraction(a) - mv) > Fraction(1e-9) * (1 + Fraction(scale) + abs(mv)):
            return f"element {k}: impl={a!r} model={float(mv)!r}"
    return None


def run(tier, res, force_search=False):
    u = U()
    rng = random.Random(C.seed() * 6007 + 18)
    res.rule = ("cases = (family tas-forward | tas-inverse | pr, flavour wellformed | degenerate | free, array shape incl. 0-d, empty, 1..4-d) "
                "with dyadic values k/64 from one PRNG (VERIF_SEED); a case is non-trivial when the array is non-empty and not constant; "
                "distinct = distinct (family, flavour, shape, values); plus call sequences (scripted stale-cache patterns + random calls / in-place "
                "modifications) on the same array objects; plus dtype / memory-layout / singleton-axis / broadcasting variants of integer-valued data; "
                "plus magnitudes k/64 * 2^e over the whole range of float64 / float32 (subnormal .. 2^1000); plus grids of 1e3 .. 1.5e6 values "
                "(thorough 4e6), 2-3 data sets converted one after the other with every result re-judged after the later calls; plus arguments of "
                "different precision in one call (float64 / float32 / float16 / integers per argument, full-mantissa values of each dtype), judged "
                "against the exact rational formula with the forward error bound of numpy's type promotion")
    res.trusted = C.BASE_TRUSTED + [
        "numpy arithmetic on arrays is element-wise and shape-preserving; x/0 yields inf/NaN (modelled as Py.divE's error \"div0\")",
        "translator option partial_div: every `/` of a translated function is Py.divE; functions without `/` are total",
    ]
    res.assumptions = ["decided by the oracle on the real code only (the value-level model over exact rationals cannot exhibit them): dtype of the "
                       "inputs / floating result of a quotient, numpy views and strides (the model states the value-level fact: "
                       "Props.C18.storage_order2/3, map*_getD), arguments left untouched and absence of hidden caches keyed on object identity "
                       "(the specification is Model.Convert.run, Props.C18.call_fresh / calls_do_not_change_arrays; the driver op `seq` runs the "
                       "same scripts), logger verbosity / np.errstate / warnings filters / print options (process state), float rounding, "
                       "overflow / underflow at the ends of the floating range of the dtype (oracle_magnitude; over the rationals the theorems hold for "
                       "every magnitude), array size and the persistence of a returned result while other arrays are converted (oracle_retained), "
                       "the precision of a result when the arguments of one call have different dtypes (oracle_precision)",
                       "exact rational arithmetic: float rounding is carried by the tolerance (1e-12 relative for the round trip on the real code, 1e-9 for model vs code)",
                       "inputs are finite floats"]

    lean_ok = C.lean_phase(res, PROP, GEN, TARGETS)

    n = 40 if tier == "quick" else 600
    if force_search or not lean_ok:
        n *= 3
    problems_all = []
    lines, expect = [], []

    def add(op, args, impl, case, scale):
        lines.append(op + " " + " ".join(rl(a) for a in args))
        expect.append((op, case, impl, scale))

    for k in range(n):
        try:
            flavour = rng.choice(["wellformed", "wellformed", "degenerate", "free"])
            # ---------------- tas forward + round trip
            tas, tasmin, tasmax = gen_tas(rng, tier, flavour)
            case = {"family": "tas-forward", "flavour": flavour, "shape": list(tas.shape)}
            nontriv = tas.size > 0 and (np.unique(tas).size > 1 or np.unique(tasmin).size > 1)
            res.count(("tas", flavour, tas.shape, tas.tobytes(), tasmin.tobytes(), tasmax.tobytes()), nontriv,
                      sample={**case, "tas": flat(tas)[:4], "tasmin": flat(tasmin)[:4], "tasmax": flat(tasmax)[:4]} if nontriv else None)
            sc = mag(tas, tasmin, tasmax)
            with warnings.catch_warnings(), np.errstate(all="ignore"):
                warnings.simplefilter("ignore")
                r = u.get_tasrange(tasmin, tasmax)
                s = u.get_tasskew(tas, tasmin, tasmax)
                rs = u.get_tasrange_tasskew(tas, tasmin, tasmax)
            add("tasrange", [tasmin, tasmax], r, case, sc)
            add("tasskew", [tas, tasmin, tasmax], s, case, sc)
            lines.append("rangeskew " + " ".join(rl(a) for a in (tas, tasmin, tasmax)))
            expect.append(("rangeskew", case, rs, sc))
            if flavour == "wellformed":
                for p, d in oracle_tas(tas, tasmin, tasmax):
                    problems_all.append((p, {"oracle": "tas", "tas": tas.tolist(), "tasmin": tasmin.tolist(), "tasmax": tasmax.tolist(), **case, "detail": d}))
            # the inverse functions on the *computed* (non-dyadic) skew: exact rationals of the doubles are sent
            if np.all(np.isfinite(np.asarray(s))):
                with warnings.catch_warnings(), np.errstate(all="ignore"):
                    warnings.simplefilter("ignore")
                    mn = u.get_tasmin(tas, r, s)
                    mx = u.get_tasmax(tas, r, s)
                add("tasmin", [tas, r, s], mn, {**case, "family": "tas-roundtrip"}, sc)
                add("tasmax", [tas, r, s], mx, {**case, "family": "tas-roundtrip"}, sc)
            # ---------------- tas inverse on direct inputs
            fl2 = "wellformed" if flavour == "wellformed" else "free"
            tas2, r2, s2 = gen_inverse(rng, tier, fl2)
            case2 = {"family": "tas-inverse", "flavour": fl2, "shape": list(tas2.shape)}
            nt2 = tas2.size > 0 and np.unique(tas2).size > 1
            res.count(("inv", fl2, tas2.shape, tas2.tobytes(), r2.tobytes(), s2.tobytes()), nt2,
                      sample={**case2, "tas": flat(tas2)[:4], "tasrange": flat(r2)[:4], "tasskew": flat(s2)[:4]} if nt2 else None)
            sc2 = mag(tas2, r2, s2) * 4
            with warnings.catch_warnings(), np.errstate(all="ignore"):
                warnings.simplefilter("ignore")
                mm = u.get_tasmin_tasmax(tas2, r2, s2)
                hp = u._get_tasmax_from_tasmin_and_range(r2, tas2)
            add("tasmin", [tas2, r2, s2], u.get_tasmin(tas2, r2, s2), case2, sc2)
            add("tasmax", [tas2, r2, s2], u.get_tasmax(tas2, r2, s2), case2, sc2)
            add("helper", [r2, tas2], hp, case2, sc2)
            lines.append("tasminmax " + " ".join(rl(a) for a in (tas2, r2, s2)))
            expect.append(("tasminmax", case2, mm, sc2))
            for p, d in oracle_formulas({"tas": tas2, "r": r2, "s": s2}, ["get_tasmin", "get_tasmax", "get_tasmin_tasmax"]):
                problems_all.append((p, {"oracle": "formulas", "names": ["get_tasmin", "get_tasmax", "get_tasmin_tasmax"],
                                         "v": {"tas": tas2.tolist(), "r": r2.tolist(), "s": s2.tolist()}, **case2, "detail": d}))
            for p, d in oracle_formulas({"tas": tas, "tasmin": tasmin, "tasmax": tasmax}, ["get_tasrange", "get_tasskew", "get_tasrange_tasskew"]):
                problems_all.append((p, {"oracle": "formulas", "names": ["get_tasrange", "get_tasskew", "get_tasrange_tasskew"],
                                         "v": {"tas": tas.tolist(), "tasmin": tasmin.tolist(), "tasmax": tasmax.tolist()}, **case, "detail": d}))
            if fl2 == "wellformed":
                for p, d in oracle_order(tas2, r2, s2):
                    problems_all.append((p, {"oracle": "order", "tas": tas2.tolist(), "tasrange": r2.tolist(), "tasskew": s2.tolist(), **case2, "detail": d}))
            # ---------------- pr
            pr, prsn = gen_pr(rng, tier, flavour)
            case3 = {"family": "pr", "flavour": flavour, "shape": list(pr.shape)}
            nt3 = pr.size > 0 and np.unique(pr).size > 1
            res.count(("pr", flavour, pr.shape, pr.tobytes(), prsn.tobytes()), nt3,
                      sample={**case3, "pr": flat(pr)[:4], "prsn": flat(prsn)[:4]} if nt3 else None)
            sc3 = mag(pr, prsn)
            with warnings.catch_warnings(), np.errstate(all="ignore"):
                warnings.simplefilter("ignore")
                q = u.get_prsnratio(pr, prsn)
            add("prsnratio", [pr, prsn], q, case3, sc3)
            qd = fill(pr.shape, lambda: rng.choice([0.0, 1.0, rng.randint(0, 64) / 64.0, rng.randint(-128, 128) / 64.0,
                                                    2.0 ** -rng.randint(10, 40), 1 - 2.0 ** -rng.randint(10, 40)]))
            for p, d in oracle_formulas({"pr": pr, "prsn": prsn, "q": qd}, ["get_prsnratio", "get_prsn", "get_pr"]):
                problems_all.append((p, {"oracle": "formulas", "names": ["get_prsnratio", "get_prsn", "get_pr"],
                                         "v": {"pr": pr.tolist(), "prsn": prsn.tolist(), "q": qd.tolist()}, **case3, "detail": d}))
            with warnings.catch_warnings(), np.errstate(all="ignore"):
                warnings.simplefilter("ignore")
                add("pr", [prsn, qd], u.get_pr(prsn, qd), case3, sc3 * 64)
                add("prsn", [pr, qd], u.get_prsn(pr, qd), case3, sc3 * 4)
                if np.all(np.isfinite(np.asarray(q))):
                    add("pr", [prsn, q], u.get_pr(prsn, q), {**case3, "family": "pr-roundtrip"}, sc3)
                    add("prsn", [pr, q], u.get_prsn(pr, q), {**case3, "family": "pr-roundtrip"}, sc3)
            if flavour == "wellformed":
                for p, d in oracle_pr(pr, prsn):
                    problems_all.append((p, {"oracle": "pr", "pr": pr.tolist(), "prsn": prsn.tolist(), **case3, "detail": d}))
        except RealRaised as rr:
            p_, d_ = rr.problem()
            problems_all.append((p_, d_))

    # ambient settings: logger verbosity, numpy error state, warnings filters
    n_amb = (3 if tier == "quick" else 20) * (3 if (force_search or not lean_ok) else 1)
    for k in range(n_amb):
        while True:
            tas, tasmin, tasmax = gen_tas(rng, tier, "wellformed")
            if tas.size > 1:
                break
        pr = fill(tas.shape, lambda: rng.randint(1, 64 * 50) / 64.0)
        prsn = pr * fill(tas.shape, lambda: rng.randint(1, 64) / 64.0)
        for name in AMBIENTS:
            res.count(("ambient", name, tas.shape, tas.tobytes()), True,
                      sample={"family": "ambient", "setting": name, "shape": list(tas.shape)} if (k == 0 and name == AMBIENTS[0]) else None)
            for p, d in oracle_ambient(name, tas, tasmin, tasmax, pr, prsn):
                problems_all.append((p, {"oracle": "ambient", "family": "ambient", "setting": name, "shape": list(tas.shape), "tas": tas.tolist(),
                                         "tasmin": tasmin.tolist(), "tasmax": tasmax.tolist(), "pr": pr.tolist(), "prsn": prsn.tolist(), "detail": d}))

    # dtypes / memory layouts / singleton axes / broadcasting
    n_lay = (60 if tier == "quick" else 900) * (3 if (force_search or not lean_ok) else 1)
    for k in range(n_lay):
        base, func, spec, bc = gen_layout_case(rng, tier)
        res.count(("layout", func, tuple(sorted(spec.items())), bc, base["tas"].shape, base["tas"].tobytes()), True,
                  sample={"family": "layout", "function": func, "spec": {a: list(v) for a, v in spec.items()}, "broadcast": bc,
                          "shape": list(base["tas"].shape)} if k == 0 else None)
        rec = {}
        lay_problems = oracle_layout(base, func, spec, bc, rec)
        if not lay_problems and "got" in rec:
            # tie of Props.C18.storage_order*/map*_getD: the model on the values in logical order = the real code on the views
            dop = {"get_tasrange": "tasrange", "get_tasskew": "tasskew", "get_tasrange_tasskew": "rangeskew", "get_tasmin": "tasmin",
                   "get_tasmax": "tasmax", "get_tasmin_tasmax": "tasminmax", "get_prsnratio": "prsnratio", "get_prsn": "prsn", "get_pr": "pr"}[func]
            single = any(spec[a][1] == "float32" for a in FUNC_ARGS[func])
            lsc = mag(*rec["args"]) * (1e4 if single else 1.0)
            lcase = {"family": "layout", "function": func, "shape": list(base["tas"].shape)}
            lines.append(dop + " " + " ".join(rl(a) for a in rec["args"]))
            expect.append((dop, lcase, rec["got"] if len(rec["got"]) == 2 else rec["got"][0], lsc))
        for p, d in lay_problems:
            problems_all.append((p, {"oracle": "layout", "family": "layout", "shape": list(base["tas"].shape), "function": func,
                                     "spec": {a: list(v) for a, v in spec.items()}, "broadcast": bc,
                                     "base": {a: np.asarray(v).tolist() for a, v in base.items()}, "detail": d}))

    # stateful sequences: the same array objects reused across calls, modified in place between calls
    n_seq = (12 if tier == "quick" else 150) * (3 if (force_search or not lean_ok) else 1)
    for k in range(n_seq):
        tas, tasmin, tasmax = gen_tas(rng, tier, "wellformed")
        if tas.size == 0:
            continue
        pr = fill(tas.shape, lambda: rng.randint(1, 64 * 50) / 64.0)
        prsn = pr * fill(tas.shape, lambda: rng.randint(1, 64) / 64.0)
        init = {"tas": tas.tolist(), "tasmin": tasmin.tolist(), "tasmax": tasmax.tolist(), "pr": pr.tolist(), "prsn": prsn.tolist()}
        script = gen_sequence(rng, rng.randint(4, 14))
        res.count(("seq", tas.shape, tuple(map(str, script)), tas.tobytes()), True,
                  sample={"family": "sequence", "shape": list(tas.shape), "script": [list(x) for x in script][:6]} if k == 0 else None)
        res.extra["sequence_steps"] = res.extra.get("sequence_steps", 0) + len(script)
        rec = {}
        seq_problems = run_sequence(init, script, rec)
        if not seq_problems and rec.get("outs"):
            # tie of Model.Convert.run (Props.C18.call_fresh): the same script through the driver
            v0 = rec["v0"]
            stxt = ";".join(("c." + st[1]) if st[0] == "call" else f"m.{st[1]}.{C.rat(st[2])}" for st in script)
            lines.append("seq " + " ".join(rl(v0[a]) for a in ("tas", "tasmin", "tasmax", "r", "s", "pr", "prsn", "q")) + " " + stxt)
            expect.append(("seq", {"family": "sequence", "shape": list(tas.shape), "script": stxt[:200]}, rec["outs"], 0.0))
        for p, nstep in seq_problems:
            problems_all.append((p, {"oracle": "sequence", "family": "sequence", "shape": list(tas.shape), "init": init,
                                     "script": [list(x) for x in script[:nstep + 1]], "detail": {"step": nstep}}))

    # magnitudes over the whole range of the dtype (subnormal .. huge), float64 and float32
    n_mag = (30 if tier == "quick" else 400) * (3 if (force_search or not lean_ok) else 1)
    for k in range(n_mag):
        mcase = gen_magnitude(rng, tier)
        res.count(("magnitude", mcase["family"], mcase["dtype"], mcase["mode"], str(mcase.get("pr", mcase.get("tas")))), True,
                  sample={kk: mcase[kk] for kk in ("family", "dtype", "shape", "mode")} if k == 0 else None)
        for p, d in oracle_magnitude(mcase):
            problems_all.append((p, {"oracle": "magnitude", **mcase, "detail": d}))

    # arguments of different precision (own PRNG stream: the case streams above and below do not shift)
    rng_p = random.Random(C.seed() * 7919 + 1806)
    n_prec = (30 if tier == "quick" else 300) * (3 if (force_search or not lean_ok) else 1)
    for k in range(n_prec):
        for fam in ("tas", "inv", "pr"):
            pcase = gen_precision(rng_p, tier, fam)
            mixed = len(set(pcase["dtypes"].values())) > 1
            res.count(("precision", fam, str(sorted(pcase["dtypes"].items())), str(pcase[{"tas": "tas", "inv": "tas", "pr": "pr"}[fam]])), mixed,
                      sample={kk: pcase[kk] for kk in ("family", "dtypes", "shape")} if (k == 0 and fam == "inv") else None)
            for p, d in oracle_precision(pcase):
                problems_all.append((p, {"oracle": "precision", **pcase, "detail": d}))

    # realistic grid sizes (1e3 .. 1.5e6 values, thorough: 4e6), several data sets converted one after the other, results kept
    classes = ["small", "small", "mid", "large"] if tier == "quick" else ["small"] * 6 + ["mid"] * 4 + ["large"] * 3 + ["huge"]
    if force_search or not lean_ok:
        classes += ["mid", "large", "large"]
    for k, cls in enumerate(classes):
        rcase = gen_retained(rng, cls)
        res.count(("retained", str(rcase["datasets"])), True,
                  sample={"family": "retained", "shape": rcase["shape"], "datasets": len(rcase["datasets"]), "dtype": rcase["datasets"][0]["dtype"]} if k == 0 else None)
        res.extra["largest_array"] = max(res.extra.get("largest_array", 0), int(np.prod(rcase["shape"])))
        try:
            rprobs = oracle_retained(rcase)
        except MemoryError as ex:  # the machine, not the code under test
            res.extra["retained_skipped"] = res.extra.get("retained_skipped", 0) + 1
            rprobs = []
        for p, d in rprobs:
            problems_all.append((p, {"oracle": "retained", **rcase, "detail": d}))

    # python scalars (0-d without numpy): the functions are plain formulas and must accept them
    for k in range(6):
        lo = dy(rng, -20, 20)
        hi = lo + rng.randint(1, 640) / 64.0
        t = lo + rng.randint(0, int((hi - lo) * 64)) / 64.0
        for p, d in oracle_tas(np.float64(t), np.float64(lo), np.float64(hi)):
            problems_all.append((p, {"oracle": "tas", "tas": t, "tasmin": lo, "tasmax": hi, "family": "tas-forward", "flavour": "numpy-scalar", "detail": d}))
        res.count(("scalar", t, lo, hi), True)

    # long records (own PRNG stream; see LONG RECORDS)
    lrng = random.Random(C.seed() * 7919 + 1804)
    long_ns = [2 ** e + d for e in (10, 11, 12, 13) for d in (-1, 0, 1)] + [lrng.randint(1000, 20000) for _ in range(4 if tier == "quick" else 40)]
    for n_long in long_ns:
        lc = {"oracle": "long", "family": "long-record", "n": n_long, "trailing": list(lrng.choice([(), (2, 3), (1, 1)])), "np_seed": lrng.randint(0, 2**31 - 2)}
        for p, d in oracle_long(lc):
            problems_all.append((p + f" (leading-axis length {n_long})", {**lc, "detail": d}))
        res.count(("long", n_long, tuple(lc["trailing"])), True, sample=lc)
    res.extra["oracle_long_record_lengths"] = len(long_ns)

    mismatches = []
    try:
        out = C.run_driver("DrvConvert", lines)
        for (op, case, impl, scale), got in zip(expect, out):
            res.cov["traces_validated_against_impl"] += 1
            if op == "seq":
                calls_ = got.split("|")
                why = None if len(calls_) == len(impl) else f"driver returned {len(calls_)} calls for {len(impl)}"
                for (fname, outs_, sc_), txt in zip(impl, calls_):
                    if why:
                        break
                    parts = txt.split(";")
                    if len(parts) != len(outs_):
                        why = f"{fname}: {len(parts)} outputs in the model, {len(outs_)} in the real code"
                    for o_, p_ in zip(outs_, parts):
                        why = why or cmp_vals(o_, p_, sc_ * 1e3)  # in-place float modifications round at every step
                    if why:
                        why = f"{fname}: {why}"
            elif op in ("rangeskew", "tasminmax"):
                parts = got.split(";")
                if len(parts) != 2:
                    why = "driver: " + got[:80]
                else:
                    why = cmp_vals(impl[0], parts[0], scale) or cmp_vals(impl[1], parts[1], scale)
                    if why is None and (np.shape(impl[0]) != tuple(case["shape"]) or np.shape(impl[1]) != tuple(case["shape"])):
                        why = f"shape {np.shape(impl[0])} / {np.shape(impl[1])}"
            else:
                why = cmp_vals(impl, got, scale)
                if why is None and np.shape(impl) != tuple(case["shape"]):
                    why = f"shape {np.shape(impl)}"
            if why:
                mismatches.append({"op": op, "case": case, "why": why})
    except (C.DriverError, Exception) as ex:  # noqa: BLE001
        mismatches.append({"op": "driver", "case": {}, "why": f"{type(ex).__name__}: {str(ex)[:400]}"})
    if mismatches:
        res.tie_broken.append(f"correspondence DrvConvert: {len(mismatches)} mismatches, first: {mismatches[0]}")
    res.extra["correspondence_mismatches"] = len(mismatches)

    seen = set()
    for p, case in problems_all:
        key = (" ".join(p.split(" ")[:2]) if case.get("oracle") == "formulas" else (case.get("setting"), p.split(":")[1][:30]) if case.get("oracle") == "ambient" else p if case.get("oracle") not in ("sequence", "layout", "raise") else
               (" ".join(p.split(" ")[2:4]) if case.get("oracle") == "sequence" else (case.get("function"), p.split(":")[-1][:12])), case.get("oracle"))
        if len(res.violations) >= 6:
            break
        if key in seen:
            continue
        seen.add(key)
        res.violations.append((f"{case.get('oracle')}: {p} (shape {case.get('shape')}, {case.get('detail')})",
                               {"property": PROP, "failing_input": case, "problem": p, "signature": {"oracle": case.get("oracle"), "problem": p}}))
    if res.tie_broken and not problems_all:
        res.violations.append(("proof obligation / correspondence no longer checks: " + "; ".join(res.tie_broken)[:600],
                               {"property": PROP, "failing_input": None, "broken": res.tie_broken, "mismatches": mismatches[:5]}))
    return res


# ---- LONG RECORDS (session 4, after seeded change C18-19): "arrays of any shape" includes daily records of many years; the leading-axis lengths
# are taken around powers of two (block sizes of a chunked implementation) and at random.  Inputs are rebuilt from (np_seed, n, trailing), so the
# replay file stays small.  Own PRNG stream.
def long_case(lc):
    nprs = np.random.RandomState(lc["np_seed"])
    shape = (lc["n"],) + tuple(lc["trailing"])
    mn = nprs.randint(-40 * 64, 300 * 64, size=shape) / 64.0
    rg = nprs.randint(1, 30 * 64, size=shape) / 64.0
    sk = nprs.randint(0, 65, size=shape) / 64.0
    tas = mn + sk * rg
    pr = nprs.randint(1, 200 * 64, size=shape) / 64.0
    prsn = pr * nprs.randint(1, 65, size=shape) / 64.0
    return tas, mn, mn + rg, rg, sk, pr, prsn


def oracle_long(lc):
    tas, mn, mx, rg, sk, pr, prsn = long_case(lc)
    return oracle_tas(tas, mn, mx) + oracle_order(tas, rg, sk) + oracle_pr(pr, prsn)



def replay(data):
    """re-run the oracle of a replay file on the real code: exit 1 if the violation reproduces"""
    fi = data.get("failing_input")
    if not fi:
        print("replay without failing input: run ./check C18 --tier quick")
        return 2
    A = lambda k: np.asarray(fi[k], dtype=float)  # noqa: E731
    if fi["oracle"] == "formulas":
        probs = oracle_formulas({k: np.asarray(a, dtype=float) for k, a in fi["v"].items()}, fi["names"])
    elif fi["oracle"] == "ambient":
        probs = oracle_ambient(fi["setting"], A("tas"), A("tasmin"), A("tasmax"), A("pr"), A("prsn"))
    elif fi["oracle"] == "raise":
        try:
            with warnings.catch_warnings(), np.errstate(all="ignore"):
                warnings.simplefilter("ignore")
                getattr(U(), fi["function"])(*[np.asarray(a, dtype=dt).reshape(sh) for a, dt, sh in zip(fi["args"], fi["dtypes"], fi["shapes"])])
            probs = []
        except RealRaised as rr:
            probs = [rr.problem()]
    elif fi["oracle"] == "layout":
        probs = oracle_layout({k: np.asarray(v, dtype=float) for k, v in fi["base"].items()}, fi["function"],
                              {a: tuple(v) for a, v in fi["spec"].items()}, fi["broadcast"])
    elif fi["oracle"] == "sequence":
        probs = [(p, {"step": n}) for p, n in run_sequence(fi["init"], [tuple(x) for x in fi["script"]])]
    elif fi["oracle"] == "magnitude":
        probs = oracle_magnitude(fi)
    elif fi["oracle"] == "retained":
        probs = oracle_retained(fi)
    elif fi["oracle"] == "precision":
        probs = oracle_precision(fi)
    elif fi["oracle"] == "tas":
        probs = oracle_tas(A("tas"), A("tasmin"), A("tasmax"))
    elif fi["oracle"] == "order":
        probs = oracle_order(A("tas"), A("tasrange"), A("tasskew"))
    elif fi["oracle"] == "long":
        probs = oracle_long(fi)
    else:
        probs = oracle_pr(A("pr"), A("prsn"))
    for p, d in probs:
        print("REPRODUCED:", p, d)
    return 1 if probs else 0
